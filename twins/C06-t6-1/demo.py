"""Behaviour digest for the Quaver reader / writer (property C06).

Run as:  cd /tmp/wt7/C06 && PYTHONPATH=/tmp/wt7/C06 /venv/bin/python demo.py
Prints one line: DIGEST <sha256 hex>
"""
import hashlib
import math
import os
import random
import tempfile
import warnings
from pathlib import Path

import numpy as np
import pandas as pd
import yaml

warnings.filterwarnings("ignore")

import reamber
from reamber.quaver import QuaMap
from reamber.quaver.QuaBpm import QuaBpm
from reamber.quaver.QuaHit import QuaHit
from reamber.quaver.QuaHold import QuaHold
from reamber.quaver.QuaSv import QuaSv
from reamber.quaver.QuaMapMeta import QuaMapMode
from reamber.quaver.lists.QuaBpmList import QuaBpmList
from reamber.quaver.lists.QuaSvList import QuaSvList
from reamber.quaver.lists.notes.QuaHitList import QuaHitList
from reamber.quaver.lists.notes.QuaHoldList import QuaHoldList

assert Path(reamber.__file__).resolve().parts[:4] == ("/", "tmp", "wt7", "C06"), reamber.__file__

RSC = Path(reamber.__file__).resolve().parents[1] / "rsc" / "maps"
random.seed(60606)

OUT = []


def emit(*parts):
    OUT.append(" | ".join(str(p) for p in parts))


# ---------------------------------------------------------------- canonical text
def canon(v):
    """Type-tagged, deterministic text for any value we meet."""
    if isinstance(v, dict):
        return "{" + ", ".join(f"{canon(k)}: {canon(x)}" for k, x in v.items()) + "}"
    if isinstance(v, (list, tuple)):
        return type(v).__name__ + "[" + ", ".join(canon(x) for x in v) + "]"
    if isinstance(v, np.ndarray):
        return f"ndarray<{v.dtype}>" + canon(v.tolist())
    if isinstance(v, float) or isinstance(v, np.floating):
        if math.isnan(v):
            return f"{type(v).__name__}:nan"
        return f"{type(v).__name__}:{float(v)!r}"
    if isinstance(v, (bool, np.bool_)):
        return f"{type(v).__name__}:{bool(v)}"
    if isinstance(v, (int, np.integer)):
        return f"{type(v).__name__}:{int(v)}"
    if v is None or v is pd.NA or v is pd.NaT:
        return repr(v)
    return f"{type(v).__name__}:{v!r}"


def dump_df(df):
    if not isinstance(df, pd.DataFrame):
        return "NOT-A-FRAME " + canon(df)
    rows = [
        "cols=" + canon(list(df.columns)),
        "dtypes=" + canon([str(t) for t in df.dtypes]),
        "index=" + type(df.index).__name__ + canon(list(df.index)),
    ]
    for c in df.columns:
        rows.append(f"  {c}: " + canon(list(df[c])))
    return "\n".join(rows)


def dump_list(tl):
    return type(tl).__name__ + "\n" + dump_df(tl.df)


def dump_map(m):
    parts = [type(m).__name__]
    for name in ("hits", "holds", "bpms", "svs"):
        parts.append(f"[{name}] " + dump_list(getattr(m, name)))
    parts.append("[objs-keys] " + canon(list(m.objs.keys())))
    parts.append("[meta] " + canon(m._write_meta()))
    return "\n".join(parts)


def attempt(label, fn):
    """Runs fn, records the canonical result or the raised exception."""
    try:
        res = fn()
    except BaseException as e:  # noqa
        msg = str(e)
        if "0x" in msg:
            msg = "<addr>"
        emit(label, "RAISED", type(e).__name__, msg)
        return None
    emit(label, "OK", res if isinstance(res, str) else canon(res))
    return res


# ---------------------------------------------------------------- generators
SPECIAL_STRINGS = [
    "",
    "plain",
    "with: colon",
    "# hash first",
    "- dash first",
    "'single' and \"double\"",
    "yes",
    "null",
    "~",
    "123",
    "1.5e3",
    "  leading and trailing  ",
    "tab\tinside",
    "multi\nline",
    "unicode あいう éè",
    "[bracket] {brace}",
    "a,b & c * d ! e % f @ g ` h",
    "trailing colon:",
    "back\\slash",
    "?question | pipe > gt",
]


def rnd_time():
    kind = random.randrange(6)
    if kind == 0:
        return random.randint(-2000, 0)
    if kind == 1:
        return random.randint(0, 300000)
    if kind == 2:
        return round(random.uniform(-500, 200000), 3)
    if kind == 3:
        return random.choice([0, 0.0, 1, 999, 1000])
    if kind == 4:
        return random.randint(0, 50) * 100  # ties are likely
    return random.randint(0, 300000) + 0.5


def rnd_keysounds():
    k = random.randrange(5)
    if k == 0:
        return []
    if k == 1:
        return [{"Sample": random.randint(1, 9), "Volume": random.randint(1, 100)}]
    if k == 2:
        return [{"Sample": 1}, {"Sample": 2, "Volume": 50}]
    if k == 3:
        return None  # "KeySounds:" with no value
    return ["a.wav", "b.wav"]


def gen_note(lanes, hold, p_omit_start, p_omit_ks, p_extra):
    n = {}
    start = rnd_time()
    if random.random() >= p_omit_start:
        n["StartTime"] = start
    else:
        start = 0
    n["Lane"] = random.randint(1, lanes)
    if hold:
        n["EndTime"] = start + random.choice([0, 1, 50, 250.5, 1000, 30000])
    if random.random() < p_extra:
        n["HitSound"] = random.choice(["Normal", "Clap", "Whistle, Finish"])
    if random.random() < p_extra:
        n["EditorLayer"] = random.randint(0, 3)
    if random.random() >= p_omit_ks:
        n["KeySounds"] = rnd_keysounds()
    if random.random() < 0.3:
        n = dict(reversed(list(n.items())))  # key order must not matter
    return n


def gen_doc(i):
    lanes = random.choice([1, 2, 4, 4, 5, 7, 7, 8, 9, 10])
    shape = i % 8
    n_hits = random.randint(0, 12)
    n_holds = random.randint(0, 8)
    if shape == 1:
        n_holds = 0  # hits only
    elif shape == 2:
        n_hits = 0  # holds only
    elif shape == 3:
        n_hits = n_holds = 0
    p_omit_start = random.choice([0.0, 0.2, 1.0])
    p_omit_ks = random.choice([0.0, 0.5, 1.0])
    p_extra = random.choice([0.0, 0.3])
    notes = [gen_note(lanes, False, p_omit_start, p_omit_ks, p_extra) for _ in range(n_hits)]
    notes += [gen_note(lanes, True, p_omit_start, p_omit_ks, p_extra) for _ in range(n_holds)]
    if shape in (4, 5):
        random.shuffle(notes)  # interleaved + unsorted
    elif shape == 6:
        notes.sort(key=lambda n: n.get("StartTime", 0))
    doc = {}
    meta_pool = {
        "AudioFile": random.choice(SPECIAL_STRINGS),
        "SongPreviewTime": random.choice([0, -1, 12345, 1.5]),
        "BackgroundFile": random.choice(SPECIAL_STRINGS),
        "BannerFile": random.choice(SPECIAL_STRINGS),
        "Genre": random.choice(SPECIAL_STRINGS),
        "BPMDoesNotAffectScrollVelocity": random.choice([True, False]),
        "InitialScrollVelocity": random.choice([1, 1.0, 0.5, 2.25]),
        "HasScratchKey": random.choice([True, False]),
        "MapId": random.choice([-1, 0, 99999]),
        "MapSetId": random.choice([-1, 7]),
        "Mode": random.choice(["Keys4", "Keys7", "Keys8", "Keys%d" % lanes]),
        "Title": random.choice(SPECIAL_STRINGS),
        "Artist": random.choice(SPECIAL_STRINGS),
        "Source": random.choice(SPECIAL_STRINGS),
        "Tags": random.choice(["", "a b c", "  double  space ", "one", None, 123, "x: y"]),
        "Creator": random.choice(SPECIAL_STRINGS),
        "DifficultyName": random.choice(SPECIAL_STRINGS),
        "Description": random.choice(SPECIAL_STRINGS),
        "EditorLayers": random.choice([[], [{"Name": "L1", "ColorRgb": "255,0,0"}]]),
        "CustomAudioSamples": random.choice([[], [{"Path": "a.wav"}, {"Path": "b: c.wav"}]]),
        "SoundEffects": random.choice([[], [{"StartTime": 5, "Sample": 1, "Volume": 30}]]),
    }
    p_meta = random.choice([0.0, 0.5, 1.0])
    for k, v in meta_pool.items():
        if random.random() < p_meta:
            doc[k] = v
    # timing points
    tp_mode = random.randrange(5)
    if tp_mode == 0:
        pass  # key omitted
    elif tp_mode == 1:
        doc["TimingPoints"] = []
    elif tp_mode == 2:
        doc["TimingPoints"] = None
    else:
        tps = []
        for _ in range(random.randint(1, 5)):
            tp = {}
            if random.random() < 0.8:
                tp["StartTime"] = rnd_time()
            if random.random() < 0.8:
                tp["Bpm"] = random.choice([120, 60.5, 0, -100, 1e6, 0.001, 333.333])
            if random.random() < 0.2:
                tp["Signature"] = random.choice(["Quadruple", "Triple"])
            tps.append(tp)
        doc["TimingPoints"] = tps
    sv_mode = random.randrange(5)
    if sv_mode == 0:
        pass
    elif sv_mode == 1:
        doc["SliderVelocities"] = []
    elif sv_mode == 2:
        doc["SliderVelocities"] = None
    else:
        svs = []
        for _ in range(random.randint(1, 6)):
            sv = {}
            if random.random() < 0.8:
                sv["StartTime"] = rnd_time()
            if random.random() < 0.7:
                sv["Multiplier"] = random.choice([1, 1.0, 0, 0.0, -1.5, 10, 0.01, 2.5])
            svs.append(sv)
        doc["SliderVelocities"] = svs
    ho_mode = random.randrange(6)
    if not notes and ho_mode == 0:
        pass
    elif not notes and ho_mode == 1:
        doc["HitObjects"] = None
    else:
        doc["HitObjects"] = notes
    if random.random() < 0.3:
        doc = dict(random.sample(list(doc.items()), len(doc)))
    return doc


def doc_text(doc):
    return yaml.safe_dump(doc, default_flow_style=False, sort_keys=False, allow_unicode=True)


# ---------------------------------------------------------------- scenario helpers
def yaml_records_probe(label, tl):
    """to_yaml of one list: result, value types, input afterwards, sharing."""
    before = dump_df(tl.df)
    df_obj = tl.df
    res = attempt(f"{label}.to_yaml", tl.to_yaml)
    emit(f"{label}.df-same-object", tl.df is df_obj)
    emit(f"{label}.df-unchanged", dump_df(tl.df) == before)
    emit(f"{label}.df-after", dump_df(tl.df))
    if res is not None and "keysounds" in tl.df.columns and len(res) == len(tl.df):
        shared = [r.get("KeySounds") is k for r, k in zip(res, list(tl.df["keysounds"]))]
        emit(f"{label}.keysounds-shared", canon(shared))
    return res


def roundtrip(label, m, depth=2):
    """write -> read -> write ..., dumping every stage."""
    emit(label, "map", dump_map(m))
    for name in ("hits", "holds", "bpms", "svs"):
        yaml_records_probe(f"{label}.{name}", getattr(m, name))
    before = dump_map(m)
    text = attempt(f"{label}.write", m.write)
    emit(f"{label}.unchanged-by-write", dump_map(m) == before)
    if text is None:
        return
    parsed = yaml.safe_load(text)
    emit(f"{label}.parsed", canon(parsed))
    cur = text
    for d in range(depth):
        m2 = attempt(f"{label}.reread{d}", lambda: dump_map(QuaMap.read(cur)))
        if m2 is None:
            return
        nxt = attempt(f"{label}.rewrite{d}", lambda: QuaMap.read(cur).write())
        if nxt is None:
            return
        emit(f"{label}.fixpoint{d}", nxt == cur)
        cur = nxt


def read_probe(label, text):
    lines = text.split("\n")
    lines_copy = list(lines)
    a = attempt(f"{label}.read(str)", lambda: dump_map(QuaMap.read(text)))
    b = attempt(f"{label}.read(lines)", lambda: dump_map(QuaMap.read(lines)))
    emit(f"{label}.lines-unchanged", lines == lines_copy)
    emit(f"{label}.str-vs-lines", a == b if a is not None else "n/a")
    return a is not None


# ================================================================ 1. generated .qua documents
N_DOCS = 64
for i in range(N_DOCS):
    doc = gen_doc(i)
    text = doc_text(doc)
    emit(f"doc{i}", "text", text)
    if read_probe(f"doc{i}", text):
        roundtrip(f"doc{i}.rt", QuaMap.read(text))

# ================================================================ 2. hand-written corner documents
CORNER_DOCS = {
    "empty-mapping": "{}\n",
    "empty-doc": "",
    "only-null-sections": "HitObjects:\nTimingPoints:\nSliderVelocities:\n",
    "only-empty-sections": "HitObjects: []\nTimingPoints: []\nSliderVelocities: []\n",
    "bare-hit": "HitObjects:\n- Lane: 1\n",
    "hit-no-lane": "HitObjects:\n- StartTime: 10\n",
    "hits-some-no-lane": "HitObjects:\n- StartTime: 10\n- StartTime: 20\n  Lane: 3\n",
    "hold-no-lane": "HitObjects:\n- StartTime: 10\n  EndTime: 30\n",
    "hold-no-start": "HitObjects:\n- Lane: 2\n  EndTime: 30\n- Lane: 1\n  EndTime: 45\n  KeySounds: []\n",
    "hold-null-end": "HitObjects:\n- Lane: 2\n  StartTime: 5\n  EndTime:\n- Lane: 3\n  StartTime: 7\n  EndTime: 90\n",
    "hold-end-before-start": "HitObjects:\n- Lane: 2\n  StartTime: 500\n  EndTime: 100\n",
    "null-lane": "HitObjects:\n- Lane:\n  StartTime: 5\n- Lane: 4\n  StartTime: 6\n",
    "null-start": "HitObjects:\n- Lane: 1\n  StartTime:\n- Lane: 4\n  StartTime: 6\n",
    "string-start": "HitObjects:\n- Lane: 1\n  StartTime: '12'\n",
    "string-lane": "HitObjects:\n- Lane: '2'\n  StartTime: 12\n",
    "float-lane": "HitObjects:\n- Lane: 2.0\n  StartTime: 12\n- Lane: 3.7\n  StartTime: 13\n",
    "lane-zero-negative": "HitObjects:\n- Lane: 0\n  StartTime: 12\n- Lane: -3\n  StartTime: 13\n",
    "lane-huge": "HitObjects:\n- Lane: 100\n  StartTime: 12\n- Lane: 16\n  EndTime: 99\n",
    "keysounds-scalar": "HitObjects:\n- Lane: 1\n  KeySounds: 5\n- Lane: 2\n  KeySounds: abc\n- Lane: 3\n  KeySounds: {Sample: 1}\n",
    "hitobject-not-mapping": "HitObjects:\n- 5\n",
    "hitobject-string": "HitObjects:\n- EndTime\n",
    "hitobjects-mapping": "HitObjects:\n  Lane: 1\n",
    "tp-empty-item": "TimingPoints:\n- {}\n",
    "tp-not-mapping": "TimingPoints:\n- 120\n",
    "tp-null-values": "TimingPoints:\n- StartTime:\n  Bpm:\n",
    "tp-string": "TimingPoints:\n- StartTime: a\n  Bpm: b\n",
    "sv-empty-item": "SliderVelocities:\n- {}\n- StartTime: 9\n",
    "sv-null-values": "SliderVelocities:\n- StartTime:\n  Multiplier:\n",
    "sv-not-mapping": "SliderVelocities:\n- 1.0\n",
    "top-level-list": "- a\n- b\n",
    "top-level-scalar": "hello\n",
    "bad-yaml": "Title: [unclosed\n",
    "tags-list": "Tags: [a, b]\n",
    "tags-spaces": "Tags: '  a   b  '\n",
    "title-quoted": "Title: 'It''s: a #title'\nArtist: \"x\\ty\"\nCreator: '- dash'\nDescription: |\n  two\n  lines\n",
    "unknown-keys": "Foo: 1\nBar: [1, 2]\nTitle: t\nHitObjects:\n- Lane: 1\n  Foo: 2\n",
    "dup-times": "HitObjects:\n- {StartTime: 10, Lane: 1}\n- {StartTime: 10, Lane: 1}\n- {StartTime: 10, Lane: 2, EndTime: 10}\n- {StartTime: 10, Lane: 2, EndTime: 20}\n",
    "big-times": "HitObjects:\n- {StartTime: 99999999999, Lane: 1}\n- {StartTime: -99999999999, Lane: 2, EndTime: 99999999999}\n",
    "inf-time": "HitObjects:\n- {StartTime: .inf, Lane: 1}\n",
    "nan-time": "HitObjects:\n- {StartTime: .nan, Lane: 1}\n- {StartTime: 3, Lane: 1, EndTime: .nan}\n",
    "bool-time": "HitObjects:\n- {StartTime: true, Lane: 1}\n",
    "mode-odd": "Mode: Keys5\nHasScratchKey: false\n",
}
for name, text in CORNER_DOCS.items():
    emit(f"corner:{name}", "text", text)
    if read_probe(f"corner:{name}", text):
        roundtrip(f"corner:{name}.rt", QuaMap.read(text), depth=1)

# ================================================================ 3. list-level from_yaml / to_yaml
FROM_YAML_INPUTS = {
    "empty": [],
    "one": [dict(StartTime=1, Lane=1, KeySounds=[])],
    "no-start": [dict(Lane=1), dict(Lane=3, KeySounds=[{"Sample": 1}])],
    "no-lane": [dict(StartTime=1)],
    "no-keys": [dict()],
    "mixed": [dict(StartTime=5.5, Lane=2), dict(Lane=1, StartTime=-3, KeySounds=None, X=1)],
    "unsorted-ties": [dict(StartTime=t, Lane=l) for t, l in [(9, 2), (3, 1), (9, 1), (3, 1), (0, 4)]],
    "tuple-input": (dict(StartTime=1, Lane=1),),
    "none-input": None,
    "non-dict-items": [1, 2],
    "lane-none": [dict(StartTime=1, Lane=None), dict(StartTime=2, Lane=2)],
    "lane-str": [dict(StartTime=1, Lane="2")],
    "ks-tuple": [dict(StartTime=1, Lane=1, KeySounds=("a",))],
    "prenamed": [dict(offset=4, column=3, keysounds=["x"], length=7)],
    "both-names": [dict(StartTime=1, offset=2, Lane=1)],
}
for name, dicts in FROM_YAML_INPUTS.items():
    for cls in (QuaHitList, QuaHoldList):
        holdify = cls is QuaHoldList

        def make(dicts=dicts, holdify=holdify):
            if not isinstance(dicts, (list, tuple)):
                return dicts
            out = []
            for k, d in enumerate(dicts):
                d = dict(d) if isinstance(d, dict) else d
                if holdify and isinstance(d, dict) and (k % 2 == 0 or name == "one"):
                    d["EndTime"] = d.get("StartTime", 0) + 10 * (k + 1) if isinstance(d.get("StartTime", 0), (int, float)) else 5
                out.append(d)
            return type(dicts)(out)

        src = make()
        src_before = canon(src)
        res = attempt(f"from_yaml:{cls.__name__}:{name}", lambda: dump_list(cls.from_yaml(src)))
        emit(f"from_yaml:{cls.__name__}:{name}.input-unchanged", canon(src) == src_before)
        if res is not None:
            tl = cls.from_yaml(make())
            yaml_records_probe(f"from_yaml:{cls.__name__}:{name}.back", tl)
    for cls in (QuaBpmList, QuaSvList):
        res = attempt(f"from_yaml:{cls.__name__}:{name}", lambda: dump_list(cls.from_yaml(dicts)))

TP_INPUTS = {
    "bpm-plain": [dict(StartTime=0, Bpm=120), dict(StartTime=1000.7, Bpm=60.25)],
    "bpm-omitted": [dict(Bpm=100), dict(StartTime=5), dict()],
    "sv-plain": [dict(StartTime=0, Multiplier=1), dict(StartTime=-5.5, Multiplier=0)],
    "sv-omitted": [dict(Multiplier=2), dict(StartTime=5), dict()],
}
for name, dicts in TP_INPUTS.items():
    for cls in (QuaBpmList, QuaSvList):
        res = attempt(f"from_yaml:{cls.__name__}:{name}", lambda: dump_list(cls.from_yaml(dicts)))
        if res is not None:
            yaml_records_probe(f"from_yaml:{cls.__name__}:{name}.back", cls.from_yaml(dicts))

# ================================================================ 4. in-memory charts
def rnd_hits(n, lanes):
    return [
        QuaHit(offset=rnd_time(), column=random.randrange(lanes), keysounds=rnd_keysounds() or [])
        for _ in range(n)
    ]


def rnd_holds(n, lanes):
    return [
        QuaHold(
            offset=rnd_time(),
            column=random.randrange(lanes),
            length=random.choice([0, 1, 0.4, 0.6, 99.5, 1000, 123456]),
            keysounds=rnd_keysounds() or [],
        )
        for _ in range(n)
    ]


for i in range(40):
    lanes = random.choice([1, 3, 4, 5, 6, 7, 8, 9, 10, 18])
    m = QuaMap()
    shape = i % 5
    nh = 0 if shape in (1, 3) else random.randint(1, 10)
    nl = 0 if shape in (2, 3) else random.randint(1, 7)
    m.hits = QuaHitList(rnd_hits(nh, lanes))
    m.holds = QuaHoldList(rnd_holds(nl, lanes))
    m.bpms = QuaBpmList(
        [QuaBpm(offset=rnd_time(), bpm=random.choice([120, 0.5, 300, 77.7])) for _ in range(random.randint(0, 4))]
    )
    m.svs = QuaSvList(
        [QuaSv(offset=rnd_time(), multiplier=random.choice([1, 0, -2, 0.25, 10])) for _ in range(random.randint(0, 5))]
    )
    if i % 4 == 0:
        # lists that went through sorting / filtering carry arbitrary row labels
        m.hits = m.hits.sorted(reverse=bool(i % 8))
        m.holds = m.holds.sorted()[::2] if len(m.holds) else m.holds
        m.svs = m.svs.sorted()
    if i % 7 == 3 and len(m.hits):
        m.hits = QuaHitList(m.hits.df.set_index(pd.Index([f"r{k}" for k in range(len(m.hits))])))
    m.title = random.choice(SPECIAL_STRINGS)
    m.artist = random.choice(SPECIAL_STRINGS)
    m.creator = random.choice(SPECIAL_STRINGS)
    m.description = random.choice(SPECIAL_STRINGS)
    m.difficulty_name = random.choice(SPECIAL_STRINGS)
    m.tags = random.choice([[], ["a"], ["a", "b c", ""], ["#x", "y:"]])
    m.mode = QuaMapMode.get_mode(lanes) or random.choice(["Keys4", "", "Keys%d" % lanes])
    roundtrip(f"mem{i}", m)

# hand-built frames: int/float/object dtypes, extra columns, missing columns, NaN, bad values
FRAMES = {
    "hit-int": (QuaHitList, pd.DataFrame(dict(offset=[1, 2], column=[0, 3], keysounds=[[], ["k"]]))),
    "hit-float": (QuaHitList, pd.DataFrame(dict(offset=[1.9, -2.9], column=[0.0, 3.0], keysounds=[[], []]))),
    "hit-object": (QuaHitList, pd.DataFrame(dict(offset=[1, 2.5], column=[0, 1], keysounds=[[], []]), dtype=object)),
    "hit-reordered": (QuaHitList, pd.DataFrame(dict(keysounds=[[], []], column=[1, 2], offset=[5, 4]))),
    "hit-extra-col": (QuaHitList, pd.DataFrame(dict(offset=[1], column=[0], keysounds=[[]], index=[7], foo=["z"]))),
    "hit-no-column": (QuaHitList, pd.DataFrame(dict(offset=[1], keysounds=[[]]))),
    "hit-no-offset": (QuaHitList, pd.DataFrame(dict(column=[1], keysounds=[[]]))),
    "hit-no-keysounds": (QuaHitList, pd.DataFrame(dict(offset=[1.0], column=[1]))),
    "hit-nan-offset": (QuaHitList, pd.DataFrame(dict(offset=[np.nan], column=[1], keysounds=[[]]))),
    "hit-nan-column": (QuaHitList, pd.DataFrame(dict(offset=[1.0], column=[np.nan], keysounds=[[]]))),
    "hit-nan-keysounds": (QuaHitList, pd.DataFrame(dict(offset=[1.0, 2.0], column=[1, 2], keysounds=[np.nan, []]))),
    "hit-str-column": (QuaHitList, pd.DataFrame(dict(offset=[1.0], column=["1"], keysounds=[[]]))),
    "hit-bool-column": (QuaHitList, pd.DataFrame(dict(offset=[1.0, 2.0], column=[True, False], keysounds=[[], []]))),
    "hit-empty-typed": (QuaHitList, pd.DataFrame(dict(offset=[1.0], column=[1], keysounds=[[]]))[:0]),
    "hit-dup-labels": (QuaHitList, pd.DataFrame(dict(offset=[1.0, 2.0], column=[1, 2], keysounds=[[], []]), index=[5, 5])),
    "hold-int": (QuaHoldList, pd.DataFrame(dict(offset=[1, 2], column=[0, 3], keysounds=[[], ["k"]], length=[5, 0]))),
    "hold-float": (QuaHoldList, pd.DataFrame(dict(offset=[1.6, -2.6], column=[0.0, 3.0], keysounds=[[], []], length=[0.6, 2.7]))),
    "hold-object": (QuaHoldList, pd.DataFrame(dict(offset=[1, 2.5], column=[0, 1], keysounds=[[], []], length=[1, 2]), dtype=object)),
    "hold-reordered": (QuaHoldList, pd.DataFrame(dict(length=[3, 4], keysounds=[[], []], column=[1, 2], offset=[5, 4]))),
    "hold-extra-col": (QuaHoldList, pd.DataFrame(dict(offset=[1], column=[0], length=[2], keysounds=[[]], index=[7], EndTime=[-1]))),
    "hold-no-length": (QuaHoldList, pd.DataFrame(dict(offset=[1], column=[0], keysounds=[[]]))),
    "hold-no-column": (QuaHoldList, pd.DataFrame(dict(offset=[1], length=[0], keysounds=[[]]))),
    "hold-no-offset": (QuaHoldList, pd.DataFrame(dict(column=[1], length=[0], keysounds=[[]]))),
    "hold-nan-length": (QuaHoldList, pd.DataFrame(dict(offset=[1.0], column=[1], keysounds=[[]], length=[np.nan]))),
    "hold-negative-length": (QuaHoldList, pd.DataFrame(dict(offset=[10.0], column=[1], keysounds=[[]], length=[-20.5]))),
    "hold-str-length": (QuaHoldList, pd.DataFrame(dict(offset=[10.0], column=[1], keysounds=[[]], length=["3"]))),
    "hold-empty-typed": (QuaHoldList, pd.DataFrame(dict(offset=[1.0], column=[1], keysounds=[[]], length=[1.0]))[:0]),
    "hold-dup-labels": (QuaHoldList, pd.DataFrame(dict(offset=[1.0, 2.0], column=[1, 2], keysounds=[[], []], length=[3.0, 4.0]), index=["a", "a"])),
    "sv-int": (QuaSvList, pd.DataFrame(dict(offset=[1, 2], multiplier=[1, 2]))),
    "sv-float": (QuaSvList, pd.DataFrame(dict(offset=[1.9, -2.9], multiplier=[0.5, -1.0]))),
    "sv-nan-mult": (QuaSvList, pd.DataFrame(dict(offset=[1.0], multiplier=[np.nan]))),
    "sv-nan-offset": (QuaSvList, pd.DataFrame(dict(offset=[np.nan], multiplier=[1.0]))),
    "sv-no-mult": (QuaSvList, pd.DataFrame(dict(offset=[1.0]))),
    "sv-extra": (QuaSvList, pd.DataFrame(dict(offset=[1.0], multiplier=[1.0], index=[3]))),
    "sv-str": (QuaSvList, pd.DataFrame(dict(offset=["7"], multiplier=["1.5"]))),
    "sv-empty-typed": (QuaSvList, pd.DataFrame(dict(offset=[1.0], multiplier=[1.0]))[:0]),
    "sv-labels": (QuaSvList, pd.DataFrame(dict(offset=[3.0, 1.0], multiplier=[1.0, 2.0]), index=[9, 4])),
    "bpm-int": (QuaBpmList, pd.DataFrame(dict(offset=[1, 2], bpm=[100, 200], metronome=[4, 4]))),
    "bpm-no-metronome": (QuaBpmList, pd.DataFrame(dict(offset=[1, 2], bpm=[100, 200]))),
    "bpm-extra": (QuaBpmList, pd.DataFrame(dict(offset=[1.5], bpm=[100], metronome=[3], index=[0]))),
}
for name, (cls, df) in FRAMES.items():
    tl = cls(df)
    emit(f"frame:{name}.wraps-same-df", tl.df is df)
    yaml_records_probe(f"frame:{name}", tl)
    m = QuaMap()
    attr = {QuaHitList: "hits", QuaHoldList: "holds", QuaSvList: "svs", QuaBpmList: "bpms"}[cls]
    setattr(m, attr, cls(df.copy()))
    roundtrip(f"frame:{name}.map", m, depth=1)

# ================================================================ 5. charts arriving through the converters
from reamber.algorithms.convert import (  # noqa: E402
    BMSToQua,
    O2JToQua,
    OsuToQua,
    SMToQua,
    QuaToOsu,
)
from reamber.bms.BMSMap import BMSMap  # noqa: E402
from reamber.o2jam import O2JMapSet  # noqa: E402
from reamber.osu import OsuMap  # noqa: E402
from reamber.sm import SMMapSet  # noqa: E402


def small(m, n=25):
    """Keeps the digest text manageable: first n rows of each list."""
    m.hits = m.hits[:n]
    m.holds = m.holds[:n]
    m.bpms = m.bpms[:n]
    if hasattr(m, "svs"):
        m.svs = m.svs[:n]
    return m


for f in ["Gravity.osu", "Escapes.osu", "LNDan15.osu", "Aiae.osu", "AvengerHitsoundable.osu", "ZENITHALIZE_19.osu"]:
    def conv(f=f):
        return OsuToQua.convert(small(OsuMap.read_file((RSC / "osu" / f).as_posix())), raise_bad_mode=False)
    q = attempt(f"conv:osu:{f}", lambda: dump_map(conv()))
    if q is not None:
        roundtrip(f"conv:osu:{f}.rt", conv(), depth=1)

for f in ["Escapes.sm", "Gravity.sm", "ICFITU.sm"]:
    def conv(f=f):
        sms = SMMapSet.read_file((RSC / "sm" / f).as_posix())
        for sm in sms:
            small(sm)
        return SMToQua.convert(sms, raise_bad_mode=False)
    q = attempt(f"conv:sm:{f}", lambda: canon([dump_map(x) for x in conv()]))
    if q is not None:
        for k, x in enumerate(conv()):
            roundtrip(f"conv:sm:{f}[{k}].rt", x, depth=1)

for f in ["coldBreath.bme", "nhelv.bme", "searoad.bml"]:
    def conv(f=f):
        return BMSToQua.convert(small(BMSMap.read_file(RSC / "bms" / f)), raise_bad_mode=False)
    q = attempt(f"conv:bms:{f}", lambda: dump_map(conv()))
    if q is not None:
        roundtrip(f"conv:bms:{f}.rt", conv(), depth=1)

for f in ["o2ma178.ojn", "o2ma120.ojn"]:
    def conv(f=f):
        o2s = O2JMapSet.read_file((RSC / "o2jam" / f).as_posix())
        for o in o2s:
            small(o)
        return O2JToQua.convert(o2s)
    q = attempt(f"conv:o2j:{f}", lambda: canon([dump_map(x) for x in conv()]))
    if q is not None:
        for k, x in enumerate(conv()):
            roundtrip(f"conv:o2j:{f}[{k}].rt", x, depth=1)

# whole bundled .qua files: textual write-after-read and file I/O
for f in ["CarryMeAway.qua", "NeuroCloud.qua"]:
    path = RSC / "qua" / f
    m = QuaMap.read_file(path)
    emit(f"file:{f}", "sizes", len(m.hits), len(m.holds), len(m.bpms), len(m.svs))
    text = m.write()
    emit(f"file:{f}.write-sha", hashlib.sha256(text.encode("utf8")).hexdigest())
    emit(f"file:{f}.map-sha", hashlib.sha256(dump_map(m).encode("utf8")).hexdigest())
    with tempfile.TemporaryDirectory() as td:
        p = os.path.join(td, "out.qua")
        m.write_file(p)
        m2 = QuaMap.read_file(p)
        emit(f"file:{f}.file-roundtrip-same", dump_map(m2) == dump_map(QuaMap.read(text)))
        emit(f"file:{f}.file-rewrite-fixpoint", m2.write() == text)
    back = QuaToOsu.convert(m)
    emit(f"file:{f}.to-osu-and-back", hashlib.sha256(dump_map(OsuToQua.convert(back, raise_bad_mode=False)).encode("utf8")).hexdigest())
    for name in ("hits", "holds", "bpms", "svs"):
        recs = getattr(m, name).to_yaml()
        emit(f"file:{f}.{name}.yaml-sha", hashlib.sha256(canon(recs).encode("utf8")).hexdigest())

# the small bundled unit-test document must round trip textually
unit = (RSC.parents[1] / "tests" / "unit_tests" / "qua" / "map.qua").read_text()
emit("unit-map.textual", QuaMap.read(unit).write() == unit, QuaMap.read(unit.split("\n")).write() == unit)

# key-mode helpers
for v in ["Keys4", "Keys7", "Keys8", "Keys5", "", None, 4, "keys4"]:
    attempt(f"get_keys:{v!r}", lambda: QuaMapMode.get_keys(v))
for v in [4, 7, 8, 4.0, 5, 0, -1, "4", None, True]:
    attempt(f"get_mode:{v!r}", lambda: QuaMapMode.get_mode(v))

blob = "\n".join(OUT).encode("utf8")
if os.environ.get("DEMO_DUMP"):
    Path(os.environ["DEMO_DUMP"]).write_bytes(blob)
print("DIGEST", hashlib.sha256(blob).hexdigest())
