"""Demo for refactoring 3: Snapper.__init__ (pruning of repeated slots) and Snapper.snap.

Run as:  cd /tmp/wt7/C10 && PYTHONPATH=/tmp/wt7/C10 /venv/bin/python demo.py
Prints one line `DIGEST <sha256>` over a canonical dump of every result.
"""
import hashlib
import logging
import os
import random
from fractions import Fraction

import numpy as np

from reamber.algorithms.timing.TimingMap import TimingMap
from reamber.algorithms.timing.utils.BpmChangeOffset import BpmChangeOffset
from reamber.algorithms.timing.utils.Snapper import Snapper, snap
from reamber.algorithms.timing.utils.conf import DEFAULT_DIVISIONS
from reamber.algorithms.timing.utils.snap import Snap

logging.disable(logging.CRITICAL)
random.seed(20261003)

OUT = []


def canon(x):
    if isinstance(x, np.ndarray):
        return "ndarray[%s,%s](%s)" % (x.dtype, x.shape, x.tobytes().hex())
    if isinstance(x, Snap):
        return "Snap(%s,%s,%s)" % (canon(x.measure), canon(x.beat), canon(x.metronome))
    if isinstance(x, (list, tuple)):
        return "%s(%s)" % (type(x).__name__, ",".join(canon(e) for e in x))
    if isinstance(x, float):
        return "%s:%s" % (type(x).__name__, float(x).hex())
    return "%s:%r" % (type(x).__name__, x)


def record(label, fn):
    try:
        res = fn()
        OUT.append("%s => %s" % (label, canon(res)))
        return res
    except Exception as e:  # noqa
        OUT.append("%s => EXC %s: %s" % (label, type(e).__name__, e))
        return None


def state(s):
    """The complete state of a Snapper."""
    return [sorted(vars(s).keys()), s.val, s.num, s.den]


# ---------------------------------------------------------------- construction
division_sets = [
    DEFAULT_DIVISIONS,
    list(DEFAULT_DIVISIONS),
    np.array(DEFAULT_DIVISIONS),
    (1,),
    (2,),
    (1, 2, 4),
    (4, 2, 1),
    (3, 3, 3),
    (1, 2, 3, 4, 6, 8, 12, 16, 24, 48),
    (192,),
    (7, 5),
    range(1, 17),
    np.array([8, 16], dtype=np.int32),
    np.array([5], dtype=np.uint8),
    [np.int64(12)],
    (True,),
    # outside the domain: must fail the same way
    (),
    [],
    (0,),
    (-4,),
    (2.0, 4.0),
    (1.5,),
    ("4",),
    None,
    [[2, 4], [3, 6]],
    4,
]
# every triangle size from 1 to 130 (only max(divisions) matters)
division_sets += [(m,) for m in range(1, 131)]
division_sets += [(1, m, max(1, m // 2)) for m in (150, 200, 256)]
for _ in range(25):
    division_sets.append(
        tuple(random.sample(range(1, 100), random.randint(1, 6)))
    )

snappers = []
for i, d in enumerate(division_sets):
    d_before = repr(d)
    s = record("Snapper#%d(%s)" % (i, d_before[:60]), lambda: state(Snapper(divisions=d)))
    OUT.append("Snapper#%d arg-after %s" % (i, repr(d) == d_before))
    if s is not None:
        snappers.append((i, Snapper(divisions=d)))
record("Snapper()", lambda: state(Snapper()))

# ------------------------------------------------------------------- snapping
values = [0, 0.0, 1, 1.0, 0.5, 0.25, 0.75, 1 / 3, 2 / 3, 0.1, 0.9, 0.999999, 0.9999999999,
          1e-12, 1 - 1e-12, 3.5, 17.125, 1000.3333333333334, -0.25, -1.5, -1e-9,
          1 / 192, 1 / 96, 95 / 96, 191 / 192, 1 / 96 / 2, (1 / 96 + 1 / 64) / 2,
          np.float64(2.75), np.float32(0.2), Fraction(5, 7), Fraction(22, 7), 5, -3,
          float("inf"), float("nan"), None, "0.5"]
values += [random.uniform(0, 8) for _ in range(60)]
values += [random.uniform(-4, 0) for _ in range(20)]
# every default-grid point, and points a hair off a grid point / a midpoint
default = Snapper()
grid = [float(v) for v in default.val]
values += grid[::3]
values += [g + e for g in grid[::7] for e in (1e-9, -1e-9) if g + e >= 0]
values += [(a + b) / 2 for a, b in zip(grid[:-1:5], grid[1::5])]
values += [float(np.nextafter((a + b) / 2, 0)) for a, b in zip(grid[:-1:11], grid[1::11])]
values += [float(np.nextafter((a + b) / 2, 1)) for a, b in zip(grid[:-1:11], grid[1::11])]

chosen = [t for t in snappers if t[0] < 16 or t[0] % 23 == 0]
for i, s in chosen:
    for v in values:
        r = record("S#%d.snap(%r)" % (i, v), lambda: s.snap(v))
        if r is not None:
            # idempotence: snapping the snapped value again
            record("S#%d.snap(snap(%r))" % (i, v), lambda: s.snap(r))
            record("S#%d.snap(float(snap(%r)))" % (i, v), lambda: s.snap(float(r)))

for v in values:
    record("snap(%r)" % (v,), lambda: snap(v))
    record("snap(%r,(1,2,4))" % (v,), lambda: snap(v, (1, 2, 4)))
    record("snap(%r,[3,6,9])" % (v,), lambda: snap(v, [3, 6, 9]))

# ------------------------------------------- snapping through the timing engine
for k in range(30):
    n = random.randint(1, 5)
    o = random.choice([0, -1500, 12.5, random.uniform(-3000, 3000)])
    bco_s = []
    for _ in range(n):
        bco_s.append(
            BpmChangeOffset(random.choice([60, 120, 175.5, random.uniform(30, 400)]),
                            random.randint(1, 8), o))
        o += random.choice([1000, 2500, random.uniform(100, 6000)])
    random.shuffle(bco_s)
    tm = TimingMap.from_bpm_changes_offset(bco_s)
    first, last = tm.bpm_changes_offset[0].offset, tm.bpm_changes_offset[-1].offset
    q = [random.uniform(first, last + 4000) for _ in range(random.randint(1, 25))]
    q += q[:3] + [first]
    random.shuffle(q)
    for name, sn in (("default", Snapper()), ("coarse", Snapper((1, 2, 4))),
                     ("odd", Snapper([3, 5, 7]))):
        record("tm%02d bcs[%s]" % (k, name),
               lambda: [(b.bpm, b.metronome, b.snap)
                        for b in TimingMap(list(tm.bpm_changes_offset), sn).bpm_changes_snap()])
        sq = record("tm%02d snaps[%s]" % (k, name), lambda: list(tm.snaps(q, sn)))
        record("tm%02d beats[%s]" % (k, name), lambda: list(tm.beats(q, sn)))
        if sq is not None:
            record("tm%02d offsets[%s]" % (k, name), lambda: list(tm.offsets(sq)))

if os.environ.get("DEMO_DUMP"):
    open(os.environ["DEMO_DUMP"], "w").write("\n".join(OUT))
print("DIGEST " + hashlib.sha256("\n".join(OUT).encode()).hexdigest())
