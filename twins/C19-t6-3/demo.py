"""Behaviour digest for dominant_bpm / scroll_speed / sv_normalize.

Run as:  cd /tmp/wt7/C19 && PYTHONPATH=/tmp/wt7/C19 /venv/bin/python demo.py
Prints one line ``DIGEST <sha256>`` over a canonical dump of every result
(values, dtypes, names, row labels, exception types, emitted warnings) and of
the input chart before and after every call.
"""
import hashlib
import os
import random
import warnings

import numpy as np
import pandas as pd

from reamber.algorithms.analysis import scroll_speed
from reamber.algorithms.generate import sv_normalize
from reamber.algorithms.utils import dominant_bpm
from reamber.osu import OsuMap, OsuBpm, OsuHit, OsuHold, OsuSv
from reamber.osu.lists import OsuBpmList, OsuSvList
from reamber.osu.lists.notes import OsuHitList, OsuHoldList
from reamber.quaver import QuaMap, QuaBpm, QuaHit, QuaHold, QuaSv
from reamber.quaver.lists import QuaBpmList, QuaSvList
from reamber.quaver.lists.notes import QuaHitList, QuaHoldList
from reamber.sm import SMMap, SMBpm, SMHit
from reamber.sm.lists import SMBpmList
from reamber.sm.lists.notes import SMHitList

random.seed(190719)

OUT = []


def emit(*parts):
    OUT.append(" | ".join(str(p) for p in parts))


# --------------------------------------------------------------------------- #
# canonical dumps
# --------------------------------------------------------------------------- #
def cell(v):
    if isinstance(v, (float, np.floating)):
        return f"{type(v).__name__}:{float(v)!r}"
    return f"{type(v).__name__}:{v!r}"


def dump_index(ix):
    return f"{type(ix).__name__}[{ix.dtype}] name={ix.name!r} " + ",".join(
        cell(i) for i in ix.tolist()
    )


def dump(obj):
    if isinstance(obj, pd.Series):
        return (
            f"Series name={obj.name!r} dtype={obj.dtype} index=({dump_index(obj.index)})"
            f" values=[{','.join(cell(v) for v in obj.tolist())}]"
        )
    if isinstance(obj, pd.DataFrame):
        cols = ";".join(
            f"{c!r}:{obj[c].dtype}=[{','.join(cell(v) for v in obj[c].tolist())}]"
            for c in obj.columns
        )
        return f"DataFrame index=({dump_index(obj.index)}) cols=({cols})"
    if hasattr(obj, "df") and isinstance(obj.df, pd.DataFrame):
        return f"{type(obj).__name__}<{dump(obj.df)}>"
    return cell(obj)


def dump_map(m):
    return f"{type(m).__name__}{{" + " ## ".join(
        f"{k}:{type(v).__name__}:{dump(v.df)}" for k, v in m.objs.items()
    ) + "}"


def call(label, fn, m, *args):
    before = dump_map(m)
    with warnings.catch_warnings(record=True) as caught:
        warnings.simplefilter("always")
        try:
            out = fn(m, *args)
            res = "OK " + dump(out)
            if hasattr(out, "df"):
                # the returned list must not alias the chart: scribble over it
                out.df.iloc[:, :] = -7
                out.multiplier = 12345.0
            elif isinstance(out, pd.Series):
                out.iloc[:] = -7.0
        except Exception as e:  # noqa
            res = "EXC " + type(e).__name__
    warns = ";".join(
        f"{w.category.__name__}:{str(w.message)[:70]}" for w in caught
    )
    after = dump_map(m)
    emit(label, fn.__name__, ",".join(cell(a) for a in args), res, "W=" + warns)
    emit(label, "input-unchanged", before == after)
    emit(label, "input-after", after)


# --------------------------------------------------------------------------- #
# chart builders
# --------------------------------------------------------------------------- #
KINDS = {
    "osu": dict(
        Map=OsuMap, Bpm=OsuBpm, BpmL=OsuBpmList, Sv=OsuSv, SvL=OsuSvList,
        hit=lambda o, c: OsuHit(o, c), HitL=OsuHitList,
        hold=lambda o, c, l: OsuHold(o, c, l), HoldL=OsuHoldList,
    ),
    "qua": dict(
        Map=QuaMap, Bpm=QuaBpm, BpmL=QuaBpmList, Sv=QuaSv, SvL=QuaSvList,
        hit=lambda o, c: QuaHit(o, c, []), HitL=QuaHitList,
        hold=lambda o, c, l: QuaHold(o, c, l, []), HoldL=QuaHoldList,
    ),
    "sm": dict(
        Map=SMMap, Bpm=SMBpm, BpmL=SMBpmList, Sv=None, SvL=None,
        hit=lambda o, c: SMHit(o, c), HitL=SMHitList, hold=None, HoldL=None,
    ),
}


def build(kind, bpms, hits, svs=(), holds=()):
    """bpms: [(offset, bpm)], hits: [offset], svs: [(offset, mult)],
    holds: [(offset, length)] -- row order is kept as given."""
    k = KINDS[kind]
    m = k["Map"]()
    if bpms:
        m.bpms = k["BpmL"]([k["Bpm"](o, b) for o, b in bpms])
    if hits:
        m.hits = k["HitL"]([k["hit"](o, i % 4) for i, o in enumerate(hits)])
    if holds and k["hold"]:
        m.holds = k["HoldL"](
            [k["hold"](o, i % 4, l) for i, (o, l) in enumerate(holds)]
        )
    if svs and k["Sv"]:
        m.svs = k["SvL"]([k["Sv"](o, s) for o, s in svs])
    return m


BPM_POOL = [60, 90, 120, 120.0, 150, 180, 200, 240, 99.5, 173.25, 0.5, 1000]
SV_POOL = [1, 1.0, 0.5, 2, 0.1, 10, 1.5, 0.75, 3]
OVERRIDES = [None, 100, 137.5, np.float64(200.0), 60, 0, 1e-3]


def random_chart(kind, as_float, sorted_rows):
    conv = float if as_float else int
    n_bpm = random.choice([1, 1, 2, 2, 3, 4, 5, 7])
    grid = random.choice([50, 100, 125, 1000])
    # distinct tempo point times (two tempo points never share a time)
    times = random.sample(range(-4, 24), n_bpm)
    bpm_offsets = [conv(t * grid) for t in times]
    pool = random.sample(BPM_POOL, random.choice([1, 2, 3, len(BPM_POOL)]))
    bpms = [(o, random.choice(pool)) for o in bpm_offsets]
    first_tp = min(bpm_offsets)
    # objects: at or after the first tempo point; the last one may lie before
    # later tempo points, or exactly on one
    n_hit = random.choice([1, 1, 2, 3, 6])
    hits = [
        conv(first_tp + random.choice([0, 0, 1, 2, 3, 5, 8, 13, 30]) * grid)
        + (random.choice([0, 0.5, 0.25]) if as_float else 0)
        for _ in range(n_hit)
    ]
    holds = []
    if random.random() < 0.4:
        holds = [
            (conv(first_tp + random.choice([0, 4, 9, 31]) * grid), conv(grid))
            for _ in range(random.choice([1, 2]))
        ]
        if random.random() < 0.3:
            hits = []  # holds only
    svs = []
    if kind != "sm":
        n_sv = random.choice([0, 0, 1, 2, 3, 5, 8])
        for _ in range(n_sv):
            mode = random.random()
            if mode < 0.35:  # coincides with a tempo point
                o = random.choice(bpm_offsets)
            elif mode < 0.5 and svs:  # coincides with another sv
                o = svs[-1][0]
            elif mode < 0.6:  # before the first tempo point
                o = conv(first_tp - random.choice([1, 3]) * grid)
            else:
                o = conv(first_tp + random.choice(range(0, 34)) * grid / 2)
            svs.append((o, random.choice(SV_POOL)))
    if sorted_rows:
        bpms.sort(key=lambda x: x[0])
        hits.sort()
        svs.sort(key=lambda x: x[0])
    return build(kind, bpms, hits, svs, holds)


def exercise(label, m, overrides):
    call(label, dominant_bpm, m)
    for ov in overrides:
        call(label, scroll_speed, m, ov)
    call(label, scroll_speed, m)
    for ov in overrides:
        call(label, sv_normalize, m, ov)
    call(label, sv_normalize, m)


# --------------------------------------------------------------------------- #
# hand-written edge cases
# --------------------------------------------------------------------------- #
EDGE = {
    # one tempo point and one object at the same time: every duration is 0
    "single": lambda k: build(k, [(0, 120)], [0]),
    "single-float": lambda k: build(k, [(0.0, 120.0)], [0.0], [(0.0, 2.0)]),
    # exact tie of active time between two bpms (smaller one listed last)
    "tie": lambda k: build(k, [(0, 200), (100, 100)], [0, 200]),
    "tie3": lambda k: build(
        k, [(0, 180), (100, 90), (200, 180), (300, 90), (400, 60)], [0, 400]
    ),
    # repeated bpm values accumulate
    "repeat": lambda k: build(
        k, [(0, 100), (100, 300), (250, 100), (300, 300), (350, 100)], [50, 500]
    ),
    # last object exactly on a tempo point / tempo points after the last object
    "last-on-tp": lambda k: build(k, [(0, 100), (300, 200)], [0, 300]),
    "tp-after-last": lambda k: build(
        k, [(0, 100), (300, 200), (900, 400), (1200, 50)], [0, 400], [(1000, 2)]
    ),
    # svs: before first tempo point, on a tempo point, two on the same time
    "sv-layout": lambda k: build(
        k,
        [(0, 100), (200, 200), (300, 300)],
        [-100, 400],
        [(-200, 3), (0, 1), (100, 2), (100, 4), (200, 0.5), (300, 2), (350, 2)],
    ),
    "sv-after-last": lambda k: build(
        k, [(0, 150)], [0, 100], [(50, 2), (500, 3)]
    ),
    # unsorted rows everywhere
    "unsorted": lambda k: build(
        k,
        [(300, 300), (0, 100), (200, 200)],
        [400, -100, 30],
        [(300, 2), (100, 2), (0, 1)],
        [(250, 100), (10, 5)],
    ),
    # negative times, fractional values
    "negative": lambda k: build(
        k,
        [(-1000.5, 173.25), (-500.25, 99.5), (-0.125, 173.25)],
        [-1000.5, -3.5],
        [(-1000.5, 0.75), (-700.0, 1.5)],
    ),
    # holds only
    "holds-only": lambda k: build(
        k, [(0, 120), (500, 240)], [], [(100, 2)], [(0, 100), (1500, 10)]
    ),
    # OUTSIDE the quantified domain: only the exception type / result is kept
    "no-bpm": lambda k: build(k, [], [0, 100], [(0, 2)]),
    "no-object": lambda k: build(k, [(0, 120), (100, 240)], []),
    "empty": lambda k: build(k, [], []),
    "object-before-tp": lambda k: build(k, [(100, 120), (200, 60)], [0, 500]),
    "nan-tp": lambda k: build(k, [(0.0, 120.0), (float("nan"), 60.0)], [0.0, 9.0]),
    "zero-bpm": lambda k: build(k, [(0, 0), (100, 100)], [0, 150]),
    "shared-tp": lambda k: build(k, [(0, 100), (0, 200), (50, 100)], [0, 200]),
}


def main():
    for name, mk in EDGE.items():
        for kind in KINDS:
            exercise(f"edge/{name}/{kind}", mk(kind), [None, 150, 0])

    n = 0
    for kind in ("osu", "qua", "sm"):
        for as_float in (False, True):
            for sorted_rows in (True, False):
                for _ in range(7):
                    n += 1
                    m = random_chart(kind, as_float, sorted_rows)
                    ovs = random.sample(OVERRIDES, 2)
                    exercise(f"rand/{n}/{kind}/f{as_float}/s{sorted_rows}", m, ovs)

    # default argument / keyword forms
    m = EDGE["sv-layout"]("osu")
    with warnings.catch_warnings():
        warnings.simplefilter("ignore")
        emit("kw", dump(scroll_speed(m=m, override_bpm=50)))
        emit("kw", dump(sv_normalize(m=m, override_bpm=50)))
        emit("kw", dump(dominant_bpm(m=m)))

    text = "\n".join(OUT)
    if os.environ.get("C19_DUMP"):
        with open(os.environ["C19_DUMP"], "w") as f:
            f.write(text)
    print("DIGEST " + hashlib.sha256(text.encode()).hexdigest())


if __name__ == "__main__":
    main()
