"""Demo for refactoring 1: reamber/algorithms/osu/hitsound_copy.py

Exercises hitsound_copy on many generated (source, target) osu!mania charts and
on the charts shipped with the repository, dumps the result AND both inputs
afterwards (values, dtypes, columns, row labels), the warnings raised and the
exception types, and prints one sha256 digest.
"""
import hashlib
import sys
import logging
import random
import warnings
from pathlib import Path

import numpy as np
import pandas as pd

from reamber.algorithms.osu.hitsound_copy import hitsound_copy
from reamber.osu import OsuMap
from reamber.osu.OsuBpm import OsuBpm
from reamber.osu.OsuSample import OsuSample
from reamber.osu.lists.OsuBpmList import OsuBpmList
from reamber.osu.lists.OsuSampleList import OsuSampleList
from reamber.osu.lists.notes.OsuHitList import OsuHitList
from reamber.osu.lists.notes.OsuHoldList import OsuHoldList

ROOT = Path.cwd()  # run from inside the worktree
OUT: list = []


def emit(*a):
    OUT.append(" ".join(str(x) for x in a))


def cell(v):
    return f"{type(v).__name__}:{v!r}"


def dump_df(tag, df: pd.DataFrame):
    emit(tag, "shape", df.shape)
    emit(tag, "columns", list(df.columns))
    emit(tag, "dtypes", [str(t) for t in df.dtypes])
    emit(tag, "index", type(df.index).__name__, [cell(i) for i in df.index])
    for c in df.columns:
        emit(tag, "col", c, [cell(v) for v in df[c].tolist()])


def dump_map(tag, m: OsuMap):
    for k, v in m.objs.items():
        emit(tag, "obj", k, type(v).__name__)
        dump_df(f"{tag}.{k}", v.df)
    emit(tag, "samples", type(m.samples).__name__)
    dump_df(f"{tag}.samples", m.samples.df)
    emit(tag, "meta", m.title, m.version, m.circle_size, m.preview_time)


class LogCapture(logging.Handler):
    def emit(self, record):
        OUT.append("LOG " + record.getMessage())


FILES = ["", "", "", "clap.wav", "kick.ogg", "a b.wav", "s.wav"]


def rand_notes(rng, n_hits, n_holds, grid, keys, plain=False, float_hs=False):
    hits, holds = [], []
    for kind, n in (("hit", n_hits), ("hold", n_holds)):
        rows = []
        for _ in range(n):
            d = dict(
                offset=float(rng.choice(grid)),
                column=rng.randrange(keys),
            )
            if kind == "hold":
                d["length"] = float(rng.choice([1, 50, 100, 333.5, 1000]))
            if not plain:
                d.update(
                    hitsound_set=rng.choice([0, 0, 2, 4, 8, 6, 10, 12, 14, 1, 3, 15]),
                    sample_set=rng.choice([0, 0, 0, 1, 2, 3]),
                    addition_set=rng.choice([0, 0, 0, 1, 2]),
                    custom_set=rng.choice([0, 0, 0, 1, 7]),
                    volume=rng.choice([0, 0, 10, 20, 20, 30, 100, -5]),
                    hitsound_file=rng.choice(FILES),
                )
            rows.append(d)
        (hits if kind == "hit" else holds).extend(rows)
    hl = OsuHitList.from_dict(hits)
    ol = OsuHoldList.from_dict(holds)
    if float_hs and len(hl):
        hl.df["hitsound_set"] = hl.df["hitsound_set"].astype(float)
    return hl, ol


def relabel(rng, tl, mode):
    """Row labels other than 0..n-1, unsorted rows."""
    df = tl.df
    if len(df) == 0 or mode == 0:
        return tl
    if mode == 1:
        df = df.sample(frac=1.0, random_state=rng.randrange(10**6))
    elif mode == 2:
        df = df.set_axis([i * 3 + 7 for i in range(len(df))], axis=0)
    elif mode == 3:
        df = df.sort_values("offset", ascending=False, kind="stable")
    return type(tl)(df)


def make_map(rng, n_hits, n_holds, grid, keys, mode, plain=False, float_hs=False):
    m = OsuMap()
    hl, ol = rand_notes(rng, n_hits, n_holds, grid, keys, plain, float_hs)
    m.hits = relabel(rng, hl, mode)
    m.holds = relabel(rng, ol, mode)
    m.bpms = OsuBpmList([OsuBpm(offset=0, bpm=rng.choice([120, 150, 200.5]))])
    m.circle_size = keys
    if rng.random() < 0.5:
        m.samples = OsuSampleList(
            [OsuSample(offset=rng.choice(grid), sample_file="pre.wav", volume=40)]
        )
    return m


def run_case(tag, src, tgt):
    emit("=== CASE", tag)
    with warnings.catch_warnings(record=True) as ws:
        warnings.simplefilter("always")
        try:
            res = hitsound_copy(src, tgt)
        except Exception as e:  # noqa
            emit("EXC", type(e).__name__)
            res = None
    emit("WARN", sorted({w.category.__name__ for w in ws}), len(ws))
    if res is not None:
        emit("restype", type(res).__name__, res is tgt)
        dump_map("res", res)
        # result shares nothing with the inputs: change the result afterwards
        with warnings.catch_warnings(record=True) as ws2:
            warnings.simplefilter("always")
            try:
                if len(res.hits):
                    res.hits.df["volume"] = 99
                    res.hits.offset += 1
                if len(res.holds):
                    res.holds.df.iloc[0, res.holds.df.columns.get_loc("length")] = -1
                res.samples = res.samples.append(OsuSample(offset=-1))
            except Exception as e:  # noqa
                emit("EXC-after", type(e).__name__)
        emit("WARN-after", sorted({w.category.__name__ for w in ws2}), len(ws2))
        dump_map("res-after", res)
    dump_map("src-after", src)
    dump_map("tgt-after", tgt)


def main():
    h = LogCapture()
    lg = logging.getLogger("reamber.algorithms.osu.hitsound_copy")
    lg.addHandler(h)
    lg.setLevel(logging.DEBUG)
    lg.propagate = False

    rng = random.Random(140001)
    grids = [
        [0, 100, 200, 300],
        [0, 0, 100, 250.5, 250.5, 1000],
        [-500, -0.0, 0.0, 12.25, 1e6],
        list(range(0, 2000, 125)),
    ]
    n = 0
    # Edge cases first: empty charts, only hits, only holds
    shapes = [
        (0, 0, 0, 0),
        (0, 0, 5, 3),
        (5, 3, 0, 0),
        (6, 0, 6, 0),
        (0, 6, 0, 6),
        (0, 6, 6, 0),
        (6, 0, 0, 6),
        (1, 1, 1, 1),
    ]
    for sh in shapes:
        for mode in (0, 1):
            src = make_map(rng, sh[0], sh[1], grids[0], 4, mode)
            tgt = make_map(rng, sh[2], sh[3], grids[0], 4, mode, plain=(mode == 0))
            run_case(f"edge{n}", src, tgt)
            n += 1
    # Random charts: many ties, more source sounds than target slots, and reverse
    for i in range(48):
        grid = grids[i % len(grids)]
        keys = rng.choice([1, 4, 7, 10])
        mode_s, mode_t = rng.randrange(4), rng.randrange(4)
        src = make_map(
            rng, rng.randrange(0, 14), rng.randrange(0, 8), grid, keys, mode_s,
            float_hs=(i % 5 == 0),
        )
        tgt = make_map(
            rng, rng.randrange(0, 14), rng.randrange(0, 8), grid, keys, mode_t,
            plain=(i % 3 == 0),
        )
        run_case(f"rand{i}", src, tgt)
    # A chart copied onto itself, and twice in sequence
    m = make_map(rng, 10, 5, grids[1], 4, 1)
    run_case("self", m, m)
    a = make_map(rng, 8, 4, grids[3], 7, 2)
    b = make_map(rng, 8, 4, grids[3], 7, 3)
    run_case("seq1", a, b)
    run_case("seq2", b, a)
    # Charts from the repository
    hs_dir = ROOT / "tests/algorithm_tests/osu/hitsound_copy"
    osu_dir = ROOT / "rsc/maps/osu"
    pairs = [
        (hs_dir / "source.osu", hs_dir / "target.osu"),
        (hs_dir / "target.osu", hs_dir / "source.osu"),
        (osu_dir / "AvengerHitsoundFile.osu", osu_dir / "AvengerHitsoundable.osu"),
        (osu_dir / "AvengerHitsoundable.osu", osu_dir / "AvengerHitsoundFile.osu"),
        (osu_dir / "Gravity.osu", osu_dir / "Gravity.osu"),
    ]
    for s, t in pairs:
        src = OsuMap.read_file(s)
        tgt = OsuMap.read_file(t)
        # keep the dump small: the first part of the chart
        for mm in (src, tgt):
            mm.hits = mm.hits[:150]
            mm.holds = mm.holds[:60]
        run_case(f"file:{s.name}->{t.name}", src, tgt)

    text = "\n".join(OUT)
    print("LINES", len(OUT), file=sys.stderr)
    print("DIGEST", hashlib.sha256(text.encode("utf8")).hexdigest())


if __name__ == "__main__":
    main()
