"""F36 (C08 / C14): OsuToQua and QuaToOsu assign the source chart's tag list object to the result.
Run:  cd /repo && /venv/bin/python /verif/triage/probes/F36_converter_shares_tags.py
pinned tree: appending to the result's tags changes the source chart"""
import warnings
warnings.simplefilter("ignore")
from reamber.osu.OsuMap import OsuMap
from reamber.quaver.QuaMap import QuaMap
from reamber.algorithms.convert import OsuToQua, QuaToOsu

osu = OsuMap(); osu.tags = ["a", "b"]
qua = OsuToQua.convert(osu); qua.tags.append("converted")
assert osu.tags == ["a", "b"], f"OsuToQua: source tags changed to {osu.tags}"
q = QuaMap(); q.tags = ["x"]
o = QuaToOsu.convert(q); o.tags.append("converted")
assert q.tags == ["x"], f"QuaToOsu: source tags changed to {q.tags}"
print("ok")
