"""Demo for change 2: OsuBpm.read_string / OsuSv.read_string (split once, unpack, parity by modulo)."""
import hashlib
import os
import random
import sys

from reamber.osu.OsuBpm import OsuBpm
from reamber.osu.OsuSv import OsuSv
from reamber.osu.OsuMap import OsuMap
from reamber.osu.lists.OsuBpmList import OsuBpmList
from reamber.osu.lists.OsuSvList import OsuSvList

random.seed(77010)
OUT = []


def emit(*a):
    OUT.append(" | ".join(str(x) for x in a))


def tv(v):
    return (type(v).__name__, repr(v))


def dump_df(tag, df):
    emit(tag, "cols", list(df.columns))
    emit(tag, "dtypes", [str(t) for t in df.dtypes])
    emit(tag, "index", type(df.index).__name__, list(df.index))
    for row in df.itertuples(index=False):
        emit(tag, "row", [tv(v) for v in row])


def attempt(tag, fn):
    try:
        return fn()
    except BaseException as e:  # noqa
        emit(tag, "RAISED", type(e).__name__, repr(e.args),
             "ctx=" + type(e.__context__).__name__, "cause=" + type(e.__cause__).__name__)
        return None


def probe(tag, s):
    """Both classes, both return forms, on one line; the argument must stay as it was."""
    keep = s[:] if isinstance(s, (str, bytes, list)) else s
    for cls in (OsuBpm, OsuSv):
        t = "%s.%s" % (tag, cls.__name__)
        emit(t, "in", tv(s))
        d = attempt(t + ".dict", lambda: cls.read_string(s, as_dict=True))
        if d is not None:
            emit(t, "dict", type(d).__name__, [(k, tv(v)) for k, v in d.items()])
        o = attempt(t + ".obj", lambda: cls.read_string(s))
        if o is not None:
            emit(t, "obj", type(o).__name__, [str(x) for x in o.data.index],
                 str(o.data.dtype), [tv(v) for v in o.data.tolist()])
            w = attempt(t + ".write", o.write_string)
            emit(t, "written", repr(w))
            if w is not None:
                # second generation
                d2 = attempt(t + ".dict2", lambda: cls.read_string(w, True))
                emit(t, "dict2", None if d2 is None else [(k, tv(v)) for k, v in d2.items()])
        p = attempt(t + ".positional", lambda: cls.read_string(s, True))
        emit(t, "positional-same", p == d if d is not None else p is None)
    emit(tag, "arg-unchanged", s == keep)


def fmt_time():
    r = random.random()
    if r < 0.15:
        return str(random.randint(-100000, -1))
    if r < 0.3:
        return str(random.randint(10**7, 3 * 10**9))
    if r < 0.5:
        return repr(random.randint(0, 600000) + random.choice([0.5, 0.25, 0.001, 0.999]))
    if r < 0.55:
        return random.choice(["1e3", "-0", "-0.0", "+12", " 15 ", "1_000", "0012"])
    return str(random.randint(0, 600000))


EFFECTS = ["0", "1", "8", "9", "2", "3", "255", "-1", "-2", "+1", " 1", "1 ", "01", "1_1",
           str(2**40), str(2**40 + 1), "-9"]

# ---- 1. well-formed lines of both kinds
n = 0
for kind in ("1", "0"):
    for _ in range(60):
        n += 1
        if kind == "1":
            code = random.choice(["500", "333.333333333333", "0.5", "1e6", "428.571428571429",
                                  "-250", "60000", "1E-3", " 500", "1_0"])
        else:
            code = random.choice(["-100", "-50", "-200", "-33.3333333333333", "-1000", "-10",
                                  "25", "-1e2", "-0.01", "100"])
        line = ",".join([fmt_time(), code, random.choice(["4", "3", "7", "1", "0", "-4"]),
                         random.choice(["0", "1", "2", "3", "-1"]),
                         random.choice(["0", "1", "99", " 2"]),
                         random.choice(["0", "50", "100", "5", "-5"]),
                         kind, random.choice(EFFECTS)])
        probe("ok%03d" % n, line)

# ---- 2. malformed / borderline lines
good_b = "1000,500,4,1,0,50,1,0"
good_s = "1000,-100,4,1,0,50,0,1"
bad = {
    "empty": "", "one-field": "1000", "seven": "1000,500,4,1,0,50,1", "nine": good_b + ",0",
    "nine-sv": good_s + ",", "trailing-comma-7": "1000,500,4,1,0,50,1,",
    "flag-2": "1000,500,4,1,0,50,2,0", "flag-empty": "1000,500,4,1,0,50,,0",
    "flag-01": "1000,500,4,1,0,50,01,0", "flag-sp1": "1000,500,4,1,0,50, 1,0",
    "flag-1sp": "1000,500,4,1,0,50,1 ,0", "flag-00": "1000,-100,4,1,0,50,00,0",
    "flag-True": "1000,500,4,1,0,50,True,0", "flag-1.0": "1000,500,4,1,0,50,1.0,0",
    "zero-code-b": "0,0,4,1,0,50,1,0", "zero-code-s": "0,0,4,1,0,50,0,0",
    "negzero-code-b": "0,-0.0,4,1,0,50,1,0", "negzero-code-s": "0,-0.0,4,1,0,50,0,0",
    "nan-code-b": "0,nan,4,1,0,50,1,0", "inf-code-s": "0,inf,4,1,0,50,0,0",
    "nan-off": "nan,500,4,1,0,50,1,0", "inf-off": "-inf,-100,4,1,0,50,0,0",
    "colon-line": "64,192,1000,1,0,0:0:0:0:", "hold-line": "64,192,1000,128,0,1500:0:0:0:0:",
    "spaces-around": "  1000,500,4,1,0,50,1,0  ", "newline-end": good_b + "\n", "cr-end": good_s + "\r",
    "unicode-digits": "１０００,５００,４,１,０,５０,1,１", "unicode-digits-sv": "１０００,-１００,４,１,０,５０,0,３",
    "semicolons": good_b.replace(",", ";"),
}
for pos in range(8):
    for repl in ("x", "", "1.5", " ", "0x10", "None"):
        for name, base in (("b", good_b), ("s", good_s)):
            t = base.split(",")
            t[pos] = repl
            bad["sub-%s-%d-%r" % (name, pos, repl)] = ",".join(t)
# two bad fields at once: the first one in evaluation order must win
for i in range(8):
    for j in range(i + 1, 8):
        for name, base in (("b", good_b), ("s", good_s)):
            t = base.split(",")
            if i != 6:
                t[i] = "bad%d" % i
            if j != 6:
                t[j] = "bad%d" % j
            bad["two-%s-%d-%d" % (name, i, j)] = ",".join(t)
for name, line in bad.items():
    probe("bad." + name, line)

# ---- 3. non-str arguments
for name, arg in (("none", None), ("bytes", b"1000,500,4,1,0,50,1,0"), ("int", 5),
                  ("list", ["1000", "500"]), ("tuple", ("1000,500,4,1,0,50,1,0",))):
    probe("arg." + name, arg)


class Sub(str):
    pass


probe("arg.str-subclass-b", Sub(good_b))
probe("arg.str-subclass-s", Sub(good_s))

# ---- 4. through the lists and the map reader (dtypes of the columns)
lines_b, lines_s = [], []
for _ in range(40):
    lines_b.append(",".join([fmt_time().strip().replace("1_000", "1000"), random.choice(["500", "250.5", "-300", "1e4"]),
                             random.choice(["4", "3"]), str(random.randint(0, 3)), str(random.randint(0, 9)),
                             str(random.randint(0, 100)), "1", random.choice(EFFECTS[:9])]))
    lines_s.append(",".join([fmt_time().strip().replace("1_000", "1000"), random.choice(["-100", "-12.5", "-400", "50"]),
                             "4", str(random.randint(0, 3)), str(random.randint(0, 9)),
                             str(random.randint(0, 100)), "0", random.choice(EFFECTS[:9])]))
for k in (0, 1, 2, 40):
    keep_b, keep_s = list(lines_b[:k]), list(lines_s[:k])
    bl = attempt("list.b%d" % k, lambda: OsuBpmList.read(lines_b[:k]))
    sl = attempt("list.s%d" % k, lambda: OsuSvList.read(lines_s[:k]))
    emit("list", k, "args-unchanged", keep_b == lines_b[:k], keep_s == lines_s[:k])
    if bl is not None:
        dump_df("list.b%d" % k, bl.df)
        emit("list.b%d" % k, "write", bl.write())
    if sl is not None:
        dump_df("list.s%d" % k, sl.df)
        emit("list.s%d" % k, "write", sl.write())
attempt("list.mixed-b", lambda: OsuBpmList.read(lines_b[:2] + lines_s[:1]))
attempt("list.mixed-s", lambda: OsuSvList.read(lines_s[:2] + lines_b[:1]))

for keys in (1, 4, 7, 10, 18):
    tps = lines_b[:6] + lines_s[:9]
    random.shuffle(tps)
    text = ["osu file format v14", "", "[Difficulty]", "CircleSize:%d" % keys, "",
            "[TimingPoints]", *tps, "junk", "1,2,3", "", "[HitObjects]",
            "%d,192,1000,1,0,0:0:0:0:" % (256 // keys)]
    m = OsuMap.read(text)
    for g in range(3):
        dump_df("map.k%d.g%d.bpms" % (keys, g), m.bpms.df)
        dump_df("map.k%d.g%d.svs" % (keys, g), m.svs.df)
        w = m.write()
        emit("map.k%d.g%d" % (keys, g), [l for l in w[w.index("\n[TimingPoints]"):]])
        m = OsuMap.read("\n".join(w).split("\n"))

text = "\n".join(OUT)
import reamber
print("LINES", len(OUT), reamber.__file__, file=sys.stderr)
print("DIGEST", hashlib.sha256(text.encode("utf8")).hexdigest())
if os.environ.get("DEMO_DUMP"):
    open(os.environ["DEMO_DUMP"], "w", encoding="utf8").write(text)
