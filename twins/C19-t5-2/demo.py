"""Digest of dominant_bpm / scroll_speed / sv_normalize over a broad set of charts.

Run as: cd /tmp/wt6/C19 && PYTHONPATH=/tmp/wt6/C19 /venv/bin/python demo.py
Prints one line ``DIGEST <hex>``.
"""
import hashlib
import random
import warnings

import numpy as np
import pandas as pd

warnings.simplefilter("ignore")

from reamber.algorithms.analysis import scroll_speed
from reamber.algorithms.generate import sv_normalize
from reamber.algorithms.utils import dominant_bpm
from reamber.osu import OsuMap, OsuBpm, OsuSv, OsuHit, OsuHold
from reamber.osu.lists import OsuBpmList, OsuSvList
from reamber.osu.lists.notes import OsuHitList, OsuHoldList
from reamber.quaver import QuaMap, QuaBpm, QuaSv, QuaHit, QuaHold
from reamber.quaver.lists import QuaBpmList, QuaSvList
from reamber.quaver.lists.notes import QuaHitList, QuaHoldList
from reamber.sm import SMMap, SMBpm, SMHit, SMHold
from reamber.sm.lists import SMBpmList
from reamber.sm.lists.notes import SMHitList, SMHoldList

random.seed(190019)

OUT = []


def emit(*parts):
    OUT.append(" | ".join(str(p) for p in parts))


def canon_scalar(v):
    if v is None:
        return "None"
    if isinstance(v, (bool, np.bool_)):
        return f"{type(v).__name__}:{bool(v)}"
    if isinstance(v, (float, np.floating)):
        return f"{type(v).__name__}:{float(v).hex()}"
    if isinstance(v, (int, np.integer)):
        return f"{type(v).__name__}:{int(v)}"
    return f"{type(v).__name__}:{v!r}"


def canon_index(ix):
    return (
        f"{type(ix).__name__}[{ix.dtype}] name={ix.name!r} "
        f"[{', '.join(canon_scalar(v) for v in ix.tolist())}]"
    )


def canon_series(s):
    if not isinstance(s, pd.Series):
        return "NOT-SERIES " + canon_scalar(s)
    vals = ", ".join(canon_scalar(v) for v in s.tolist())
    raw = ", ".join(type(v).__name__ for v in s.array)
    return (
        f"Series name={s.name!r} dtype={s.dtype} index={canon_index(s.index)} "
        f"values=[{vals}] rawtypes=[{raw}]"
    )


def canon_df(df):
    if not isinstance(df, pd.DataFrame):
        return "NOT-DF " + repr(type(df))
    cols = "; ".join(f"{c!r}:{canon_series(df[c])}" for c in df.columns)
    return (
        f"DF columns={list(df.columns)!r} colindex={canon_index(df.columns)} "
        f"index={canon_index(df.index)} {{{cols}}}"
    )


def canon_map(m):
    parts = []
    for k, v in m.objs.items():
        parts.append(f"{k}:{type(v).__name__}:{canon_df(v.df)}")
    return " || ".join(parts)


def call(label, f, *args, **kwargs):
    try:
        r = f(*args, **kwargs)
    except BaseException as e:  # noqa
        emit(label, "RAISED", type(e).__name__)
        return None
    if isinstance(r, pd.Series):
        emit(label, "OK", canon_series(r))
    elif hasattr(r, "df"):
        emit(label, "OK", type(r).__name__, canon_df(r.df))
    else:
        emit(label, "OK", canon_scalar(r))
    return r


# ---------------------------------------------------------------- builders
KINDS = {
    "osu": dict(
        Map=OsuMap, Bpm=OsuBpm, BpmList=OsuBpmList, Sv=OsuSv, SvList=OsuSvList,
        Hit=OsuHit, HitList=OsuHitList, Hold=OsuHold, HoldList=OsuHoldList,
    ),
    "qua": dict(
        Map=QuaMap, Bpm=QuaBpm, BpmList=QuaBpmList, Sv=QuaSv, SvList=QuaSvList,
        Hit=QuaHit, HitList=QuaHitList, Hold=QuaHold, HoldList=QuaHoldList,
    ),
    "sm": dict(
        Map=SMMap, Bpm=SMBpm, BpmList=SMBpmList, Sv=None, SvList=None,
        Hit=SMHit, HitList=SMHitList, Hold=SMHold, HoldList=SMHoldList,
    ),
}


def build(kind, bpms, svs, hits, holds=()):
    """bpms: [(offset, bpm)], svs: [(offset, mult)], hits: [offset], holds: [(offset, length)]"""
    K = KINDS[kind]
    m = K["Map"]()
    m.bpms = K["BpmList"]([K["Bpm"](o, b) for o, b in bpms])
    if K["Sv"] is not None:
        m.svs = K["SvList"]([K["Sv"](o, x) for o, x in svs])
    extra = dict(keysounds=[]) if kind == "qua" else {}
    m.hits = K["HitList"]([K["Hit"](o, i % 4, **extra) for i, o in enumerate(hits)])
    m.holds = K["HoldList"](
        [K["Hold"](o, i % 4, length=ln, **extra) for i, (o, ln) in enumerate(holds)]
    )
    return m


def rnd_layout(rng, kind, n_bpm, n_sv, n_hit, n_hold, grid):
    """Random layout on a time grid; first tempo point at or before the first object."""
    times = [float(t) for t in rng.sample(grid, n_bpm)]
    bpm_pool = rng.choice(
        [
            [60.0, 120.0, 180.0, 240.0],
            [100.0, 100.0, 200.0],  # repeated values
            [90.5, 133.33, 174.0, 222.22, 300.0],
            [120, 240],  # ints
            [150.0],
        ]
    )
    bpms = [(t, rng.choice(bpm_pool)) for t in times]
    t0 = min(times)
    later = [g for g in grid if g >= t0] or [t0]
    hits = [float(rng.choice(later)) for _ in range(n_hit)]
    holds = [
        (float(rng.choice(later)), float(rng.choice([50, 100, 250, 1000])))
        for _ in range(n_hold)
    ]
    svs = []
    for _ in range(n_sv):
        mode = rng.random()
        if mode < 0.3:  # coincide with a tempo point
            t = rng.choice(times)
        elif mode < 0.45 and svs:  # coincide with another SV
            t = rng.choice(svs)[0]
        elif mode < 0.55:  # before the first tempo point
            t = t0 - rng.choice([1, 50, 500])
        else:
            t = float(rng.choice(grid))
        svs.append((float(t), rng.choice([0.25, 0.5, 0.75, 1.0, 1.0, 1.5, 2.0, 3.3, 10.0])))
    if rng.random() < 0.5:
        rng.shuffle(bpms)  # unsorted rows
        rng.shuffle(svs)
        rng.shuffle(hits)
    return bpms, svs, hits, holds


OVERRIDES = [None, 0, 0.0, 1, 100, 150.0, 222.22, np.float64(180.0), 1e-3, 1e6]


def run_case(name, kind, bpms, svs, hits, holds=(), overrides=OVERRIDES):
    try:
        m = build(kind, bpms, svs, hits, holds)
    except BaseException as e:  # noqa
        emit(name, "BUILD-RAISED", type(e).__name__)
        return
    before = canon_map(m)
    emit(name, "INPUT", kind, before)
    call(f"{name}/dominant_bpm", dominant_bpm, m)
    call(f"{name}/scroll_speed()", scroll_speed, m)
    call(f"{name}/sv_normalize()", sv_normalize, m)
    for ov in overrides:
        call(f"{name}/scroll_speed({ov!r})", scroll_speed, m, ov)
        call(f"{name}/scroll_speed(kw {ov!r})", scroll_speed, m, override_bpm=ov)
        r = call(f"{name}/sv_normalize({ov!r})", sv_normalize, m, ov)
        call(f"{name}/sv_normalize(kw {ov!r})", sv_normalize, m, override_bpm=ov)
        if r is not None and hasattr(r, "df"):
            # the result must not alias the map's tempo list
            emit(f"{name}/alias", r.df is m.bpms.df, type(r) is type(getattr(m, "svs", None)))
    after = canon_map(m)
    emit(name, "UNMODIFIED", before == after)
    emit(name, "AFTER", after)


# ---------------------------------------------------------------- hand-written edge cases
for kind in ("osu", "qua", "sm"):
    # bundled-test scenarios
    run_case(f"{kind}-t1", kind, [(0, 100), (200, 200), (300, 300)],
             [(0, 1), (100, 2), (300, 2)], [-100, 400])
    run_case(f"{kind}-t2", kind, [(0, 100), (200, 200), (300, 400)], [], [0, 400])
    # single tempo point, single object on it
    run_case(f"{kind}-one", kind, [(0.0, 120.0)], [], [0.0])
    # single tempo point, object later
    run_case(f"{kind}-one-later", kind, [(0.0, 120.0)], [(0.0, 2.0)], [1000.0])
    # tie in active time between two bpm values
    run_case(f"{kind}-tie", kind, [(0, 200), (1000, 100)], [(500, 0.5)], [0, 2000])
    run_case(f"{kind}-tie-rev", kind, [(0, 100), (1000, 200)], [(500, 0.5)], [0, 2000])
    # three-way tie with repeated values
    run_case(f"{kind}-tie3", kind, [(0, 150), (100, 90), (200, 150), (300, 90)],
             [], [0, 400])
    # repeated bpm value accumulates
    run_case(f"{kind}-repeat", kind, [(0, 100), (300, 250), (700, 100), (800, 250)],
             [(300, 0.4), (300, 0.8), (750, 2)], [0, 1100])
    # last object before the last tempo point
    run_case(f"{kind}-obj-early", kind, [(0, 100), (500, 200), (5000, 300)],
             [(100, 2), (600, 3)], [0, 700, 900])
    # last object exactly on a tempo point
    run_case(f"{kind}-obj-on-bpm", kind, [(0, 100), (500, 200), (900, 300)],
             [(900, 2)], [0, 900])
    # SV before the first tempo point, SV on top of SV, SV on top of tempo point
    run_case(f"{kind}-sv-early", kind, [(100, 120), (600, 240)],
             [(-50, 3), (0, 2), (100, 0.5), (100, 0.75), (600, 1.5), (650, 4), (650, 5)],
             [100, 300, 900])
    # SV after the last object
    run_case(f"{kind}-sv-late", kind, [(0, 120)], [(5000, 2.0)], [0, 1000])
    # negative offsets
    run_case(f"{kind}-neg", kind, [(-3000, 111), (-1500, 222), (-100, 111)],
             [(-2000, 0.9), (-1500, 1.1)], [-3000, -50], [(-2500, 700)])
    # unsorted rows
    run_case(f"{kind}-unsorted", kind, [(800, 300), (0, 100), (400, 200)],
             [(900, 2), (100, 3), (400, 0.5)], [1200, 0, 500])
    # holds only (tail does not count, only the head offset)
    run_case(f"{kind}-holds", kind, [(0, 100), (1000, 200)], [(200, 2)], [],
             [(0, 5000), (1500, 100)])
    # fractional values
    run_case(f"{kind}-frac", kind, [(0.25, 133.37), (1000.125, 266.74), (1500.5, 99.99)],
             [(0.25, 0.37), (777.7, 1.23)], [0.25, 0.5, 2222.2])
    # very large / very small bpm
    run_case(f"{kind}-extreme", kind, [(0, 1e-3), (10, 1e7), (20, 60)], [(5, 1e-2), (15, 100)],
             [0, 50])
    # ---- outside the quantified domain: recorded exception types / results only
    run_case(f"{kind}-x-noobj", kind, [(0, 120), (100, 240)], [(0, 2)], [], overrides=[None, 100])
    run_case(f"{kind}-x-nobpm", kind, [], [(0, 2)], [0, 100], overrides=[None, 100])
    run_case(f"{kind}-x-empty", kind, [], [], [], overrides=[None, 100])
    run_case(f"{kind}-x-obj-before-bpm", kind, [(500, 120), (900, 60)], [(0, 2)], [0, 1000],
             overrides=[None, 100])
    run_case(f"{kind}-x-dup-bpm-time", kind, [(0, 120), (0, 60), (500, 60)], [(0, 2)], [0, 1000],
             overrides=[None, 100])
    run_case(f"{kind}-x-zero-neg-bpm", kind, [(0, 0.0), (500, -60), (800, 60)], [(0, -2), (600, 0)],
             [0, 1000], overrides=[None, 100, -50])
    run_case(f"{kind}-x-nan", kind, [(0, float("nan")), (500, 60)], [(0, float("nan"))],
             [0, 1000], overrides=[None, float("nan")])

# ---------------------------------------------------------------- generated cases
rng = random.Random(424242)
GRID_A = list(range(0, 5000, 250))
GRID_B = [x * 0.5 for x in range(-40, 400, 7)]
n = 0
for kind in ("osu", "qua", "sm"):
    for i in range(30):
        grid = GRID_A if i % 2 == 0 else GRID_B
        n_bpm = rng.choice([1, 1, 2, 3, 4, 6, 9])
        n_sv = rng.choice([0, 1, 2, 4, 8])
        n_hit = rng.choice([1, 1, 2, 5, 12])
        n_hold = rng.choice([0, 0, 1, 3])
        bpms, svs, hits, holds = rnd_layout(rng, kind, n_bpm, n_sv, n_hit, n_hold, grid)
        ovs = [None] + rng.sample(OVERRIDES[1:], 3)
        run_case(f"{kind}-g{i}", kind, bpms, svs, hits, holds, overrides=ovs)
        n += 1

# ---------------------------------------------------------------- frames built directly (index labels / dtypes)
for kind in ("osu", "qua"):
    K = KINDS[kind]
    m = build(kind, [(0, 100), (400, 200), (900, 100)], [(0, 1), (200, 2)], [0, 1500])
    # non-default row labels on the tempo list and the SV list
    m.bpms = K["BpmList"](m.bpms.df.set_axis([7, 3, 5]))
    m.svs = K["SvList"](m.svs.df.set_axis([11, 10]))
    before = canon_map(m)
    call(f"{kind}-labels/dominant_bpm", dominant_bpm, m)
    for ov in (None, 50, 200.0):
        call(f"{kind}-labels/scroll_speed({ov})", scroll_speed, m, ov)
        call(f"{kind}-labels/sv_normalize({ov})", sv_normalize, m, ov)
    emit(f"{kind}-labels", "UNMODIFIED", before == canon_map(m))
    # integer dtype columns
    m2 = build(kind, [(0, 100), (400, 200), (900, 100)], [(0, 1), (200, 2)], [0, 1500])
    m2.bpms = K["BpmList"](m2.bpms.df.astype({"offset": "int64", "bpm": "int64"}))
    before = canon_map(m2)
    call(f"{kind}-int/dominant_bpm", dominant_bpm, m2)
    for ov in (None, 50, 200.0):
        call(f"{kind}-int/scroll_speed({ov})", scroll_speed, m2, ov)
        call(f"{kind}-int/sv_normalize({ov})", sv_normalize, m2, ov)
    emit(f"{kind}-int", "UNMODIFIED", before == canon_map(m2))

text = "\n".join(OUT)
import os
if os.environ.get("DEMO_DUMP"):
    open(os.environ["DEMO_DUMP"], "w").write(text)
print("DIGEST", hashlib.sha256(text.encode("utf-8")).hexdigest())
