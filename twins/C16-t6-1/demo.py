import hashlib
import importlib
import inspect
import pkgutil
import random
import sys
import warnings

import numpy as np
import pandas as pd

import reamber
from reamber.base.Series import Series as RSeries
from reamber.base.lists.TimedList import TimedList
from reamber.base.lists.notes.HoldList import HoldList

OUT = []


def emit(*parts):
    OUT.append(" | ".join(str(p) for p in parts))


# ---------------------------------------------------------------- dumping --
def cell(v):
    """Canonical text of one scalar, with its python/numpy type."""
    if isinstance(v, float) or isinstance(v, np.floating):
        return f"{type(v).__name__}:{float(v)!r}"
    if isinstance(v, (list, tuple)):
        return f"{type(v).__name__}[{','.join(cell(i) for i in v)}]"
    return f"{type(v).__name__}:{v!r}"


def dump(x):
    if isinstance(x, BaseException):
        msg = str(x) if isinstance(x, AssertionError) else ""
        return f"EXC<{type(x).__name__}>{msg}"
    if isinstance(x, TimedList):
        try:
            df = x.df
        except AttributeError:
            return f"TL<{type(x).__name__}>NO_DF"
        return f"TL<{type(x).__name__}>{dump(df)}"
    if isinstance(x, RSeries):
        return f"ITEM<{type(x).__name__}>{dump(x.data)}"
    if isinstance(x, pd.DataFrame):
        cols = [cell(c) for c in x.columns]
        dts = [str(d) for d in x.dtypes]
        idx = [cell(i) for i in x.index]
        rows = [[cell(v) for v in x[c].tolist()] for c in x.columns] \
            if x.columns.is_unique else [[cell(v) for v in r] for r in x.to_numpy().tolist()]
        return f"DF(cols={cols},dtypes={dts},index={type(x.index).__name__}{idx},data={rows})"
    if isinstance(x, pd.Series):
        return (f"S(name={x.name!r},dtype={x.dtype},index={[cell(i) for i in x.index]},"
                f"data={[cell(v) for v in x.tolist()]})")
    if isinstance(x, np.ndarray):
        return f"ND(dtype={x.dtype},shape={x.shape},data={[cell(v) for v in x.ravel().tolist()]})"
    if isinstance(x, (list, tuple)):
        return f"{type(x).__name__}({','.join(dump(i) for i in x)})"
    return cell(x)


def run(label, fn, *watch):
    """Runs fn, records result / exception / warnings and the watched inputs after."""
    with warnings.catch_warnings(record=True) as w:
        warnings.simplefilter("always")
        try:
            res = fn()
            if inspect.isgenerator(res):
                res = list(res)
        except Exception as e:  # noqa
            res = e
    ws = [f"{i.category.__name__}:{str(i.message)[:60]}" for i in w]
    emit(label, dump(res), "WARN", ws, "INPUTS", [dump(i) for i in watch])
    return res


# ------------------------------------------------------------ discovery ----
def list_classes():
    seen = {}
    for m in pkgutil.walk_packages(reamber.__path__, "reamber."):
        if ".algorithms" in m.name:
            continue
        try:
            mod = importlib.import_module(m.name)
        except Exception:  # noqa
            continue
        for n, o in vars(mod).items():
            if (inspect.isclass(o) and issubclass(o, TimedList) and o.__module__ == m.name
                    and not inspect.isabstract(o)):
                seen[f"{o.__module__}.{n}"] = o
    return [seen[k] for k in sorted(seen)]


# ----------------------------------------------------------- generation ----
OFFSETS = [-1000.5, -3.0, -0.0, 0.0, 0.25, 1.0, 1.0, 2.5, 2.5, 100.0, 100.0, 99.75, 1e6]
LENGTHS = [0.0, 0.0, 0.25, 1.5, 1.5, 97.5, 100.0, 1000.5]
NEG_LENGTHS = LENGTHS + [-1.5, -97.5]


def rand_value(rng, name, dtype, neg_len):
    if name == "offset":
        return rng.choice(OFFSETS)
    if name == "length":
        return rng.choice(NEG_LENGTHS if neg_len else LENGTHS)
    if dtype == "float":
        return rng.choice([0.0, 0.5, 1.0, 4.0, 120.0, 200.25, -1.0])
    if dtype == "int":
        return rng.randrange(0, 9)
    if dtype == "bool":
        return rng.random() < 0.5
    if dtype == "str":
        return rng.choice(["", "a.wav", "b.ogg"])
    if name == "sample":
        return rng.choice([b"", b"k.wav", b"z"])
    if name == "keysounds":
        return rng.choice([[], ["x"], ["x", "y"]])
    return rng.choice(["", "h.wav"])


def rand_rows(rng, cls, n, neg_len=False):
    props = cls._item_class()._props
    return [{k: rand_value(rng, k, t, neg_len) for k, (t, _) in props.items()} for _ in range(n)]


def make_list(cls, rows):
    """List of cls with declared dtypes, from row dicts (goes through the DataFrame ctor)."""
    props = cls._item_class()._props
    if not rows:
        return cls([])
    return cls(pd.DataFrame({k: pd.Series([r[k] for r in rows], dtype=t) for k, (t, _) in props.items()}))


def make_item(cls, row):
    return cls._item_class()(**row)


def finish():
    text = "\n".join(OUT)
    if "--dump" in sys.argv:
        sys.stdout.write(text + "\n")
    print("DIGEST", hashlib.sha256(text.encode()).hexdigest())


# ================================================================ scenario ==
# Refactoring 1: HoldList.after / before / between (head / tail variants).
def bounds_for(tl):
    """Bounds that sit exactly on heads, on tails, between and outside them."""
    b = {-2000.0, 0.0, -0.0, 1.0, 2.5, 99.75, 100.0, 101.5, 2e6, float("nan"), float("inf")}
    if len(tl) and "length" in tl.df.columns:
        b |= set(tl.offset.tolist()[:4]) | set((tl.offset + tl.length).tolist()[:4])
    return sorted(b, key=lambda v: (v != v, v, str(v)))


def hold_filters(tag, tl, rng, full):
    bs = bounds_for(tl)
    if not full:
        bs = rng.sample(bs, 4)
    for b in bs:
        for inc in (False, True):
            for flag in (False, True):
                run(f"{tag}.after({b!r},{inc},tail={flag})",
                    lambda: tl.after(b, include_end=inc, include_tail=flag), tl)
                run(f"{tag}.before({b!r},{inc},head={flag})",
                    lambda: tl.before(b, include_end=inc, include_head=flag), tl)
        run(f"{tag}.after({b!r}) defaults", lambda: tl.after(b), tl)
        run(f"{tag}.before({b!r}) defaults", lambda: tl.before(b), tl)
        run(f"{tag}.after positional", lambda: tl.after(b, 1, 1), tl)
        run(f"{tag}.before positional", lambda: tl.before(b, 0, 0), tl)
    for _ in range(6 if full else 2):
        lo, hi = rng.choice(bs), rng.choice(bs)
        ends = rng.choice([True, False, (True, False), (False, True), (True, True), (False, False)])
        h, t = rng.random() < 0.5, rng.random() < 0.5
        run(f"{tag}.between({lo!r},{hi!r},{ends},head={h},tail={t})",
            lambda: tl.between(lo, hi, include_ends=ends, include_head=h, include_tail=t), tl)
        run(f"{tag}.between({lo!r},{hi!r}) defaults", lambda: tl.between(lo, hi), tl)


def plain_filters(tag, tl, rng):
    for b in rng.sample(bounds_for(tl), 4):
        for inc in (False, True):
            run(f"{tag}.after({b!r},{inc})", lambda: tl.after(b, inc), tl)
            run(f"{tag}.before({b!r},{inc})", lambda: tl.before(b, inc), tl)
        run(f"{tag}.between", lambda: tl.between(b, b + 100, include_ends=True), tl)
    # the hold-only keywords must keep being rejected by non-hold lists
    run(f"{tag}.after(tail kw)", lambda: tl.after(0, include_tail=True), tl)
    run(f"{tag}.before(head kw)", lambda: tl.before(0, include_head=False), tl)


def main():
    rng = random.Random(160001)
    classes = list_classes()
    emit("CLASSES", [c.__name__ for c in classes])
    for cls in classes:
        is_hold = issubclass(cls, HoldList)
        for n in (0, 1, 2, 5, 12):
            for neg in ((False, True) if is_hold and n >= 2 else (False,)):
                rows = rand_rows(rng, cls, n, neg_len=neg)
                tl = make_list(cls, rows)
                tag = f"{cls.__name__}[n={n},neg={neg}]"
                run(f"{tag}.base", lambda: tl)
                if not is_hold:
                    if n in (0, 5):
                        plain_filters(tag, tl, rng)
                    continue
                hold_filters(tag, tl, rng, full=(cls is HoldList or n == 5))
                # after earlier operations: sorted / reversed / sliced / filtered / appended
                with warnings.catch_warnings():
                    warnings.simplefilter("ignore")
                    derived = {
                        "sorted": tl.sorted(),
                        "rsorted": tl.sorted(reverse=True),
                        "slice": tl[1:],
                        "step": tl[::-1],
                        "filtered": tl.after(0.0, include_end=True, include_tail=True),
                        "appended": tl.append(tl.sorted(reverse=True)),
                    }
                for k, d in derived.items():
                    hold_filters(f"{tag}.{k}", d, rng, full=False)
                    run(f"{tag}.{k}.chain",
                        lambda: d.after(1.0, True, True).before(100.0, True, False).sorted()[0:3], d)
                    run(f"{tag}.{k}.first_last", lambda: (d.first_offset(), d.last_offset(),
                                                          d.first_last_offset()), d)
                # vector / odd bounds go through the same comparison
                run(f"{tag}.after(array bound)",
                    lambda: tl.after(np.full(len(tl), 1.0), True, True), tl)
                run(f"{tag}.before(series bound)",
                    lambda: tl.before(tl.offset + 1, False, False), tl)
                run(f"{tag}.after(str bound)", lambda: tl.after("x", True, True), tl)
                run(f"{tag}.before(None bound)", lambda: tl.before(None, True, False), tl)
                run(f"{tag}.after(int bound)", lambda: tl.after(1, include_tail=True), tl)
        if is_hold:
            # NaN offsets / lengths and integer typed columns
            rows = rand_rows(rng, cls, 6)
            tl = make_list(cls, rows)
            tl.df.loc[1, "offset"] = float("nan")
            tl.df.loc[3, "length"] = float("nan")
            hold_filters(f"{cls.__name__}[nan]", tl, rng, full=False)
            tl2 = make_list(cls, rows)
            tl2.df = tl2.df.astype({"offset": int, "length": int})
            hold_filters(f"{cls.__name__}[intcols]", tl2, rng, full=False)
            # list without a length column: same AttributeError/KeyError as before
            tl3 = cls(make_list(cls, rows).df.drop(columns="length"))
            run(f"{cls.__name__}[nolen].after", lambda: tl3.after(0.0), tl3)
            run(f"{cls.__name__}[nolen].before", lambda: tl3.before(0.0, True, False), tl3)
    finish()


main()
