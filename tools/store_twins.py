#!/usr/bin/env python3
"""store_twins.py <round> <outdir> <first-contact.json> — keep a round of confirmed behaviour-preserving refactorings as
/verif/twins/<Cxx>-t<round>-<k>/ and record the (twin, check) pairs that are honestly undecided in twins/EXPECTED_UNDECIDED.json.

<outdir>/<Cxx>-<k>/ holds the sub-agent's patch.diff, demo.py, notes.md, meta.json plus confirmed.json (tools/verify_twin.py) and
static.json (tools/eval_seeds.py --dir, all checks, run AFTER the round's changes).  <first-contact.json> maps "<Cxx>-<k>" to
{"violation": [checks], "undecided": [checks]} as observed before any change.  A twin on which any check still reports a VIOLATION is
refused: that is a false alarm to repair, not something to store."""
import json, pathlib, shutil, subprocess, sys
HERE = pathlib.Path(__file__).resolve().parent.parent
rnd, out, fc = sys.argv[1], pathlib.Path(sys.argv[2]), json.loads(pathlib.Path(sys.argv[3]).read_text())
head = subprocess.run("git -C /repo rev-parse --short HEAD", shell=True, capture_output=True, text=True).stdout.strip()
vhead = subprocess.run(f"git -C {HERE} rev-parse --short HEAD", shell=True, capture_output=True, text=True).stdout.strip()
exp_p = HERE / "twins" / "EXPECTED_UNDECIDED.json"
exp = json.loads(exp_p.read_text())
n = 0
for d in sorted(out.iterdir()):
    if not (d / "patch.diff").exists():
        continue
    conf = json.loads((d / "confirmed.json").read_text()) if (d / "confirmed.json").exists() else {}
    st = json.loads((d / "static.json").read_text()) if (d / "static.json").exists() else {}
    if not conf.get("ok"):
        print("skipped (not confirmed):", d.name)
        continue
    if st.get("exit") == 1 or st.get("others_exit_1"):
        print("REFUSED (a check still reports a VIOLATION):", d.name)
        continue
    pid, k = d.name.split("-")
    tid = f"{pid}-t{rnd}-{k}"
    tgt = HERE / "twins" / tid
    tgt.mkdir(parents=True, exist_ok=True)
    for f in ("patch.diff", "demo.py", "notes.md"):
        if (d / f).exists():
            shutil.copy(d / f, tgt / f)
    (tgt / "expected.txt").write_text((conf.get("demo_stdout_clean") or "") + "\n")
    und = ([pid] if st.get("exit") == 2 else []) + list(st.get("others_exit_2", []))
    am = json.loads((d / "meta.json").read_text()) if (d / "meta.json").exists() else {}
    meta = {
        "id": tid, "property": pid,
        "kind": f"behaviour-preserving refactoring (twin), round {rnd} (targeted at the functions whose rules changed in round 14): every check must stay silent on it (or, where listed in EXPECTED_UNDECIDED.json, undecided — never a VIOLATION)",
        "origin": "fresh sub-agent given only the property text, a list of functions / code parts to rewrite, and its own scratch worktree of /repo (nothing from /verif)",
        "function": am.get("function", ""), "agent_meta": am,
        "base_commit": head,
        "confirmed": {"digest_identical_clean_vs_patched": conf.get("demo_stdout_clean") == conf.get("demo_stdout_patched"),
                      "digest": conf.get("demo_stdout_clean"), "suite_passed": conf.get("suite_passed"),
                      "suite_failed_other_than_the_2_always_failing": (conf.get("suite_failed") or 0) - 2,
                      "how": "tools/verify_twin.py: demo.py prints a sha256 over results / dtypes / exceptions / inputs-after for generated inputs; run on clean HEAD and with the patch; full suite with the patch"},
        "first_contact": {"checks_as_of": sys.argv[4] if len(sys.argv) > 4 else "?", "checks_with_false_VIOLATION": fc.get(d.name, {}).get("violation", []),
                          "checks_undecided_exit2": fc.get(d.name, {}).get("undecided", [])},
        "now": {"checks_as_of": vhead, "checks_with_false_VIOLATION": [], "checks_undecided_exit2": sorted(und), "first_report": st.get("first_report", "")},
    }
    (tgt / "meta.json").write_text(json.dumps(meta, indent=1))
    if und:
        exp[tid] = sorted(und)
    n += 1
exp_p.write_text(json.dumps(dict(sorted(exp.items())), indent=1))
print(f"stored {n} twins of round {rnd}; EXPECTED_UNDECIDED has {len(exp)} entries")
