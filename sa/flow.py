"""Element-wise provenance of sequences built by zip / unpacking / comprehensions.

Answers, from the syntax alone, "which expression over the elements of which base
sequence ends up in position k / keyword f of this constructor?" — the question
behind every "parallel lists" rule (a swapped pair of names in an unpacking, a
zip whose operands are in a different order than the loop targets, a tail fed
where the head belongs).  Abstract values:

  SeqV(elem)    a sequence whose generic element is the expression `elem`
                (free names are generator variables or synthetic atoms)
  TupV(items)   a tuple of abstract values (result of zip(*seq_of_tuples))
  ExprV(node)   anything else: the expression itself after substitution

Synthetic atoms (printed by ast.unparse, never executed):
  @elem(X)      the generic element of the unknown sequence X
  @index(X)     the running index of enumerate(X) (plus start when given)
  @tm.NAME(recv, elem, ...)  element of recv.NAME(seq, ...) for the element-wise,
                order-preserving TimingMap queries offsets/snaps/beats (C10.R1)
"""
from __future__ import annotations

import ast
import copy
from dataclasses import dataclass
from typing import Dict, List, Optional, Union

ELEMENTWISE_TM = {"offsets", "snaps", "beats"}


@dataclass
class SeqV:
    elem: ast.AST
    length: Optional[str] = None      # text of its length when known by construction: "len(rows)" for [f(r) for r in rows]


@dataclass
class CatV:
    """A + B + C of sequences whose lengths are known by construction; slicing it at sums of those lengths gives a part back"""
    parts: list                        # [SeqV with a length]


@dataclass
class TupV:
    items: list


@dataclass
class ExprV:
    node: ast.AST


Val = Union[SeqV, TupV, ExprV, CatV]


def atom(name: str, *args: ast.AST) -> ast.AST:
    return ast.Call(func=ast.Name(id=name, ctx=ast.Load()), args=list(args), keywords=[])


class _Sub(ast.NodeTransformer):
    def __init__(self, env: Dict[str, ast.AST]):
        self.env = env

    def visit_Name(self, n):
        if n.id in self.env:
            return copy.deepcopy(self.env[n.id])
        return n


def subst(e: ast.AST, env: Dict[str, ast.AST]) -> ast.AST:
    return _Sub(env).visit(copy.deepcopy(e))


def elem_of(v: Val) -> ast.AST:
    if isinstance(v, SeqV):
        return v.elem
    if isinstance(v, CatV):
        return atom("@elem", atom("@cat", *[p.elem for p in v.parts]))
    if isinstance(v, TupV):
        return ast.Tuple(elts=[elem_of(i) for i in v.items], ctx=ast.Load())
    return atom("@elem", v.node)


class Flow:
    def __init__(self, env: Optional[Dict[str, Val]] = None):
        self.env: Dict[str, Val] = dict(env or {})

    # ------------------------------------------------------------------ exprs
    def _scalar_env(self) -> Dict[str, ast.AST]:
        return {k: v.node for k, v in self.env.items() if isinstance(v, ExprV)}

    def eval(self, e: ast.AST) -> Val:
        if isinstance(e, ast.Name):
            return self.env.get(e.id, ExprV(e))
        if isinstance(e, ast.Call):
            f = e.func
            if isinstance(f, ast.Name) and f.id in ("list", "tuple", "iter") and len(e.args) == 1 and not e.keywords:
                return self.eval(e.args[0])
            if isinstance(f, ast.Name) and f.id == "zip":
                if len(e.args) == 1 and isinstance(e.args[0], ast.Starred):
                    v = self.eval(e.args[0].value)
                    if isinstance(v, SeqV) and isinstance(v.elem, ast.Tuple):
                        return TupV([SeqV(x) for x in v.elem.elts])
                    return ExprV(subst(e, self._scalar_env()))
                ops = [self.eval(a) for a in e.args]
                return SeqV(ast.Tuple(elts=[elem_of(o) for o in ops], ctx=ast.Load()))
            if isinstance(f, ast.Name) and f.id == "enumerate" and e.args:
                v = self.eval(e.args[0])
                base = e.args[0] if not isinstance(v, ExprV) else v.node
                ix = atom("@index", subst(base, self._scalar_env()))
                start = e.args[1] if len(e.args) > 1 else next((k.value for k in e.keywords if k.arg == "start"), None)
                if start is not None:
                    ix = ast.BinOp(left=ix, op=ast.Add(), right=start)
                return SeqV(ast.Tuple(elts=[ix, elem_of(v)], ctx=ast.Load()))
            if isinstance(f, ast.Attribute) and f.attr in ELEMENTWISE_TM and e.args:
                v = self.eval(e.args[0])
                recv = subst(f.value, self._scalar_env())
                rest = [subst(a, self._scalar_env()) for a in e.args[1:]]
                if isinstance(v, CatV):
                    # element-wise and order-preserving (C10.R1): one query for a concatenation answers each part in place
                    return CatV([SeqV(atom(f"@tm.{f.attr}", recv, p.elem, *rest), p.length) for p in v.parts])
                return SeqV(atom(f"@tm.{f.attr}", recv, elem_of(v), *rest), v.length if isinstance(v, SeqV) else None)
            return ExprV(self._subst_all(e))
        if isinstance(e, (ast.ListComp, ast.GeneratorExp)):
            saved = dict(self.env)
            length = None
            if len(e.generators) == 1 and not e.generators[0].ifs and isinstance(e.generators[0].iter, ast.Name):
                length = f"len({e.generators[0].iter.id})"       # one element per element of a named sequence
            try:
                for g in e.generators:
                    it = self.eval(g.iter)
                    self.bind(g.target, ExprV(elem_of(it)) if not isinstance(it, TupV) else ExprV(elem_of(it)))
                el = self._subst_all(e.elt)
            finally:
                self.env = saved
            return SeqV(el, length)
        if isinstance(e, ast.BinOp) and isinstance(e.op, ast.Add):
            a, b = self.eval(e.left), self.eval(e.right)
            pa = a.parts if isinstance(a, CatV) else ([a] if isinstance(a, SeqV) and a.length else None)
            pb = b.parts if isinstance(b, CatV) else ([b] if isinstance(b, SeqV) and b.length else None)
            if pa and pb:
                return CatV(list(pa) + list(pb))
        if isinstance(e, ast.IfExp) and isinstance(e.orelse, (ast.List, ast.Tuple)) and not e.orelse.elts and \
                isinstance(e.body, ast.Call) and e.body.args:
            # `f(xs) if xs else []`: the empty case is what the element-wise call gives for no elements — only when the test IS the
            # emptiness of the very sequence the call receives (`f(xs) if ys else []` drops results whenever ys is empty and xs is not)
            t = e.test
            if isinstance(t, ast.Call) and isinstance(t.func, ast.Name) and t.func.id == "len" and len(t.args) == 1:
                t = t.args[0]
            if isinstance(t, ast.Compare) and len(t.ops) == 1 and isinstance(t.ops[0], (ast.Gt, ast.NotEq)) and \
                    isinstance(t.comparators[0], ast.Constant) and t.comparators[0].value == 0 and isinstance(t.left, ast.Call) and \
                    isinstance(t.left.func, ast.Name) and t.left.func.id == "len" and len(t.left.args) == 1:
                t = t.left.args[0]
            if ast.unparse(t) == ast.unparse(e.body.args[0]):
                v = self.eval(e.body)
                if isinstance(v, (SeqV, CatV)):
                    return v
        if isinstance(e, ast.Subscript) and isinstance(e.slice, ast.Slice) and e.slice.step is None:
            v = self.eval(e.value)
            if isinstance(v, CatV):
                part = self._slice_part(v, e.slice)
                if part is not None:
                    return part
        if isinstance(e, ast.Tuple):
            return TupV([self.eval(x) for x in e.elts])
        return ExprV(self._subst_all(e))

    def _slice_part(self, v: "CatV", sl: ast.Slice):
        """the part of a concatenation that [lo:hi] cuts out, when lo and hi are the sums of the lengths before / through one part"""
        from . import sym
        import re

        def rf(txt):
            return sym.canon(ast.parse(txt, mode="eval").body, lambda n: ("L_" + re.sub(r"\W", "_", ast.unparse(n))) if isinstance(n, ast.Call) and
                             isinstance(n.func, ast.Name) and n.func.id == "len" else None)
        bounds = ["0"]
        for p in v.parts:
            bounds.append(f"({bounds[-1]}) + ({p.length})")
        lo = ast.unparse(self._subst_all(sl.lower)) if sl.lower is not None else "0"
        hi = ast.unparse(self._subst_all(sl.upper)) if sl.upper is not None else None
        try:
            lo_rf = rf(lo)
            hi_rf = rf(hi) if hi is not None else None
            for i in range(len(v.parts)):
                if lo_rf.same(rf(bounds[i])) and ((hi_rf is None and i == len(v.parts) - 1) or (hi_rf is not None and hi_rf.same(rf(bounds[i + 1])))):
                    return v.parts[i]
        except Exception:
            return None
        return None

    def _subst_all(self, e: ast.AST) -> ast.AST:
        env = {}
        for k, v in self.env.items():
            if isinstance(v, ExprV):
                env[k] = v.node
        return subst(e, env)

    # --------------------------------------------------------------- bindings
    def bind(self, tgt: ast.AST, v: Val):
        if isinstance(tgt, ast.Name):
            self.env[tgt.id] = v
            return
        if isinstance(tgt, (ast.Tuple, ast.List)):
            items = None
            if isinstance(v, TupV):
                items = v.items
            elif isinstance(v, ExprV) and isinstance(v.node, ast.Tuple):
                items = [ExprV(x) for x in v.node.elts]
            if items is not None and len(items) == len(tgt.elts):
                for t, i in zip(tgt.elts, items):
                    self.bind(t, i)
                return
            for k, t in enumerate(tgt.elts):
                base = v.node if isinstance(v, ExprV) else elem_of(v)
                self.bind(t, ExprV(ast.Subscript(value=base, slice=ast.Constant(value=k), ctx=ast.Load())))

    def assign(self, st: ast.Assign, seq_only: bool = True):
        """Bind the targets; with ``seq_only`` plain scalars/unknown values stay
        symbolic under their own name (only sequences and tuples of sequences are tracked)."""
        v = self.eval(st.value)
        if seq_only and isinstance(v, ExprV):
            for t in st.targets:
                for n in ast.walk(t):
                    if isinstance(n, ast.Name):
                        self.env.pop(n.id, None)
            return
        for t in st.targets:
            self.bind(t, v)


def ctor_kwargs(elem: ast.AST) -> Optional[Dict[str, ast.AST]]:
    """keyword -> argument expression of a constructor call element."""
    if isinstance(elem, ast.Call):
        out = {k.arg: k.value for k in elem.keywords if k.arg}
        for i, a in enumerate(elem.args):
            out[f"#{i}"] = a
        return out
    return None


def show(e: ast.AST) -> str:
    try:
        return ast.unparse(e)
    except Exception:  # pragma: no cover
        return "?"
