"""Demo: generated sources in all five formats -> read -> every converter -> write.

Prints one line ``DIGEST <sha256>`` over a canonical text dump of everything seen:
source objects, converted objects (values, dtypes, column order, row labels,
instance attribute order), written text / bytes, written files, the types and
messages of raised exceptions, and the sources again after converting + writing.
"""
import hashlib
import io
import logging
import random
import struct
import sys
import tempfile
import warnings
from fractions import Fraction
from pathlib import Path

import numpy as np
import pandas as pd

warnings.filterwarnings("ignore")
logging.disable(logging.CRITICAL)

from reamber.algorithms.convert import *  # noqa
from reamber.bms.BMSMap import BMSMap
from reamber.o2jam.O2JMapSet import O2JMapSet
from reamber.osu.OsuMap import OsuMap
from reamber.quaver.QuaMap import QuaMap
from reamber.sm.SMMapSet import SMMapSet

OUT = []


def emit(*a):
    OUT.append(" ".join(str(x) for x in a))


# ---------------------------------------------------------------- generators
# An abstract chart: keys, list of (beat Fraction, bpm) tempo changes starting
# with beat 0, hits [(beat, col)], holds [(beat, col, len_beats)].
def gen_chart(rng, keys, n_hits, n_holds, n_bpms, dens=(1, 2, 3, 4, 6, 8), overlap=False):
    bpm_choices = [60, 90, 120, 150, 180, 200, 240, 75.5, 133.25]
    bpms = [(Fraction(0), rng.choice(bpm_choices))]
    beat = Fraction(0)
    for _ in range(n_bpms - 1):
        beat += 4 * rng.randint(1, 3)  # tempo changes on measure lines
        bpms.append((beat, rng.choice(bpm_choices)))
    last = int(beat) + 8
    taken = set()
    hits, holds = [], []
    # per column timeline without overlaps
    busy = {c: [] for c in range(keys)}

    def free(c, a, b):
        return all(b < x or a > y for x, y in busy[c])

    tries = 0
    while len(holds) < n_holds and tries < 500:
        tries += 1
        c = rng.randrange(keys)
        a = Fraction(rng.randrange(0, last * 4), 4)
        ln = Fraction(rng.randint(1, 8), rng.choice((1, 2, 4)))
        if free(c, a, a + ln):
            busy[c].append((a, a + ln))
            holds.append((a, c, ln))
    tries = 0
    while len(hits) < n_hits and tries < 500:
        tries += 1
        c = rng.randrange(keys)
        d = rng.choice(dens)
        a = Fraction(rng.randrange(0, last * d), d)
        if free(c, a, a):
            busy[c].append((a, a))
            hits.append((a, c))
    if overlap:
        # ties: a hit on a hold's tail / head in the same column, and a doubled hit
        for a, c, ln in holds[:2]:
            hits.append((a + ln, c))
        for a, c, ln in holds[2:3]:
            hits.append((a, c))
        for a, c in hits[:1]:
            hits.append((a, c))
    return dict(keys=keys, bpms=bpms, hits=hits, holds=holds, last=last)


def beat_to_ms(chart, beat, offset=0.0):
    t = Fraction(0)
    bpms = chart["bpms"]
    for i, (b, bpm) in enumerate(bpms):
        nxt = bpms[i + 1][0] if i + 1 < len(bpms) else None
        if nxt is None or beat < nxt:
            t += (beat - b) * Fraction(60000) / Fraction(bpm)
            break
        t += (nxt - b) * Fraction(60000) / Fraction(bpm)
    return float(t) + offset


def to_osu(chart, rng, shuffle=False, offset=0):
    keys = chart["keys"]
    tps = []
    for b, bpm in chart["bpms"]:
        t = beat_to_ms(chart, b, offset)
        tps.append(f"{t:.12g},{60000 / bpm:.12g},4,1,0,{rng.choice((30, 100))},1,0")
    objs = []
    for b, c in chart["hits"]:
        x = int((512 * c + 256) // keys)
        objs.append((b, f"{x},192,{int(round(beat_to_ms(chart, b, offset)))},1,0,0:0:0:0:"))
    for b, c, ln in chart["holds"]:
        x = int((512 * c + 256) // keys)
        t0 = int(round(beat_to_ms(chart, b, offset)))
        t1 = int(round(beat_to_ms(chart, b + ln, offset)))
        objs.append((b, f"{x},192,{t0},128,0,{t1}:0:0:0:0:"))
    if shuffle:
        rng.shuffle(objs)
    else:
        objs.sort(key=lambda x: x[0])
    return "\n".join(
        [
            "osu file format v14",
            "",
            "[General]",
            "AudioFilename: audio.mp3",
            "AudioLeadIn: 0",
            f"PreviewTime: {rng.choice((-1, 0, 1234))}",
            "Countdown: 0",
            "SampleSet: Normal",
            "StackLeniency: 0.7",
            "Mode: 3",
            "LetterboxInBreaks: 0",
            "SpecialStyle: 0",
            "WidescreenStoryboard: 0",
            "",
            "[Editor]",
            "DistanceSpacing: 1",
            "BeatDivisor: 4",
            "GridSize: 4",
            "TimelineZoom: 1",
            "",
            "[Metadata]",
            f"Title:T{rng.randrange(100)}",
            "TitleUnicode:TU",
            "Artist:Art",
            "ArtistUnicode:ArtU",
            "Creator:Cre",
            f"Version:V{rng.randrange(100)}",
            "Source:",
            "Tags:a b",
            "BeatmapID:0",
            "BeatmapSetID:-1",
            "",
            "[Difficulty]",
            "HPDrainRate:8",
            f"CircleSize:{keys}",
            "OverallDifficulty:8",
            "ApproachRate:5",
            "SliderMultiplier:1.4",
            "SliderTickRate:1",
            "",
            "[Events]",
            "//Background and Video events",
            '0,0,"bg.jpg",0,0',
            "//Break Periods",
            "//Storyboard Sound Samples",
            "",
            "[TimingPoints]",
            *tps,
            "",
            "",
            "[HitObjects]",
            *[o for _, o in objs],
            "",
        ]
    )


def to_qua(chart, rng, shuffle=False, offset=0):
    keys = chart["keys"]
    lines = [
        "AudioFile: audio.mp3",
        f"SongPreviewTime: {rng.choice((0, 1234))}",
        "BackgroundFile: bg.jpg",
        f"Mode: Keys{keys}",
        f"Title: T{rng.randrange(100)}",
        "Artist: Art",
        "Creator: Cre",
        f"DifficultyName: D{rng.randrange(100)}",
        "TimingPoints:",
    ]
    for b, bpm in chart["bpms"]:
        lines += [f"- StartTime: {beat_to_ms(chart, b, offset):.12g}", f"  Bpm: {bpm}"]
    lines.append("SliderVelocities: []")
    objs = []
    for b, c in chart["hits"]:
        objs.append(
            (b, [f"- StartTime: {int(round(beat_to_ms(chart, b, offset)))}", f"  Lane: {c + 1}", "  KeySounds: []"])
        )
    for b, c, ln in chart["holds"]:
        objs.append(
            (
                b,
                [
                    f"- StartTime: {int(round(beat_to_ms(chart, b, offset)))}",
                    f"  Lane: {c + 1}",
                    f"  EndTime: {int(round(beat_to_ms(chart, b + ln, offset)))}",
                    "  KeySounds: []",
                ],
            )
        )
    if shuffle:
        rng.shuffle(objs)
    else:
        objs.sort(key=lambda x: x[0])
    if objs:
        lines.append("HitObjects:")
        for _, o in objs:
            lines += o
    else:
        lines.append("HitObjects: []")
    return "\n".join(lines) + "\n"


SM_TYPES = {4: "dance-single", 6: "dance-solo", 8: "dance-double", 3: "dance-threepanel", 7: "kb7-single"}


def to_sm(chart, rng, offset_s=0.0, n_maps=1):
    keys = chart["keys"]
    n_meas = chart["last"] // 4 + 1
    out = [
        f"#TITLE:T{rng.randrange(100)};",
        "#SUBTITLE:sub;",
        "#ARTIST:Art;",
        "#TITLETRANSLIT:tt;",
        "#ARTISTTRANSLIT:at;",
        "#CREDIT:Cre;",
        "#BACKGROUND:bg.jpg;",
        "#MUSIC:audio.mp3;",
        f"#OFFSET:{offset_s};",
        "#SAMPLESTART:1.5;",
        "#SAMPLELENGTH:10.0;",
        "#SELECTABLE:YES;",
        "#BPMS:" + ",".join(f"{float(b):.3f}={bpm}" for b, bpm in chart["bpms"]) + ";",
        "#STOPS:;",
    ]
    for m in range(n_maps):
        out += [
            "#NOTES:",
            f"     {SM_TYPES[keys]}:",
            "     desc:",
            f"     {rng.choice(('Easy', 'Hard', 'Challenge'))}:",
            f"     {rng.randint(1, 20)}:",
            "     0,0,0,0,0:",
        ]
        measures = []
        for me in range(n_meas):
            ev = []
            for b, c in chart["hits"]:
                if me * 4 <= b < me * 4 + 4:
                    ev.append((b - me * 4, c, "1"))
            for b, c, ln in chart["holds"]:
                if me * 4 <= b < me * 4 + 4:
                    ev.append((b - me * 4, c, "2"))
                if me * 4 <= b + ln < me * 4 + 4:
                    ev.append((b + ln - me * 4, c, "3"))
            den = 4
            for f, _, _ in ev:
                den = int(np.lcm(den, (f / 4).denominator))
            rows = [["0"] * keys for _ in range(den)]
            for f, c, ch in ev:
                rows[int(f / 4 * den)][c] = ch
            measures.append("\n".join("".join(r) for r in rows))
        out.append("\n,\n".join(measures))
        out.append(";")
    return "\n".join(out) + "\n"


B36 = "0123456789ABCDEFGHIJKLMNOPQRSTUVWXYZ"


def b36(n):
    return B36[n // 36] + B36[n % 36]


BME_CH = {0: "16", 1: "11", 2: "12", 3: "13", 4: "14", 5: "15", 6: "18", 7: "19"}


def to_bms(chart, rng, drop=(), time_sig=None):
    keys = chart["keys"]
    lines = [
        "#PLAYER 1",
        f"#TITLE T{rng.randrange(100)}",
        "#ARTIST Art",
        f"#BPM {chart['bpms'][0][1]}",
        f"#PLAYLEVEL {rng.randint(1, 12)}",
        "#LNOBJ ZZ",
        "#WAV01 a.wav",
        "#WAV02 b.wav",
    ]
    lines = [ln for ln in lines if ln.split(" ")[0] not in drop]
    for i, (b, bpm) in enumerate(chart["bpms"][1:], 1):
        lines.append(f"#BPM{b36(i)} {bpm}")
    if time_sig is not None:
        lines.append(f"#{time_sig[0]:03}02:{time_sig[1]}")
    per = {}

    def add(me, ch, f, val):
        per.setdefault((me, ch), []).append((f, val))

    for i, (b, bpm) in enumerate(chart["bpms"][1:], 1):
        add(int(b // 4), "08", (b % 4) / 4, b36(i))
    for b, c in chart["hits"]:
        add(int(b // 4), BME_CH[c], (b % 4) / 4, rng.choice(("01", "02")))
    for b, c, ln in chart["holds"]:
        add(int(b // 4), BME_CH[c], (b % 4) / 4, "01")
        e = b + ln
        add(int(e // 4), BME_CH[c], (e % 4) / 4, "ZZ")
    for (me, ch), evs in sorted(per.items()):
        den = 1
        for f, _ in evs:
            den = int(np.lcm(den, Fraction(f).denominator))
        seq = ["00"] * den
        for f, v in evs:
            seq[int(f * den)] = v
        lines.append(f"#{me:03}{ch}:" + "".join(seq))
    return "\n".join(lines) + "\n"


def to_ojn(charts, rng):
    """3 levels from 3 charts (same initial bpm assumed from the first)."""
    assert len(charts) == 3
    bodies, counts = [], []
    for chart in charts:
        per = {}

        def add(me, ch, f, val):
            per.setdefault((me, ch), []).append((f, val))

        for b, bpm in chart["bpms"][1:]:
            add(int(b // 4), 1, (b % 4) / 4, struct.pack("<f", bpm))
        for b, c in chart["hits"]:
            add(int(b // 4), 2 + c, (b % 4) / 4, struct.pack("<h", 1) + b"\x00" + b"\x00")
        for b, c, ln in chart["holds"]:
            add(int(b // 4), 2 + c, (b % 4) / 4, struct.pack("<h", 1) + b"\x00" + b"\x02")
            e = b + ln
            add(int(e // 4), 2 + c, (e % 4) / 4, struct.pack("<h", 1) + b"\x00" + b"\x03")
        body = b""
        for (me, ch), evs in sorted(per.items()):
            den = 1
            for f, _ in evs:
                den = int(np.lcm(den, Fraction(f).denominator))
            seq = [b"\x00\x00\x00\x00"] * den
            for f, v in evs:
                seq[int(f * den)] = v
            body += struct.pack("<ihh", me, ch, den) + b"".join(seq)
        bodies.append(body)
        counts.append(len(per))
    head = b""
    head += struct.pack("<i", 1)
    head += b"ojn\x00"
    head += struct.pack("<f", 2.9)
    head += struct.pack("<i", 1)
    head += struct.pack("<f", float(charts[0]["bpms"][0][1]))
    head += struct.pack("<4h", rng.randint(1, 30), rng.randint(31, 60), rng.randint(61, 90), 0)
    head += struct.pack("<3i", 0, 0, 0)
    head += struct.pack("<3i", 0, 0, 0)
    head += struct.pack("<3i", 0, 0, 0)
    head += struct.pack("<3i", *counts)
    head += struct.pack("<hh", 0, 0)
    head += b"\x00" * 20
    head += struct.pack("<ii", 0, 0)
    head += f"T{rng.randrange(100)}".encode().ljust(64, b"\x00")
    head += b"Art".ljust(32, b"\x00")
    head += b"Cre".ljust(32, b"\x00")
    head += b"a.ojm".ljust(32, b"\x00")
    head += struct.pack("<i", 0)
    head += struct.pack("<3i", 0, 0, 0)
    head += struct.pack("<3i", 0, 0, 0)
    head += struct.pack("<i", 0)
    assert len(head) == 300, len(head)
    return head + b"".join(bodies)


# ---------------------------------------------------------------- dumping
def dump_df(name, df):
    emit("DF", name, "cols", list(df.columns), "dtypes", [str(t) for t in df.dtypes],
         "index", type(df.index).__name__, list(df.index)[:5], len(df))
    for row in df.itertuples(index=True, name=None):
        emit("  ", [(type(v).__name__, repr(v)) for v in row])


def dump_map(name, m):
    emit("KEYS", name, type(m).__name__, list(vars(m)), list(m.objs))
    for k, tl in m.objs.items():
        dump_df(f"{name}.{k}", tl.df)
    meta = {k: v for k, v in vars(m).items() if k != "objs"}
    for k in sorted(meta):
        v = meta[k]
        if hasattr(v, "df"):
            dump_df(f"{name}.meta.{k}", v.df)
        else:
            emit("META", name, k, type(v).__name__, repr(v))


def dump_any(name, obj):
    if isinstance(obj, (list, tuple)):
        emit("LIST", name, len(obj))
        for i, o in enumerate(obj):
            dump_any(f"{name}[{i}]", o)
    elif hasattr(obj, "maps"):
        emit("KEYS", name, type(obj).__name__, list(vars(obj)))
        meta = {k: v for k, v in vars(obj).items() if k != "maps"}
        for k in sorted(meta):
            emit("SETMETA", name, k, type(meta[k]).__name__, repr(meta[k]))
        for i, m in enumerate(obj.maps):
            dump_map(f"{name}.maps[{i}]", m)
    else:
        dump_map(name, obj)


def attempt(name, fn):
    try:
        r = fn()
        return True, r
    except Exception as e:  # noqa
        emit("EXC", name, type(e).__name__, str(e)[:200])
        return False, None


def write_any(name, obj, tmp):
    objs = obj if isinstance(obj, list) else [obj]
    for i, o in enumerate(objs):
        ok, w = attempt(f"{name}[{i}].write", lambda: o.write())
        if ok:
            if isinstance(w, list):
                w = "\n".join(w)
            emit("WRITE", name, i, type(w).__name__, hashlib.sha256(w if isinstance(w, bytes) else w.encode("utf8")).hexdigest())
            emit(repr(w))
        p = Path(tmp) / "out.bin"
        ok, _ = attempt(f"{name}[{i}].write_file", lambda: o.write_file(p))
        if ok:
            emit("FILE", name, i, hashlib.sha256(p.read_bytes()).hexdigest())


CONV = {
    "osu": [("OsuToBMS", lambda m: OsuToBMS.convert(m)), ("OsuToBMS1", lambda m: OsuToBMS.convert(m, move_right_by=1)),
            ("OsuToQua", lambda m: OsuToQua.convert(m)), ("OsuToQuaNR", lambda m: OsuToQua.convert(m, raise_bad_mode=False)),
            ("OsuToSM", lambda m: OsuToSM.convert(m)), ("OsuToSMNR", lambda m: OsuToSM.convert(m, raise_bad_mode=False))],
    "qua": [("QuaToBMS", lambda m: QuaToBMS.convert(m)), ("QuaToOsu", lambda m: QuaToOsu.convert(m)),
            ("QuaToSM", lambda m: QuaToSM.convert(m))],
    "sm": [("SMToBMS", lambda m: SMToBMS.convert(m)), ("SMToOsu", lambda m: SMToOsu.convert(m)),
           ("SMToQua", lambda m: SMToQua.convert(m)), ("SMToQuaNR", lambda m: SMToQua.convert(m, raise_bad_mode=False))],
    "bms": [("BMSToOsu", lambda m: BMSToOsu.convert(m)), ("BMSToQua", lambda m: BMSToQua.convert(m)),
            ("BMSToSM", lambda m: BMSToSM.convert(m))],
    "o2j": [("O2JToBMS", lambda m: O2JToBMS.convert(m)), ("O2JToBMS0", lambda m: O2JToBMS.convert(m, move_right_by=0)),
            ("O2JToOsu", lambda m: O2JToOsu.convert(m)), ("O2JToQua", lambda m: O2JToQua.convert(m)),
            ("O2JToSM", lambda m: O2JToSM.convert(m)), ("O2JToSMm", lambda m: O2JToSM.convert_merge(m))],
}


def run_case(tag, kind, payload, tmp, only=None):
    p = Path(tmp) / f"src.{kind}"
    if isinstance(payload, bytes):
        p.write_bytes(payload)
    elif kind == "bms":
        p.write_bytes(payload.encode("shift_jis"))
    else:
        p.write_text(payload, encoding="utf8")
    reader = dict(osu=OsuMap.read_file, qua=QuaMap.read_file, sm=SMMapSet.read_file, bms=BMSMap.read_file,
                  o2j=O2JMapSet.read_file)[kind]
    ok, src = attempt(f"{tag}.read", lambda: reader(p))
    if not ok:
        return
    dump_any(f"{tag}.src", src)
    if kind != "o2j":
        write_any(f"{tag}.native", src, tmp)
    for cname, conv in CONV[kind]:
        if only is not None and not any(o in cname for o in only):
            continue
        ok, out = attempt(f"{tag}.{cname}", lambda: conv(src))
        if not ok:
            continue
        dump_any(f"{tag}.{cname}", out)
        write_any(f"{tag}.{cname}", out, tmp)
    # source not modified by conversion / writing
    dump_any(f"{tag}.src_after", src)


FOCUS = "bms"  # which writer / converters get the extra generated inputs
SEED = 9091


def o2j_triplet(rng, chart, keys, nh, nl):
    c2 = gen_chart(rng, keys, max(nh - 2, 0), nl, 1)
    c2["bpms"] = chart["bpms"][:1]
    c3 = gen_chart(rng, keys, nh + 2, 0, 1)
    c3["bpms"] = chart["bpms"][:1]
    return [chart, c2, c3]


def main(seed=SEED):
    rng = random.Random(seed)
    with tempfile.TemporaryDirectory() as tmp:
        n = 0
        # ---- part A: every source format x every converter
        specs = []
        for keys in (4, 7, 8, 6, 5, 3, 9, 1):
            specs.append((keys, rng.randint(3, 14), rng.randint(0, 5), rng.randint(1, 4), False))
        specs += [(4, 0, 0, 1, False), (4, 1, 0, 1, False), (4, 0, 1, 1, False), (7, 0, 0, 2, False),
                  (7, 12, 4, 5, True), (4, 20, 0, 1, False), (8, 0, 6, 3, True), (4, 6, 4, 2, True)]
        for keys, nh, nl, nb, overlap in specs:
            chart = gen_chart(rng, keys, nh, nl, nb, overlap=overlap)
            n += 1
            for shuffle in (False, True):
                run_case(f"c{n}.osu.s{int(shuffle)}", "osu",
                         to_osu(chart, rng, shuffle, offset=rng.choice((0, 0, 37, -250))), tmp)
            run_case(f"c{n}.qua", "qua",
                     to_qua(chart, rng, shuffle=bool(n % 2), offset=rng.choice((0, 12, -100))), tmp)
            if keys in SM_TYPES:
                run_case(f"c{n}.sm", "sm",
                         to_sm(chart, rng, offset_s=rng.choice((0.0, -0.25, 0.1)), n_maps=1 + n % 2), tmp)
            if keys <= 8:
                run_case(f"c{n}.bms", "bms", to_bms(chart, rng), tmp)
            if keys <= 7:
                run_case(f"c{n}.o2j", "o2j", to_ojn(o2j_triplet(rng, chart, keys, nh, nl), rng), tmp)

        # ---- part B: BMS sources with missing headers / a time signature measure
        chart = gen_chart(rng, 7, 8, 2, 2)
        for k, drop in enumerate([("#TITLE",), ("#ARTIST",), ("#PLAYLEVEL",), ("#LNOBJ",),
                                  ("#TITLE", "#ARTIST", "#PLAYLEVEL")]):
            run_case(f"hdr{k}.bms", "bms", to_bms(chart, rng, drop=drop), tmp)
        for k, ts in enumerate([(1, "0.75"), (0, "0.5"), (2, "1.25")]):
            run_case(f"ts{k}.bms", "bms", to_bms(chart, rng, time_sig=ts), tmp)

        # ---- part C: extra inputs for the refactored code
        for k in range(24):
            keys = rng.choice((4, 7, 8, 6, 3, 5, 2))
            nh, nl, nb = rng.randint(0, 16), rng.randint(0, 6), rng.randint(1, 5)
            chart = gen_chart(rng, keys, nh, nl, nb, dens=(1, 2, 3, 4, 5, 6, 8, 12, 16),
                              overlap=(k % 4 == 0))
            if FOCUS == "bms":
                only = ("ToBMS",)
            else:
                only = ("ToSM",)
            run_case(f"x{k}.osu", "osu", to_osu(chart, rng, bool(k % 2), offset=rng.choice((0, 5, -333))),
                     tmp, only=only)
            if FOCUS == "bms":
                run_case(f"x{k}.qua", "qua", to_qua(chart, rng, bool(k % 3), offset=rng.choice((0, 7))),
                         tmp, only=only)
                if keys in SM_TYPES:
                    run_case(f"x{k}.sm", "sm", to_sm(chart, rng, offset_s=rng.choice((0.0, 0.05))), tmp, only=only)
                if keys <= 7:
                    run_case(f"x{k}.o2j", "o2j", to_ojn(o2j_triplet(rng, chart, keys, nh, nl), rng), tmp, only=only)
                # native BMS read -> write (only=() runs no converter)
                run_case(f"x{k}.bms", "bms",
                         to_bms(chart, rng, time_sig=rng.choice((None, (1, "0.75"), (0, "1.5")))), tmp, only=())
            else:
                run_case(f"x{k}.bms", "bms",
                         to_bms(chart, rng, drop=rng.choice(((), (), ("#TITLE",), ("#ARTIST",)))), tmp, only=only)
    return "\n".join(OUT)


if __name__ == "__main__":
    text = main()
    if len(sys.argv) > 1:  # optional: keep the full dump for diffing
        Path(sys.argv[1]).write_text(text)
    print("DIGEST", hashlib.sha256(text.encode("utf8")).hexdigest())
