"""Helpers shared by the per-property rule modules."""
from __future__ import annotations

import ast
from typing import Dict, Iterable, List, Optional, Tuple

from ..model import Model, AnalysisError, TIMEDLIST, MAP, MAPSET, SERIES
from .. import report as R

CTL = "_sa_controls"

GAMES = {
    "osu": ("reamber.osu.OsuMap.OsuMap", None),
    "qua": ("reamber.quaver.QuaMap.QuaMap", None),
    "sm": ("reamber.sm.SMMap.SMMap", "reamber.sm.SMMapSet.SMMapSet"),
    "bms": ("reamber.bms.BMSMap.BMSMap", None),
    "o2j": ("reamber.o2jam.O2JMap.O2JMap", "reamber.o2jam.O2JMapSet.O2JMapSet"),
}

CONVERTERS = ["BMSToOsu", "BMSToQua", "BMSToSM", "O2JToBMS", "O2JToOsu", "O2JToQua", "O2JToSM", "OsuToBMS",
              "OsuToQua", "OsuToSM", "QuaToBMS", "QuaToOsu", "QuaToSM", "SMToBMS", "SMToOsu", "SMToQua"]


def conv_qual(name: str, meth: str = "convert") -> str:
    return f"reamber.algorithms.convert.{name}.{name}.{meth}"


def converter_entries(M: Model) -> List[str]:
    out = [conv_qual(n) for n in CONVERTERS]
    out.append(conv_qual("O2JToSM", "convert_merge"))
    return out


def fn_loc(M: Model, q: str) -> Tuple[str, int]:
    f = M.fn(q)
    return M.mods[f.mod].rel, f.node.lineno


def node_loc(M: Model, q: str, node) -> Tuple[str, int]:
    f = M.fn(q)
    return M.mods[f.mod].rel, getattr(node, "lineno", f.node.lineno)


def short(q: str) -> str:
    return q.replace("reamber.", "")


def concrete_classes(M: Model, kind: str) -> List[str]:
    return sorted(c for c in M.classes if CTL not in c and M.class_kind(c) == kind)


def unparse(n) -> str:
    try:
        return ast.unparse(n)
    except Exception:  # pragma: no cover
        return "?"


def returns_of(fn_node) -> List[ast.Return]:
    from ..model import walk_no_nested
    return [n for n in walk_no_nested(fn_node) if isinstance(n, ast.Return)]


def is_name(n, ident) -> bool:
    return isinstance(n, ast.Name) and n.id == ident


def attr_chain(n) -> Optional[List[str]]:
    """['self', 'bpms', 'offset'] for self.bpms.offset, else None."""
    out = []
    while isinstance(n, ast.Attribute):
        out.append(n.attr)
        n = n.value
    if isinstance(n, ast.Name):
        out.append(n.id)
        return out[::-1]
    return None


def const_str(n) -> Optional[str]:
    if isinstance(n, ast.Constant) and isinstance(n.value, str):
        return n.value
    return None


def call_name(n) -> Optional[str]:
    if isinstance(n, ast.Call):
        f = n.func
        if isinstance(f, ast.Name):
            return f.id
        if isinstance(f, ast.Attribute):
            return f.attr
    return None


# ----------------------------------------------------------------- local definitions
def local_defs(fn_node, name: str) -> List[ast.AST]:
    """Values assigned to the local ``name`` anywhere in the function (no nested defs)."""
    from ..model import walk_no_nested
    out = []
    for n in walk_no_nested(fn_node):
        if isinstance(n, ast.Assign):
            for t in n.targets:
                if isinstance(t, ast.Name) and t.id == name:
                    out.append(n.value)
        elif isinstance(n, ast.AnnAssign) and isinstance(n.target, ast.Name) and n.target.id == name and n.value is not None:
            out.append(n.value)
        elif isinstance(n, ast.NamedExpr) and n.target.id == name:
            out.append(n.value)
    return out


def strip_calls(e, names=("float", "int", "str", "bytes")):
    """Peel representation-changing wrappers: float(x) -> x."""
    while isinstance(e, ast.Call) and isinstance(e.func, ast.Name) and e.func.id in names and len(e.args) >= 1:
        e = e.args[0]
    return e


def ordered_stmts(body) -> List[ast.stmt]:
    """Statements of a body in source order, descending into compound statements (no nested defs)."""
    out = []
    for s in body:
        out.append(s)
        for fld in ("body", "orelse", "finalbody"):
            sub = getattr(s, fld, None)
            if isinstance(sub, list) and sub and isinstance(sub[0], ast.stmt) and not isinstance(
                    s, (ast.FunctionDef, ast.AsyncFunctionDef, ast.ClassDef)):
                out.extend(ordered_stmts(sub))
        if isinstance(s, ast.Try):
            for h in s.handlers:
                out.extend(ordered_stmts(h.body))
    return out


def fresh_default_insts(ctx, rid: str) -> List[R.Inst]:
    """Every chart instance must get its own list objects: the ``objs`` default factory has to construct them per call.
    A ``**MODULE_LEVEL_DICT`` of instances hands the same lists to every chart; the generated chart setters assign
    ``.df`` into them in place, so reading a second chart overwrites the first one's lists."""
    M = ctx.M
    out = []
    for c in concrete_classes(M, "chart"):
        M.map_slots(c)
        cls = M.cls(c)
        file = M.mods[cls.mod].rel
        shared = []
        for k in M.mro(c):
            shared.extend(M.shared_default_slots.get(k, []))
        key = f"{c.rsplit('.', 1)[1]}:fresh-lists"
        if shared:
            names = sorted({s[0] for s in shared})
            out.append(R.viol(rid, key, file, shared[0][2],
                              f"lists {names} of every {c.rsplit('.', 1)[1]} come from the module-level dict '{shared[0][1]}': all "
                              f"charts share these list objects, and the chart setters write '.df' into them in place — the last "
                              f"chart read or converted overwrites those lists of all earlier ones",
                              construct=f"{c.rsplit('.', 1)[1]}.objs default shares {names}"))
        else:
            out.append(R.ok(rid, key, file, cls.node.lineno, idiom="default_factory constructs every list per instance"))
    return out


def forwarding_insts(ctx, rid: str, wrapper: str, callee_names) -> List[R.Inst]:
    """A thin wrapper must hand every option it accepts to the function that does the work: each parameter of the
    wrapper that the resolved callee also declares has to appear in the call (by keyword or position)."""
    from ..model import params_of, walk_no_nested
    M = ctx.M
    fn = M.fn(wrapper)
    file = M.mods[fn.mod].rel
    out = []
    own = {"self", "cls"} | ({fn.cls.rsplit(".", 1)[1]} if fn.cls else set())
    # locals holding a fresh instance of the wrapper's own class (`bms = BMSMap()`), whatever they are called
    fresh = {n.targets[0].id for n in walk_no_nested(fn.node) if isinstance(n, ast.Assign) and isinstance(n.targets[0], ast.Name) and
             isinstance(n.value, ast.Call) and isinstance(n.value.func, ast.Name) and n.value.func.id in own}
    calls = [n for n in walk_no_nested(fn.node) if isinstance(n, ast.Call) and call_name(n) in callee_names and
             isinstance(n.func, ast.Attribute) and isinstance(n.func.value, ast.Name) and
             (n.func.value.id in own or n.func.value.id in fresh)]
    key = f"{short(wrapper)}->{'/'.join(callee_names)}"
    if not calls:
        return [R.undec(rid, key, file, fn.node.lineno, f"call to {callee_names} not found")]
    c = calls[0]
    # resolve the callee in the wrapper's class
    callee = M.method(fn.cls, call_name(c)) if fn.cls else None
    if callee is None:
        return [R.undec(rid, key, file, c.lineno, "callee not resolved")]
    cps = [p for p in params_of(M.fn(callee).node) if p not in ("self", "cls")]
    wps = [p for p in params_of(fn.node) if p not in ("self", "cls")]
    shared = [p for p in wps if p in cps]
    passed = {k.arg for k in c.keywords if isinstance(k.value, ast.Name) and k.value.id == k.arg}
    passed |= {a.id for a in c.args if isinstance(a, ast.Name)}
    star = any(k.arg is None for k in c.keywords)
    missing = [p for p in shared if p not in passed]
    if missing and not star:
        out.append(R.viol(rid, key, file, c.lineno,
                          f"{fn.name}() accepts {missing} but does not pass {'it' if len(missing) == 1 else 'them'} on to "
                          f"{call_name(c)}(): the option is silently ignored and the default is used",
                          construct=f"{fn.name} drops {missing}: {unparse(c)[:100]}"))
    else:
        out.append(R.ok(rid, key, file, c.lineno, idiom=f"forwards {shared or 'nothing (no shared options)'}"))
    return out


def dataclass_default_insts(ctx, cls: str, rid: str, written: Optional[set] = None) -> List[R.Inst]:
    """declared scalar type of a dataclass field vs the type of its literal default: a `float` field whose default is `""` is
    written as a string where the format defines a number (the default is what a freshly built or converted chart carries)"""
    import ast as _ast
    M = ctx.M
    insts: List[R.Inst] = []
    SCAL = {"str": str, "int": int, "float": (int, float), "bool": bool}
    for k in [c for c in reversed(M.mro(cls)) if c in M.classes]:
        node = M.classes[k].node
        file = M.mods[M.classes[k].mod].rel
        for st in node.body:
            if not (isinstance(st, _ast.AnnAssign) and isinstance(st.target, _ast.Name) and st.value is not None):
                continue
            ann = _ast.unparse(st.annotation)
            if ann not in SCAL:
                continue
            try:
                v = M.lit(M.classes[k].mod, st.value, k)
            except Exception:
                continue
            key = f"default:{st.target.id}"
            ok_ = isinstance(v, SCAL[ann]) and not (ann in ("int", "float") and isinstance(v, bool))
            if ok_:
                insts.append(R.ok(rid, key, file, st.lineno, idiom=f"{ann} = {v!r}"))
            else:
                insts.append(R.viol(rid, key, file, st.lineno,
                                    f"field '{st.target.id}' is declared {ann} but its default is {v!r} ({type(v).__name__}): a chart that "
                                    f"never set it (built in memory, converted) is written with a value of the wrong type",
                                    construct=f"{k.split('.')[-1]}.{st.target.id}: {ann} = {v!r}"))
    return insts


def _dict_items(n):
    """[(key, value)] of a dict built in one expression from string-keyed displays: {"a": x}, dict(a=x), dict(<such a dict>, b=y),
    {**<such a dict>, "b": y} (a later key replaces an earlier one, at the earlier one's place); None for anything else"""
    items = []

    def put(k, v):
        for i, (k0, _) in enumerate(items):
            if k0 == k:
                items[i] = (k, v)
                return
        items.append((k, v))
    if isinstance(n, ast.Dict):
        for k, v in zip(n.keys, n.values):
            if k is None:
                sub = _dict_items(v)
                if sub is None:
                    return None
                for kk, vv in sub:
                    put(kk, vv)
            elif isinstance(k, ast.Constant) and isinstance(k.value, str):
                put(k.value, v)
            else:
                return None
        return items
    if isinstance(n, ast.Call) and isinstance(n.func, ast.Name) and n.func.id == "dict" and len(n.args) <= 1 and all(k.arg for k in n.keywords):
        if n.args:
            sub = _dict_items(n.args[0])
            if sub is None:
                return None
            for kk, vv in sub:
                put(kk, vv)
        for k in n.keywords:
            put(k.arg, k.value)
        return items
    return None


def _nested_dict(n) -> bool:
    return (isinstance(n, ast.Call) and isinstance(n.func, ast.Name) and n.func.id == "dict" and len(n.args) == 1) or \
        (isinstance(n, ast.Dict) and any(k is None for k in n.keys))


def as_dict(n):
    """a dict display, whichever way it is written: {"a": x} as it stands, dict(a=x) (the spelling the model canonicalises
    identifier-keyed displays to) as the equivalent ast.Dict; None for anything else"""
    if _nested_dict(n) and _dict_items(n):
        it = _dict_items(n)
        return ast.copy_location(ast.Dict(keys=[ast.copy_location(ast.Constant(value=k), v) for k, v in it], values=[v for _, v in it]), n)
    if isinstance(n, ast.Dict):
        return n
    if isinstance(n, ast.Call) and isinstance(n.func, ast.Name) and n.func.id == "dict" and not n.args and n.keywords and all(k.arg for k in n.keywords):
        return ast.copy_location(ast.Dict(keys=[ast.copy_location(ast.Constant(value=k.arg), k.value) for k in n.keywords],
                                          values=[k.value for k in n.keywords]), n)
    return None


def as_dict_call(n):
    """the other direction of as_dict: dict(a=x) as it stands, {"a": x} (every key a string) as the equivalent dict(..) call node;
    None for anything else"""
    if _nested_dict(n) and _dict_items(n):
        c = ast.Call(func=ast.copy_location(ast.Name(id="dict", ctx=ast.Load()), n), args=[],
                     keywords=[ast.copy_location(ast.keyword(arg=k, value=v), v) for k, v in _dict_items(n)])
        return ast.copy_location(c, n)
    if isinstance(n, ast.Call) and isinstance(n.func, ast.Name) and n.func.id == "dict" and not n.args and all(k.arg for k in n.keywords):
        return n
    if isinstance(n, ast.Dict) and n.keys and all(isinstance(k, ast.Constant) and isinstance(k.value, str) for k in n.keys):
        c = ast.Call(func=ast.copy_location(ast.Name(id="dict", ctx=ast.Load()), n), args=[],
                     keywords=[ast.copy_location(ast.keyword(arg=k.value, value=v), k) for k, v in zip(n.keys, n.values)])
        return ast.copy_location(c, n)
    return None


def inline_locals(fn_node, e, depth: int = 3, kinds=(ast.Call, ast.Attribute, ast.Subscript)):
    """a copy of expression ``e`` with every local that is bound exactly once (a plain `name = <call / attribute / subscript chain>`,
    not a parameter, not a loop variable) replaced by its value — `t = a.f(); v = t.g()` reads as `a.f().g()` — to ``depth`` hops"""
    import copy as _copy
    params = {a.arg for a in fn_node.args.posonlyargs + fn_node.args.args + fn_node.args.kwonlyargs}
    stores = {}
    for n in ast.walk(fn_node):
        if isinstance(n, ast.Name) and isinstance(n.ctx, (ast.Store, ast.Del)):
            stores[n.id] = stores.get(n.id, 0) + 1
    defs = {}
    for n in ast.walk(fn_node):
        if isinstance(n, ast.Assign) and len(n.targets) == 1 and isinstance(n.targets[0], ast.Name) and stores.get(n.targets[0].id) == 1 and \
                n.targets[0].id not in params and isinstance(n.value, kinds):
            defs[n.targets[0].id] = n.value

    class T(ast.NodeTransformer):
        def __init__(self, d):
            self.d = d

        def visit_Name(self, n):
            if isinstance(n.ctx, ast.Load) and n.id in defs and self.d > 0:
                return T(self.d - 1).visit(_copy.deepcopy(defs[n.id]))
            return n
    return T(depth).visit(_copy.deepcopy(e))


def comp_of_append_loop(scope, name: str):
    """`name = []; for T in I: [if c:] name.append(E)` (the only statements that touch ``name`` before its use) as the
    comprehension [E for T in I if c] it is; None when ``name`` is built in any other way"""
    inits = [n for n in ast.walk(scope) if isinstance(n, ast.Assign) and len(n.targets) == 1 and isinstance(n.targets[0], ast.Name) and
             n.targets[0].id == name]
    if len(inits) != 1 or not (isinstance(inits[0].value, ast.List) and not inits[0].value.elts):
        return None
    loops = [l_ for l_ in ast.walk(scope) if isinstance(l_, ast.For) and not l_.orelse and
             any(isinstance(x, ast.Call) and isinstance(x.func, ast.Attribute) and x.func.attr == "append" and
                 isinstance(x.func.value, ast.Name) and x.func.value.id == name for x in ast.walk(l_))]
    # the innermost loop that appends
    loops = [l_ for l_ in loops if not any(m is not l_ and any(y is m for y in ast.walk(l_)) for m in loops)]
    if len(loops) != 1 or len(loops[0].body) != 1:
        return None
    st, ifs = loops[0].body[0], []
    while isinstance(st, ast.If) and not st.orelse and len(st.body) == 1:
        ifs.append(st.test)
        st = st.body[0]
    if not (isinstance(st, ast.Expr) and isinstance(st.value, ast.Call) and isinstance(st.value.func, ast.Attribute) and st.value.func.attr == "append" and
            isinstance(st.value.func.value, ast.Name) and st.value.func.value.id == name and len(st.value.args) == 1):
        return None
    lc = ast.ListComp(elt=st.value.args[0], generators=[ast.comprehension(target=loops[0].target, iter=loops[0].iter, ifs=ifs, is_async=0)])
    return ast.fix_missing_locations(ast.copy_location(lc, loops[0]))


UNUSED_CONTROL_SRC = """
def good(a, shift=0):
    return a + shift
def bad(a, shift=0):
    return a + 0
"""


def unused_params(fn_node: ast.FunctionDef) -> List[str]:
    """parameters (other than self / cls / _private) that the body never reads; abstract stubs have none"""
    ps = [a.arg for a in fn_node.args.posonlyargs + fn_node.args.args + fn_node.args.kwonlyargs if a.arg not in ("self", "cls")]
    body = [b for b in fn_node.body if not (isinstance(b, ast.Expr) and isinstance(b.value, ast.Constant))]
    if not body or (len(body) == 1 and isinstance(body[0], (ast.Pass, ast.Raise))) or any(
            unparse(d).endswith(("abstractmethod", "overload")) for d in fn_node.decorator_list):
        return []
    loads = {x.id for x in ast.walk(fn_node) if isinstance(x, ast.Name) and isinstance(x.ctx, ast.Load)}
    return [p_ for p_ in ps if p_ not in loads and not p_.startswith("_")]


def unused_param_insts(ctx, rid: str, prefixes, what: str, effect: str) -> List[R.Inst]:
    """every option a function of `prefixes` accepts is read (expected violations: zero; a positive and a negative example are
    evaluated on every run).  `effect`: what ignoring an option means for the property, for the report."""
    M = ctx.M
    t = {f.name: f for f in ast.parse(UNUSED_CONTROL_SRC).body}
    if unused_params(t["bad"]) != ["shift"] or unused_params(t["good"]):
        raise AnalysisError(f"{rid}: the unused-parameter scan no longer tells its positive example from its negative one")
    insts, n = [], 0
    for q, f in sorted(M.funcs.items()):
        if f.outer_fn is not None or CTL in q or not any(q.startswith(p_) for p_ in prefixes):
            continue
        n += 1
        for p_ in unused_params(f.node):
            insts.append(R.viol(rid, f"{short(q)}:{p_}", M.mods[f.mod].rel, f.node.lineno,
                                f"the parameter '{p_}' of {short(q)} is accepted and never read: {effect} (every caller in the library and "
                                f"every test passes the default, which is why nothing notices)", construct=f"{short(q)}: parameter {p_} unused"))
    if not insts:
        insts.append(R.ok(rid, "parameters-used", "", 0, idiom=f"every parameter of the {n} {what} is read"))
    if n == 0:
        raise AnalysisError(f"{rid}: no function found under {prefixes}")
    return insts

