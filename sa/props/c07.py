"""C07 — O2Jam reading places every note and tempo change at the time its measure implies (DESIGN §5 C07)."""
from __future__ import annotations

import ast
import json
import pathlib
import struct
from typing import Dict, List, Optional, Tuple

from ..model import AnalysisError, NotLiteral, walk_no_nested, params_of
from .. import report as R
from ..report import RuleSpec
from .. import codec as C
from .. import sym
from ..flow import ctor_kwargs
from .common import unparse, call_name, local_defs, strip_calls

O2J = "reamber.o2jam"
METACLS = f"{O2J}.O2JMapSetMeta.O2JMapSetMeta"
PKG = f"{O2J}.O2JEventPackage.O2JEventPackage"
CONST = f"{O2J}.O2JEventPackage.O2JConst"
CHAN = f"{O2J}.O2JEventPackage.O2JNoteChannel"
MAP = f"{O2J}.O2JMap.O2JMap"
MAPSET = f"{O2J}.O2JMapSet.O2JMapSet"
TABLES = pathlib.Path(__file__).resolve().parent.parent / "tables"


# --------------------------------------------------------------------------- R1
def _u(e):
    return ast.unparse(e) if e is not None else ""


def _for_target(st, nm, iter_pred, pos=None):
    if not isinstance(st, ast.For) or not iter_pred(st.iter):
        return False
    t = st.target
    if pos is None:
        return isinstance(t, ast.Name) and t.id == nm
    return isinstance(t, ast.Tuple) and pos < len(t.elts) and isinstance(t.elts[pos], ast.Name) and t.elts[pos].id == nm


def _unpack_of(v, fmt):
    return v is not None and any(isinstance(x, ast.Call) and call_name(x) == "unpack" and x.args and isinstance(x.args[0], ast.Constant) and
                                 x.args[0].value == fmt for x in ast.walk(v))


# roles of the locals of the O2Jam reader functions (sa/normal.py: with_roles): the rules below name them by role
O2J_ROLES = {
    "read_meta": (
        ("meta_fields", lambda n, v, st, node: isinstance(v, ast.List) and not v.elts and any(
            isinstance(x, ast.Subscript) and isinstance(x.value, ast.Subscript) and isinstance(x.value.value, ast.Name) and x.value.value.id == n
            for x in ast.walk(node))),
        ("fmt", lambda n, v, st: _for_target(st, n, lambda it: "BYTE_FORMATS" in _u(it), 0)),
        ("size", lambda n, v, st: _for_target(st, n, lambda it: "BYTE_FORMATS" in _u(it), 1)),
        ("count", lambda n, v, st: _for_target(st, n, lambda it: "BYTE_FORMATS" in _u(it), 2)),
        ("fmt_size", lambda n, v, st: v is not None and "size" in _u(v) and "count" in _u(v) and isinstance(st, ast.Assign)),
        ("ix_start", lambda n, v, st: isinstance(st, ast.AugAssign) and _u(v) == "fmt_size"),
        ("meta_field", lambda n, v, st, node: isinstance(v, ast.List) and not v.elts and any(
            isinstance(x, ast.Call) and call_name(x) == "append" and _u(x.func.value) == "meta_fields" and x.args and _u(x.args[0]) == n
            for x in ast.walk(node))),
    ),
    "read_event_packages": (
        ("lvls", lambda n, v, st, node: isinstance(v, ast.List) and not v.elts and any(isinstance(x, ast.Return) and _u(x.value) == n for x in ast.walk(node))),
        ("data_q", lambda n, v, st: isinstance(v, ast.Call) and call_name(v) == "deque"),
        ("hold_buffer", lambda n, v, st: isinstance(v, ast.Dict) and not v.keys),
        ("lvl_pkg_count", lambda n, v, st: _for_target(st, n, lambda it: isinstance(it, ast.Name) and it.id == "lvl_pkg_counts")),
        ("lvl_pkg", lambda n, v, st: isinstance(v, ast.BinOp) and isinstance(v.op, ast.Mult) and "None" in _u(v)),
        ("pkg_e", lambda n, v, st: _for_target(st, n, lambda it: isinstance(it, ast.Call) and call_name(it) == "range" and "lvl_pkg_count" in _u(it))),
        ("pkg", lambda n, v, st: isinstance(v, ast.Call) and call_name(v) == "O2JEventPackage"),
        ("pkg_data", lambda n, v, st, node: isinstance(v, ast.List) and not v.elts and any(
            isinstance(x, ast.Subscript) and _u(x.value) == n and isinstance(x.slice, ast.Slice) for x in ast.walk(node))),
        ("event_count", lambda n, v, st: _unpack_of(v, "<h") and isinstance(st, ast.Assign) and isinstance(st.targets[0], ast.Name)),
        ("events_data", lambda n, v, st, node: any(isinstance(x, ast.Call) and call_name(x) in ("read_events_note", "read_events_bpm") and x.args and
                                                  _u(x.args[0]) == n for x in ast.walk(node)) and v is not None),
    ),
    "read_events_note": (
        ("notes", lambda n, v, st, node: isinstance(v, ast.List) and not v.elts and any(isinstance(x, ast.Return) and _u(x.value) == n for x in ast.walk(node))),
        ("event_count", lambda n, v, st: isinstance(v, ast.BinOp) and isinstance(v.op, ast.FloorDiv) and _u(v.left) == "len(data)"),
        ("i", lambda n, v, st: _for_target(st, n, lambda it: _u(it) == "range(event_count)") or
         _for_target(st, n, lambda it: isinstance(it, ast.Call) and call_name(it) == "enumerate", 0)),
        ("enabled", lambda n, v, st: _unpack_of(v, "<h")),
        ("sub_measure", lambda n, v, st: isinstance(v, ast.BinOp) and "curr_measure" in _u(v) and "event_count" in _u(v)),
        ("volume_pan", lambda n, v, st: _unpack_of(v, "<s")),
        ("note_type", lambda n, v, st: _unpack_of(v, "<c")),
        ("volume", lambda n, v, st: isinstance(v, ast.BinOp) and isinstance(v.op, ast.FloorDiv) and _u(v.left) == "volume_pan"),
        ("pan", lambda n, v, st: isinstance(v, ast.BinOp) and isinstance(v.op, ast.Mod) and _u(v.left) == "volume_pan"),
        ("hit", lambda n, v, st: isinstance(v, ast.Call) and call_name(v) == "O2JHit"),
        ("hold", lambda n, v, st: isinstance(v, ast.Call) and (call_name(v) == "O2JHold" or (call_name(v) == "pop" and "hold_buffer" in _u(v.func)))),
    ),
    "read_events_bpm": (
        ("event_count", lambda n, v, st: isinstance(v, ast.BinOp) and isinstance(v.op, ast.FloorDiv) and _u(v.left) == "len(data)"),
        ("bpms", lambda n, v, st, node: isinstance(v, ast.List) and not v.elts and any(isinstance(x, ast.Return) and _u(x.value) == n for x in ast.walk(node))),
        ("i", lambda n, v, st: _for_target(st, n, lambda it: _u(it) == "range(event_count)") or
         _for_target(st, n, lambda it: isinstance(it, ast.Call) and call_name(it) == "enumerate", 0)),
        ("bpm", lambda n, v, st: _unpack_of(v, "<f") or (isinstance(v, ast.Call) and call_name(v) == "O2JBpm")),
    ),
    "read_pkgs": (
        ("events", lambda n, v, st: isinstance(v, ast.ListComp) and len(v.generators) == 2 and ".events" in _u(v.generators[1].iter)),
        ("notes", lambda n, v, st: isinstance(v, ast.ListComp) and _u(v.generators[0].iter) == "events" and "not isinstance" in _u(v.generators[0].ifs[0] if v.generators[0].ifs else None)),
        ("bpms", lambda n, v, st: isinstance(v, ast.ListComp) and _u(v.generators[0].iter) == "events" and v.generators[0].ifs and
         _u(v.generators[0].ifs[0]).startswith("isinstance")),
        ("note_measures", lambda n, v, st: v is not None and (("tail_measure" in _u(v) and isinstance(v, ast.BinOp)) or (isinstance(v, ast.Call) and call_name(v) == "sorted"))),
        ("note_measure_dict", lambda n, v, st, node: isinstance(v, ast.Dict) and not v.keys and any(
            isinstance(x, ast.Subscript) and _u(x.value) == n and isinstance(x.ctx, ast.Store) for x in ast.walk(node))),
        ("note_measure", lambda n, v, st: _for_target(st, n, lambda it: _u(it) == "note_measures") or (
            # merged-timeline form: the position component of `for pos, kind, event in <timeline>`
            isinstance(st, ast.For) and isinstance(st.target, ast.Tuple) and len(st.target.elts) == 3 and
            isinstance(st.target.elts[0], ast.Name) and st.target.elts[0].id == n and isinstance(st.target.elts[2], ast.Name))),
        ("bpm_val", lambda n, v, st: isinstance(v, ast.Name) and v.id == "init_bpm"),
        ("bpm_ix", lambda n, v, st: isinstance(st, ast.AugAssign) and isinstance(v, ast.Constant) and v.value == 1 and isinstance(st.op, ast.Add)),
        ("bpm", lambda n, v, st: (isinstance(v, ast.Subscript) and _u(v.value) == "bpms") or (isinstance(v, ast.Call) and call_name(v) == "popleft") or
         _for_target(st, n, lambda it: isinstance(it, ast.Subscript) and _u(it.value) == "bpms")),
        ("offset", lambda n, v, st: isinstance(st, ast.AugAssign) and v is not None and "min_to_msec" in _u(v)),
        ("measure", lambda n, v, st: isinstance(v, ast.Attribute) and _u(v) == "bpm.measure"),
        ("note", lambda n, v, st: _for_target(st, n, lambda it: _u(it) == "notes")),
    ),
}


def _o2j_fn(ctx, q: str, **kw):
    from ..normal import with_roles
    return with_roles(ctx.M.nfn(q, **kw), O2J_ROLES.get(q.rsplit(".", 1)[1], ()))



def _resolve_local(fn_node, e):
    """a name bound once in the function -> its value (one step)"""
    if isinstance(e, ast.Name):
        ds = [x for x in walk_no_nested(fn_node) if isinstance(x, ast.Assign) and isinstance(x.targets[0], ast.Name) and x.targets[0].id == e.id]
        if len(ds) == 1:
            return ds[0].value
    return e


def rule_r1(ctx) -> List[R.Inst]:
    M = ctx.M
    rid = "C07.R1"
    frozen = json.loads((TABLES / "ojn_header.json").read_text())["fields"]
    cls = M.cls(METACLS)
    file = M.mods[cls.mod].rel
    fmts = M.class_const(METACLS, "BYTE_FORMATS")
    sizes = M.class_const(METACLS, "BYTE_SIZES")
    counts = M.class_const(METACLS, "BYTE_COUNT")
    insts = []
    line = cls.node.lineno
    if not (len(fmts) == len(sizes) == len(counts)):
        return [R.viol(rid, "tables:length", file, line,
                       f"the three parallel layout tables have lengths {len(fmts)}/{len(sizes)}/{len(counts)}: zip() silently drops "
                       f"the tail fields", construct=f"{len(fmts)}/{len(sizes)}/{len(counts)}")]
    insts.append(R.ok(rid, "tables:length", file, line, idiom=f"{len(fmts)} rows in each of the three tables"))
    # a whole-header struct format (HEADER = struct.Struct("<i4sf..")) beside the tables: field by field the frozen layout's type codes
    import re as _re
    want_codes = []
    for fr in frozen:
        want_codes += [("s", fr["count"])] if fr["fmt"] == "s" else [(fr["fmt"], 1)] * fr["count"]
    for n in ast.walk(M.mods[cls.mod].tree):
        if isinstance(n, ast.Constant) and isinstance(n.value, str) and _re.fullmatch(r"[<>=!@]?(\d*[xcbB?hHiIlLqQnNefdspP])+", n.value) and len(n.value) > 12:
            try:
                if struct.calcsize(n.value) != 300:
                    continue
            except struct.error:
                continue
            got_codes = []
            for cnt, code in _re.findall(r"(\d*)([xcbB?hHiIlLqQnNefdspP])", n.value.lstrip("<>=!@")):
                k_ = int(cnt) if cnt else 1
                got_codes += [("s", k_)] if code == "s" else [(code, 1)] * k_
            key = "header-format"
            if n.value[:1] != "<":
                insts.append(R.viol(rid, key, file, n.lineno, f"the whole-header format '{n.value[:20]}…' is not little-endian without padding ('<')",
                                    construct=f"header format {n.value}"))
            elif got_codes == want_codes:
                insts.append(R.ok(rid, key, file, n.lineno, idiom="whole-header struct format = the frozen OJN layout, code by code"))
            else:
                k_bad = next((i for i, (a_, b_) in enumerate(zip(got_codes, want_codes)) if a_ != b_), min(len(got_codes), len(want_codes)))
                insts.append(R.viol(rid, key, file, n.lineno,
                                    f"the whole-header format differs from the OJN layout at value {k_bad}: it reads "
                                    f"{got_codes[k_bad] if k_bad < len(got_codes) else 'nothing'} where the layout has "
                                    f"{want_codes[k_bad] if k_bad < len(want_codes) else 'nothing'} (a signed field read unsigned, or the reverse, "
                                    f"changes every value with the high bit set)", construct=f"header format {n.value}"))
    total = sum(sizes)
    rd = M.fn(MAPSET + ".read")
    hdr_slice = None
    for n in walk_no_nested(rd.node):
        if isinstance(n, ast.Call) and call_name(n) == "read_meta" and n.args and isinstance(n.args[0], ast.Subscript) and \
                isinstance(n.args[0].slice, ast.Slice) and n.args[0].slice.lower is None and \
                isinstance(n.args[0].slice.upper, ast.Constant):
            hdr_slice = n.args[0].slice.upper.value
    if total == 300 and hdr_slice == 300:
        insts.append(R.ok(rid, "tables:total", file, line, idiom="sum of sizes = 300 = header slice"))
    else:
        insts.append(R.viol(rid, "tables:total", file, line,
                            f"the OJN header is 300 bytes; the tables cover {total} and read() passes b[:{hdr_slice}]",
                            construct=f"total {total}, slice {hdr_slice}"))
    fields = [f for f in M.dataclass_fields(METACLS)]
    names = [f[0] for f in fields]
    # assignments self.<field> = meta_fields[k]...
    rm = _o2j_fn(ctx, METACLS + ".read_meta")
    assigned: Dict[int, Tuple[str, ast.AST]] = {}
    dup = []
    for n in walk_no_nested(rm.node):
        if isinstance(n, ast.Assign) and C.self_attr(n.targets[0]):
            ks = [x for x in ast.walk(n.value) if isinstance(x, ast.Subscript) and isinstance(x.value, ast.Name) and
                  x.value.id == "meta_fields" and isinstance(x.slice, ast.Constant)]
            if len(ks) == 1:
                k = ks[0].slice.value
                if k in assigned:
                    dup.append(k)
                assigned[k] = (C.self_attr(n.targets[0]), n)
    if not assigned:
        # no `self.<field> = meta_fields[k]…` statement at all: the fields reach the object some other way (destructuring, a loop
        # over names …) — which row lands in which field is then not read off this function
        return [R.undec(rid, "fields", file, rm.node.lineno, "the unpacked header rows are not assigned as `self.<field> = meta_fields[k]`: "
                                                              "which row reaches which field is not decided")]
    undec_fields = []
    for k, (fmt, size, count) in enumerate(zip(fmts, sizes, counts)):
        fz = frozen[k] if k < len(frozen) else None
        nm = names[k] if k < len(names) else f"#{k}"
        key = f"field:{k}:{fz['name'] if fz else nm}"
        probs = []
        try:
            ssz = struct.calcsize("<" + fmt)
        except struct.error:
            ssz = None
            probs.append(f"unknown struct format '{fmt}'")
        if count and size % count:
            probs.append(f"size {size} is not a multiple of count {count}")
        elif ssz is not None and size // count != ssz:
            probs.append(f"element size {size // count} does not match struct format '{fmt}' ({ssz} bytes): unpack raises or misreads")
        if fz is None:
            probs.append("row beyond the format's 23 header fields")
        else:
            if (fmt, size, count) != (fz["fmt"], fz["size"], fz["count"]):
                probs.append(f"layout ({fmt},{size},{count}) differs from the OJN format ({fz['fmt']},{fz['size']},{fz['count']}) "
                             f"for '{fz['name']}': this and every later field is read from the wrong bytes")
        if k not in assigned:
            probs.append(f"header field {k} is unpacked but never assigned")
        elif k in dup:
            probs.append(f"meta_fields[{k}] is assigned to two attributes")
        else:
            f, node = assigned[k]
            if f != nm:
                probs.append(f"meta_fields[{k}] ({fz['name'] if fz else '?'}) is assigned to '{f}', the {k}-th field is '{nm}'")
            v = node.value
            scalar = isinstance(v, ast.Subscript) and isinstance(v.value, ast.Subscript)     # meta_fields[k][0]
            if fz and fz["fmt"] == "s" and fz["name"] != "old_genre" and call_name(v) != "decode_replace":
                probs.append(f"character field '{nm}' is not decoded")
            # (a scalar passed through a wrapper: round() is lossy — the decoded value is no longer the field; anything else is not read)
            wrapped = None
            if not scalar and isinstance(v, ast.Call) and v.args and isinstance(v.args[0], ast.Subscript) and isinstance(v.args[0].value, ast.Subscript):
                wrapped = v
            if fz and fz["fmt"] != "s" and fz["count"] == 1 and wrapped is not None:
                if call_name(wrapped) == "round":
                    probs.append(f"'{nm}' is not the decoded header field but '{unparse(v)}': the float32 the file holds is rounded, so "
                                 f"{'every time integrated from the header tempo drifts (a note 120 measures in lands several ms off)' if nm == 'bpm' else 'the value read is not the value stored'}")
                elif call_name(wrapped) not in ("float", "int"):
                    undec_fields.append((key, node, f"'{nm}' is read through '{unparse(v)[:50]}', a wrapper that is not modelled"))
            elif fz and fz["fmt"] != "s" and fz["count"] == 1 and not scalar:
                probs.append(f"scalar field '{nm}' is assigned the whole list")
            if fz and fz["fmt"] != "s" and fz["count"] > 1 and scalar:
                probs.append(f"array field '{nm}' keeps only its first element")
        if probs:
            insts.append(R.viol(rid, key, file, assigned.get(k, (None, cls.node))[1].lineno, "; ".join(probs),
                                construct=f"{key}: " + "; ".join(probs)))
        elif undec_fields and undec_fields[-1][0] == key:
            insts.append(R.undec(rid, key, file, undec_fields[-1][1].lineno, undec_fields[-1][2]))
        else:
            insts.append(R.ok(rid, key, file, assigned[k][1].lineno, idiom=f"'{fmt}' x{count} = {size} bytes -> self.{nm}"))
    # character fields: NUL padding removed, decoded as ASCII with other bytes dropped (what the library defines for these fields:
    # the titles in the wild are EUC-KR, of which only the ASCII part is kept)
    dr = next((n for n in ast.walk(rm.node) if isinstance(n, ast.FunctionDef) and n.name == "decode_replace"), None)
    if dr is None:
        # the helper at module level (or in the class)
        dr = next((n for n in ast.walk(M.mods[rm.mod].tree) if isinstance(n, ast.FunctionDef) and n.name == "decode_replace"), None)
    decs = [n for n in ast.walk(dr if dr is not None else rm.node) if isinstance(n, ast.Call) and call_name(n) == "decode" and isinstance(n.func, ast.Attribute)]
    if not decs:
        insts.append(R.undec(rid, "char-decode", file, (dr or rm.node).lineno, "decoding of the character fields not found"))
    else:
        d0 = decs[0]
        kw = {k.arg: k.value for k in d0.keywords}
        codec = d0.args[0] if d0.args else kw.get("encoding")
        errs = d0.args[1] if len(d0.args) > 1 else kw.get("errors")
        cname = codec.value.lower().replace("_", "-") if isinstance(codec, ast.Constant) and isinstance(codec.value, str) else None
        ename = errs.value if isinstance(errs, ast.Constant) else None
        strips_nul = any(isinstance(x, ast.Constant) and x.value in (b"\x00", 0) for x in ast.walk(dr if dr is not None else rm.node))
        if cname in ("ascii", "us-ascii") and ename == "ignore" and strips_nul:
            insts.append(R.ok(rid, "char-decode", file, d0.lineno, idiom="NULs removed, ASCII kept, other bytes dropped"))
        else:
            why = []
            if cname not in ("ascii", "us-ascii"):
                why.append(f"decoded as '{cname}': bytes above 0x7f that happen to form valid {cname} are kept as stray characters instead of being dropped")
            if ename != "ignore":
                why.append(f"errors={ename!r}: a title with a byte outside the codec raises instead of being read")
            if not strips_nul:
                why.append("the NUL padding is not removed")
            insts.append(R.viol(rid, "char-decode", file, d0.lineno, "; ".join(why), construct=f"decode({cname!r}, errors={ename!r})"))
    # unpack loop: slices advance by the element size, little endian
    loop_ok = False
    for n in walk_no_nested(rm.node):
        if isinstance(n, ast.Call) and call_name(n) == "unpack" and len(n.args) == 2:
            a0, a1 = n.args
            a1 = _resolve_local(rm.node, a1)        # (the slice named first: chunk = b[i:i + size]; unpack(fmt, chunk))
            le = (isinstance(a0, ast.BinOp) and isinstance(a0.left, ast.Constant) and a0.left.value == "<") or \
                 (isinstance(a0, ast.JoinedStr) and a0.values and isinstance(a0.values[0], ast.Constant) and
                  str(a0.values[0].value).startswith("<"))
            if isinstance(a1, ast.Subscript) and isinstance(a1.slice, ast.Slice) and a1.slice.lower is not None and \
                    a1.slice.upper is not None:
                w = sym.canon(a1.slice.upper) - sym.canon(a1.slice.lower)
                adv = [x for x in walk_no_nested(rm.node) if isinstance(x, ast.AugAssign) and isinstance(x.op, ast.Add) and
                       unparse(x.target) == unparse(a1.slice.lower)]
                if le and adv and w.same(sym.canon(adv[0].value)):
                    loop_ok = True
                if not adv and isinstance(a1.slice.lower, ast.Name):
                    # prefix-sum form: for fmt, size, count, start in zip(FORMATS, SIZES, COUNT, accumulate(SIZES, initial=0)):
                    #                      unpack("<" + fmt * count, b[start:start + size])
                    zl = next((l for l in walk_no_nested(rm.node) if isinstance(l, ast.For) and isinstance(l.iter, ast.Call) and call_name(l.iter) == "zip" and
                               isinstance(l.target, ast.Tuple) and len(l.target.elts) == len(l.iter.args) and any(x is n for x in ast.walk(l))), None)
                    if zl is not None:
                        pos = {t.id: k for k, t in enumerate(zl.target.elts) if isinstance(t, ast.Name)}
                        srcs = [_resolve_local(rm.node, a) for a in zl.iter.args]
                        sv = a1.slice.lower.id
                        if sv in pos:
                            ssrc = srcs[pos[sv]]
                            sizes_k = next((k for k, a in enumerate(srcs) if unparse(a).endswith("BYTE_SIZES")), None)
                            starts_ok = isinstance(ssrc, ast.Call) and call_name(ssrc) == "accumulate" and len(ssrc.args) == 1 and \
                                unparse(ssrc.args[0]).endswith("BYTE_SIZES") and {k.arg: unparse(k.value) for k in ssrc.keywords} == {"initial": "0"}
                            size_var = zl.target.elts[sizes_k].id if sizes_k is not None and isinstance(zl.target.elts[sizes_k], ast.Name) else None
                            width_ok = size_var is not None and w.same(sym.parse(size_var))
                            if le and starts_ok and width_ok:
                                insts.append(R.ok(rid, "unpack-loop", file, n.lineno,
                                                  idiom="little-endian; field k starts at the sum of the sizes before it and is read over its own size"))
                            else:
                                why = ([] if le else ["not little-endian"]) + ([] if starts_ok else [f"'{sv}' is not the running sum of BYTE_SIZES from 0"]) + \
                                    ([] if width_ok else [f"the slice is {unparse(a1.slice.upper)} - {unparse(a1.slice.lower)} wide, not the field's size"])
                                insts.append(R.viol(rid, "unpack-loop", file, n.lineno,
                                                    "the header cursor must advance by exactly the width of the slice it unpacked, little-endian: "
                                                    + "; ".join(why), construct=unparse(n)[:160]))
                            continue
                    # comprehension form: [unpack(.., b[i:i + W]) for i in range(START, END, W)] ; START = END
                    iv = a1.slice.lower.id
                    comp = next((c for c in ast.walk(rm.node) if isinstance(c, (ast.ListComp, ast.GeneratorExp)) and len(c.generators) == 1 and
                                 isinstance(c.generators[0].target, ast.Name) and c.generators[0].target.id == iv and
                                 any(x is n for x in ast.walk(c.elt))), None)
                    rng = comp.generators[0].iter if comp is not None else None
                    if isinstance(rng, ast.Call) and call_name(rng) == "range" and len(rng.args) == 3 and not comp.generators[0].ifs:
                        start, end, step = rng.args
                        # the cursor is moved to the end of the range after the comprehension
                        moved = [x for x in walk_no_nested(rm.node) if isinstance(x, ast.Assign) and unparse(x.targets[0]) == unparse(start)
                                 and unparse(x.value) == unparse(end)] or \
                                [x for x in walk_no_nested(rm.node) if isinstance(x, ast.AugAssign) and isinstance(x.op, ast.Add) and
                                 unparse(x.target) == unparse(start) and
                                 (sym.canon(x.value) + sym.canon(start)).same(sym.canon(_resolve_local(rm.node, end)))]
                        if not (le and w.same(sym.canon(step)) and moved):
                            why = [] if le else ["not little-endian"]
                            if not w.same(sym.canon(step)):
                                why.append(f"slices are {unparse(a1.slice.upper)} - {unparse(a1.slice.lower)} wide but the cursor steps by {unparse(step)}")
                            if not moved:
                                why.append(f"the cursor '{unparse(start)}' is not moved to the end of the field ('{unparse(end)}')")
                            insts.append(R.viol(rid, "unpack-loop", file, n.lineno,
                                                "the header cursor must advance by exactly the width of the slice it unpacked, little-endian: "
                                                + "; ".join(why), construct=unparse(n)))
                        else:
                            insts.append(R.ok(rid, "unpack-loop", file, n.lineno,
                                              idiom="little-endian, range steps by the slice width, cursor moved to the end of the range"))
                        continue
                    insts.append(R.undec(rid, "unpack-loop", file, n.lineno, "cursor discipline of the header unpack not recognised"))
                    continue
                insts.append(R.ok(rid, "unpack-loop", file, n.lineno, idiom="little-endian, cursor advances by the width it reads")
                             if loop_ok else
                             R.viol(rid, "unpack-loop", file, n.lineno,
                                    "the header cursor must advance by exactly the width of the slice it unpacked, little-endian",
                                    construct=unparse(n)))
    return insts


# --------------------------------------------------------------------------- R2
def _slice_bounds(n: ast.Subscript, ivar: Optional[str]) -> Optional[Tuple[sym.RF, sym.RF]]:
    if isinstance(n.slice, ast.Slice) and n.slice.lower is not None and n.slice.upper is not None:
        return sym.canon(n.slice.lower), sym.canon(n.slice.upper)
    return None


def _unpack_from_fields(M, mod, fn_node):
    """`a, b, c = S.unpack_from(buf, OFF)` with S a module-level `Struct("<hBc")` (or `Struct("<hBc").unpack_from(..)`, or
    `unpack_from("<hBc", buf, OFF)`): {name: (format of the field, lower bound, upper bound, node)} — field k sits at OFF + the
    size of the fields before it.  The bounds are formulas over whatever names OFF mentions (the event index)."""
    out = {}

    def fmt_of(e):
        if isinstance(e, ast.Call) and call_name(e) == "Struct" and len(e.args) == 1 and isinstance(e.args[0], ast.Constant) and isinstance(e.args[0].value, str):
            return e.args[0].value
        if isinstance(e, ast.Name):
            ds = [st.value for st in M.mods[mod].tree.body if isinstance(st, ast.Assign) and len(st.targets) == 1 and isinstance(st.targets[0], ast.Name) and
                  st.targets[0].id == e.id]
            if len(ds) == 1:
                return fmt_of(ds[0])
        return None
    for n in ast.walk(fn_node):
        if not (isinstance(n, ast.Assign) and len(n.targets) == 1 and isinstance(n.value, ast.Call) and call_name(n.value) == "unpack_from"):
            continue
        c = n.value
        fmt = buf = off = None
        if isinstance(c.func, ast.Attribute) and fmt_of(c.func.value) is not None and 1 <= len(c.args) <= 2:
            fmt, buf, off = fmt_of(c.func.value), c.args[0], (c.args[1] if len(c.args) == 2 else ast.Constant(value=0))
        elif len(c.args) in (2, 3) and isinstance(c.args[0], ast.Constant) and isinstance(c.args[0].value, str):
            fmt, buf, off = c.args[0].value, c.args[1], (c.args[2] if len(c.args) == 3 else ast.Constant(value=0))
        for k in c.keywords:
            if k.arg == "offset":
                off = k.value
        if fmt is None or fmt[:1] not in "<>=!" or not all(ch in "xcbB?hHiIlLqQefdsp" for ch in fmt[1:]):
            continue
        t = n.targets[0]
        names = [x.id if isinstance(x, ast.Name) else None for x in (t.elts if isinstance(t, ast.Tuple) else [t])]
        if len(names) != len(fmt) - 1 or not isinstance(t, ast.Tuple):
            continue
        o = sym.canon(off)
        for k, nm in enumerate(names):
            if nm is None:
                continue
            lo = struct.calcsize(fmt[0] + fmt[1:1 + k])
            hi = struct.calcsize(fmt[0] + fmt[1:2 + k])
            out[nm] = (fmt[0] + fmt[1 + k], o + sym.parse(str(lo)), o + sym.parse(str(hi)), n)
    return out


def _iter_unpack_fields(fn_node):
    """`for i, (a, b, c) in enumerate(iter_unpack("<hBc", data[..]))` (the iterable possibly through a local bound once):
    {name: (format of the field, lower bound, upper bound, node)} with the bounds as formulas over the index variable, plus that
    variable's name.  Record i of an iter_unpack covers bytes [S*i, S*(i+1)), field k sits at the size of the fields before it."""
    out, ivar = {}, None
    for lp in ast.walk(fn_node):
        if not (isinstance(lp, ast.For) and isinstance(lp.iter, ast.Call) and call_name(lp.iter) == "enumerate" and lp.iter.args and
                isinstance(lp.target, ast.Tuple) and len(lp.target.elts) == 2 and isinstance(lp.target.elts[0], ast.Name)):
            continue
        src = _resolve_local(fn_node, lp.iter.args[0])
        if not (isinstance(src, ast.Call) and call_name(src) == "iter_unpack" and len(src.args) == 2 and isinstance(src.args[0], ast.Constant) and
                isinstance(src.args[0].value, str) and src.args[0].value[:1] in "<>=!"):
            continue
        fmt = src.args[0].value
        rec = lp.target.elts[1]
        names = [t.id if isinstance(t, ast.Name) else None for t in (rec.elts if isinstance(rec, ast.Tuple) else [rec])]
        if len(names) != len(fmt) - 1:
            continue
        try:
            S = struct.calcsize(fmt)
        except struct.error:
            continue
        ivar = lp.target.elts[0].id
        for k, nm in enumerate(names):
            if nm is None:
                continue
            lo = struct.calcsize(fmt[0] + fmt[1:1 + k])
            hi = struct.calcsize(fmt[0] + fmt[1:2 + k])
            out[nm] = (fmt[0] + fmt[1 + k], sym.parse(f"{S}*{ivar}+{lo}"), sym.parse(f"{S}*{ivar}+{hi}"), lp)
    return out, ivar



def _byte_columns(fn_node):
    """`for i, (b0, b1, b2, b3) in enumerate(zip(data[0::4], data[1::4], data[2::4], data[3::4]))` over a ``bytes`` parameter (the zip
    possibly through a local bound once): every name is byte k of event i *as an int*; the shortest column (the last) has
    len(data) // 4 entries, so exactly the complete events are visited, counted from 0.
    -> (loop, index variable or None, [name of byte 0, .., name of byte 3]) or None."""
    byte_params = {a.arg for a in fn_node.args.args + fn_node.args.kwonlyargs
                   if a.annotation is not None and unparse(a.annotation) in ("bytes", "bytearray", "memoryview")}
    for lp in ast.walk(fn_node):
        if not isinstance(lp, ast.For):
            continue
        it, tgt, ivar = lp.iter, lp.target, None
        if isinstance(it, ast.Call) and call_name(it) == "enumerate" and len(it.args) == 1 and isinstance(tgt, ast.Tuple) and len(tgt.elts) == 2 \
                and isinstance(tgt.elts[0], ast.Name) and all(k.arg == "start" and unparse(k.value) == "0" for k in it.keywords):
            it, tgt, ivar = it.args[0], tgt.elts[1], tgt.elts[0].id
        it = _resolve_local(fn_node, it)
        if not (isinstance(it, ast.Call) and call_name(it) == "zip" and len(it.args) == 4 and not it.keywords and isinstance(tgt, ast.Tuple)
                and len(tgt.elts) == 4 and all(isinstance(t, ast.Name) for t in tgt.elts)):
            continue
        ok = True
        for k, a in enumerate(it.args):
            a = _resolve_local(fn_node, a)
            ok = ok and isinstance(a, ast.Subscript) and isinstance(a.value, ast.Name) and a.value.id in byte_params and \
                isinstance(a.slice, ast.Slice) and a.slice.upper is None and unparse(a.slice.step or ast.Constant(value=1)) == "4" and \
                unparse(a.slice.lower or ast.Constant(value=0)) == str(k)
        if ok:
            return lp, ivar, [t.id for t in tgt.elts]
    return None


def _skip_test_on(fn_node, loop, names):
    """the `if T: continue` of the loop whose test mentions only ``names``: (If node, set of names required to be 0 for the skip) with
    the recognised forms `a == 0 and b == 0`, `not (a or b)`, `not a and not b`, `a == 0`, `not a`, `(a, b) == (0, 0)`."""
    def zeros(t):
        if isinstance(t, ast.BoolOp) and isinstance(t.op, ast.And):
            parts = [zeros(v) for v in t.values]
            return None if any(p is None for p in parts) else set().union(*parts)
        if isinstance(t, ast.Compare) and len(t.ops) == 1 and isinstance(t.ops[0], ast.Eq):
            l, r = t.left, t.comparators[0]
            if isinstance(l, ast.Name) and isinstance(r, ast.Constant) and r.value == 0 and not isinstance(r.value, bool):
                return {l.id}
            if isinstance(l, ast.Tuple) and isinstance(r, ast.Tuple) and len(l.elts) == len(r.elts) and all(isinstance(x, ast.Name) for x in l.elts) \
                    and all(isinstance(x, ast.Constant) and x.value == 0 for x in r.elts):
                return {x.id for x in l.elts}
        if isinstance(t, ast.UnaryOp) and isinstance(t.op, ast.Not):
            o = t.operand
            if isinstance(o, ast.Name):
                return {o.id}
            if isinstance(o, ast.BoolOp) and isinstance(o.op, ast.Or) and all(isinstance(v, ast.Name) for v in o.values):
                return {v.id for v in o.values}
        return None
    for st in loop.body:
        if isinstance(st, ast.If) and not st.orelse and len(st.body) == 1 and isinstance(st.body[0], ast.Continue):
            used = {x.id for x in ast.walk(st.test) if isinstance(x, ast.Name)}
            if used and used <= set(names):
                return st, zeros(st.test)
    return None, None


def rule_r2(ctx) -> List[R.Inst]:
    M = ctx.M
    rid = "C07.R2"
    insts = []
    # package header
    fn = _o2j_fn(ctx, PKG + ".read_event_packages")
    file = M.mods[fn.mod].rel
    want = {"measure": ("<i", 0, 4), "channel": ("<h", 4, 6), "event_count": ("<h", 6, 8)}
    got = {}

    def consts(e):
        """module-level constants replaced by their literal values"""
        import copy as _copy

        class T(ast.NodeTransformer):
            def visit_Name(self, n):
                try:
                    v = M.lit(fn.mod, n, fn.cls)
                except Exception:
                    return n
                return ast.copy_location(ast.Constant(value=v), n) if isinstance(v, (int, str, bytes)) else n
        return T().visit(_copy.deepcopy(e))

    def tname(t):
        return t.attr if isinstance(t, ast.Attribute) else (t.id if isinstance(t, ast.Name) else None)
    multi = None
    for n in ast.walk(fn.node):
        if isinstance(n, ast.Assign):
            t = n.targets[0]
            nm = tname(t)
            for c in ast.walk(n.value):
                if isinstance(c, ast.Call) and call_name(c) == "unpack" and len(c.args) == 2:
                    f0 = consts(c.args[0])
                    if not (isinstance(f0, ast.Constant) and isinstance(f0.value, str)):
                        continue
                    sl = [x for x in ast.walk(c.args[1]) if isinstance(x, ast.Subscript) and isinstance(x.slice, ast.Slice)]
                    if sl and isinstance(sl[0].slice.lower, ast.Constant) and isinstance(sl[0].slice.upper, ast.Constant) and nm:
                        got[nm] = (f0.value, sl[0].slice.lower.value, sl[0].slice.upper.value, n)
                    elif isinstance(t, ast.Tuple) and n.value is c and f0.value[:1] in "<>=!@" and len(f0.value) - 1 == len(t.elts) and \
                            all(ch in "xcbB?hHiIlLqQnNefdspP" for ch in f0.value[1:]):
                        # one unpack of the whole header: field k is the k-th format character, at the size of the characters before it
                        bo = f0.value[0]
                        for k, te in enumerate(t.elts):
                            try:
                                lo = struct.calcsize(bo + f0.value[1:1 + k])
                                hi = struct.calcsize(bo + f0.value[1:2 + k])
                            except struct.error:
                                continue
                            if tname(te):
                                got[tname(te)] = (bo + f0.value[1 + k], lo, hi, n)
                        multi = c
    for nm, w in want.items():
        key = f"package:{nm}"
        if nm not in got:
            insts.append(R.undec(rid, key, file, fn.node.lineno, f"unpack of package field '{nm}' not found"))
        elif got[nm][:3] == w:
            insts.append(R.ok(rid, key, file, got[nm][3].lineno, idiom=f"{w[0]} over bytes {w[1]}..{w[2]}"))
        else:
            insts.append(R.viol(rid, key, file, got[nm][3].lineno,
                                f"package field '{nm}' is {w[0]} over bytes {w[1]}..{w[2]} in the format; read as {got[nm][0]} over "
                                f"{got[nm][1]}..{got[nm][2]}", construct=unparse(got[nm][3])))
    # header is 8 bytes, events are 4 bytes each
    rng = {}
    for n in ast.walk(fn.node):
        if isinstance(n, ast.For) and isinstance(n.iter, ast.Call) and call_name(n.iter) == "range" and \
                any(isinstance(c, ast.Call) and call_name(c) == "popleft" for c in ast.walk(n)):
            tgt = [unparse(c.func.value.value if isinstance(c.func.value, ast.Attribute) else c.func.value)
                   for c in ast.walk(n) if isinstance(c, ast.Call) and call_name(c) == "append"]
            rng[tgt[0] if tgt else "?"] = (consts(n.iter.args[-1]), n)
    # comprehension form: bytes([q.popleft() for _ in range(N)]) assigned to a name, or handed to the header's unpack
    for n in ast.walk(fn.node):
        if isinstance(n, ast.Assign):
            for c in ast.walk(n.value):
                if isinstance(c, (ast.ListComp, ast.GeneratorExp)) and isinstance(c.elt, ast.Call) and call_name(c.elt) == "popleft" and \
                        len(c.generators) == 1 and isinstance(c.generators[0].iter, ast.Call) and call_name(c.generators[0].iter) == "range":
                    N_ = consts(c.generators[0].iter.args[-1])
                    in_hdr = multi is not None and any(x is c for x in ast.walk(multi))
                    sink = "pkg_data" if in_hdr else (tname(n.targets[0]) or "?")
                    rng.setdefault(sink, (N_, n))
    hp = rng.get("pkg_data")
    ep = rng.get("events_data")
    if hp and isinstance(hp[0], ast.Constant) and hp[0].value == 8:
        insts.append(R.ok(rid, "package:header-bytes", file, hp[1].lineno, idiom="8 header bytes consumed"))
    else:
        insts.append((R.viol if hp else R.undec)(rid, "package:header-bytes", file, (hp[1] if hp else fn.node).lineno,
                                                  "a package header is 8 bytes", construct=unparse(hp[0]) if hp else ""))
    if ep and sym.canon(ep[0]).same(sym.parse("4 * event_count")):
        insts.append(R.ok(rid, "package:event-bytes", file, ep[1].lineno, idiom="4 * event_count bytes consumed"))
    else:
        insts.append((R.viol if ep else R.undec)(rid, "package:event-bytes", file, (ep[1] if ep else fn.node).lineno,
                                                  "each event is 4 bytes: a package body is 4 * event_count bytes",
                                                  construct=unparse(ep[0]) if ep else ""))
    # note events
    nf = _o2j_fn(ctx, PKG + ".read_events_note")
    iv = None
    for n in walk_no_nested(nf.node):
        if isinstance(n, ast.For) and isinstance(n.target, ast.Name):
            iv = n.target.id
    spec = {"enabled": ("<h", "4*I", "4*I+2"), "volume_pan": ("<s", "4*I+2", "4*I+3"), "note_type": ("<c", "4*I+3", "4*I+4")}
    seen = {}
    for n in walk_no_nested(nf.node):
        if isinstance(n, ast.Assign) and isinstance(n.targets[0], ast.Name):
            for c in ast.walk(n.value):
                if isinstance(c, ast.Call) and call_name(c) == "unpack" and len(c.args) == 2 and isinstance(c.args[0], ast.Constant):
                    sl = [x for x in ast.walk(c.args[1]) if isinstance(x, ast.Subscript) and isinstance(x.slice, ast.Slice)]
                    if sl:
                        b = _slice_bounds(sl[0], iv)
                        if b:
                            seen[n.targets[0].id] = (c.args[0].value, b, n)
    iu, iu_var = _iter_unpack_fields(nf.node)
    for nm_, (f_, lo_, hi_, node_) in iu.items():
        seen.setdefault(nm_, (f_, (lo_, hi_), node_))
    for nm_, (f_, lo_, hi_, node_) in _unpack_from_fields(M, nf.mod, nf.node).items():
        seen.setdefault(nm_, (f_, (lo_, hi_), node_))
    if iu and iv is None or (iu and iu_var):
        iv = iu_var or iv
    f2 = M.mods[nf.mod].rel
    bc = _byte_columns(nf.node) if not seen else None
    vp_name = "volume_pan"
    for nm, (fmtc, lo, hi) in spec.items():
        key = f"note-event:{nm}"
        if bc is not None:
            # byte-column form: the loop target gives byte k of event i as an int, whatever the names
            lp_, _iv, bn = bc
            if nm == "enabled":
                tst, zs = _skip_test_on(nf.node, lp_, bn)
                if tst is None or zs is None:
                    insts.append(R.undec(rid, key, f2, lp_.lineno, "the test that skips a disabled event is not recognised over the byte columns"))
                elif zs == {bn[0], bn[1]}:
                    insts.append(R.ok(rid, key, f2, tst.lineno, idiom="disabled = both bytes of the <h at [4*I:4*I+2] are zero"))
                else:
                    insts.append(R.viol(rid, key, f2, tst.lineno,
                                        f"'enabled' is the <h over event bytes [4*I:4*I+2]: an event is disabled when bytes 0 and 1 are both "
                                        f"zero; the skip tests {sorted(zs)}", construct=unparse(tst.test)))
            else:
                k_ = 2 if nm == "volume_pan" else 3
                if nm == "volume_pan":
                    vp_name = bn[k_]
                insts.append(R.ok(rid, key, f2, lp_.lineno, idiom=f"byte {k_} of event I as an int (column data[{k_}::4])"))
            continue
        if nm not in seen:
            insts.append(R.undec(rid, key, f2, nf.node.lineno, f"unpack of '{nm}' not found"))
            continue
        g = seen[nm]
        L, H = sym.parse(lo.replace("I", iv or "i")), sym.parse(hi.replace("I", iv or "i"))
        # one unsigned byte read as a number ("<B") is what "<s" + int.from_bytes(.., "little") yields
        same_fmt = g[0] == fmtc or (fmtc == "<s" and g[0] == "<B")
        if same_fmt and g[1][0].same(L) and g[1][1].same(H):
            insts.append(R.ok(rid, key, f2, g[2].lineno, idiom=f"{fmtc} over [{lo}:{hi}]"))
        else:
            insts.append(R.viol(rid, key, f2, g[2].lineno,
                                f"'{nm}' is {fmtc} over event bytes [{lo}:{hi}] (I = event index); read as {g[0]} over "
                                f"[{unparse(g[2].value)[:80]}]", construct=unparse(g[2])[:160]))
    # volume / pan split
    vp = [n for n in walk_no_nested(nf.node) if isinstance(n, ast.Assign) and isinstance(n.targets[0], ast.Tuple) and
          [unparse(t) for t in n.targets[0].elts] == ["volume", "pan"]]
    if not vp:
        # the two halves assigned by two statements: volume = ..; pan = ..
        one = {t: [n for n in walk_no_nested(nf.node) if isinstance(n, ast.Assign) and len(n.targets) == 1 and unparse(n.targets[0]) == t] for t in ("volume", "pan")}
        if len(one["volume"]) == 1 and len(one["pan"]) == 1:
            a_, b_ = one["volume"][0], one["pan"][0]
            vp = [ast.copy_location(ast.Assign(targets=[ast.Tuple(elts=[a_.targets[0], b_.targets[0]], ctx=ast.Store())],
                                               value=ast.Tuple(elts=[a_.value, b_.value], ctx=ast.Load())), a_)]

    def _nibbles(v):
        if isinstance(v, ast.Tuple) and len(v.elts) == 2:
            return unparse(v.elts[0]) in (f"{vp_name} // 16", f"{vp_name} >> 4") and \
                unparse(v.elts[1]) in (f"{vp_name} % 16", f"{vp_name} & 15")
        return unparse(v) == f"divmod({vp_name}, 16)"
    if len(vp) == 1 and _nibbles(vp[0].value):
        insts.append(R.ok(rid, "note-event:volume/pan", f2, vp[0].lineno, idiom="high nibble volume, low nibble pan"))
    else:
        insts.append((R.viol if vp else R.undec)(rid, "note-event:volume/pan", f2, (vp[0] if vp else nf.node).lineno,
                                                  "byte 2 of a note event is volume (high nibble) and pan (low nibble)",
                                                  construct=unparse(vp[0]) if vp else ""))
    # tempo events
    bf = _o2j_fn(ctx, PKG + ".read_events_bpm")
    f3 = M.mods[bf.mod].rel
    iv2 = None
    for n in walk_no_nested(bf.node):
        if isinstance(n, ast.For) and isinstance(n.target, ast.Name):
            iv2 = n.target.id
    tb = None
    for n in walk_no_nested(bf.node):
        if isinstance(n, ast.Call) and call_name(n) == "unpack" and len(n.args) == 2 and isinstance(n.args[0], ast.Constant):
            sl = [x for x in ast.walk(n.args[1]) if isinstance(x, ast.Subscript) and isinstance(x.slice, ast.Slice)]
            if sl:
                tb = (n.args[0].value, _slice_bounds(sl[0], iv2), n)
    if tb is None:
        iu2, iu2_var = _iter_unpack_fields(bf.node)
        if len(iu2) == 1:
            (f_, lo_, hi_, node_), = iu2.values()
            tb, iv2 = (f_, (lo_, hi_), node_), iu2_var
    if tb and tb[1] and tb[0] == "<f" and tb[1][0].same(sym.parse(f"4*{iv2}")) and tb[1][1].same(sym.parse(f"4*{iv2}+4")):
        insts.append(R.ok(rid, "tempo-event", f3, tb[2].lineno, idiom="<f over [4i:4i+4]"))
    else:
        insts.append((R.viol if tb else R.undec)(rid, "tempo-event", f3, (tb[2] if tb else bf.node).lineno,
                                                  "a tempo event is a little-endian float over the 4 bytes of event i",
                                                  construct=unparse(tb[2]) if tb else ""))
    return insts


# --------------------------------------------------------------------------- R3
def rule_r3(ctx) -> List[R.Inst]:
    M = ctx.M
    rid = "C07.R3"
    insts = []
    file = M.mods[M.cls(CHAN).mod].rel
    line = M.cls(CHAN).node.lineno
    col_range = M.class_const(CHAN, "COL_RANGE")
    bpm_ch = M.class_const(CHAN, "BPM_CHANGE")
    frac_ch = M.class_const(CHAN, "MEASURE_FRACTION")
    if isinstance(col_range, range) and (col_range.start, col_range.stop, col_range.step) == (2, 9, 1):
        insts.append(R.ok(rid, "channels:columns", file, line, idiom="note channels 2..8 (seven columns)"))
    else:
        insts.append(R.viol(rid, "channels:columns", file, line, f"OJN note channels are 2..8; COL_RANGE = {col_range!r}",
                            construct=f"COL_RANGE={col_range!r}"))
    insts.append(R.ok(rid, "channels:tempo", file, line, idiom="tempo channel 1, measure-fraction channel 0")
                 if (bpm_ch, frac_ch) == (1, 0) else
                 R.viol(rid, "channels:tempo", file, line,
                        f"OJN tempo channel is 1 and measure-fraction channel 0; found {bpm_ch} / {frac_ch}",
                        construct=f"BPM_CHANGE={bpm_ch}, MEASURE_FRACTION={frac_ch}"))
    # dispatch in read_event_packages: COL_RANGE -> notes with column = channel - COL_RANGE.start; BPM_CHANGE -> tempo
    fn = _o2j_fn(ctx, PKG + ".read_event_packages")
    f2 = M.mods[fn.mod].rel
    calls = {call_name(n): n for n in ast.walk(fn.node) if isinstance(n, ast.Call) and call_name(n) in
             ("read_events_note", "read_events_bpm")}
    guards = {}
    for n in ast.walk(fn.node):
        if isinstance(n, ast.If):
            for c in n.body:
                for x in ast.walk(c):
                    if isinstance(x, ast.Call) and call_name(x) in calls and call_name(x) not in guards:
                        guards[call_name(x)] = n.test
    g = guards.get("read_events_note")
    c = calls.get("read_events_note")
    if g is None or c is None:
        insts.append(R.undec(rid, "dispatch:notes", f2, fn.node.lineno, "note dispatch not found"))
    else:
        in_range = isinstance(g, ast.Compare) and isinstance(g.ops[0], ast.In) and unparse(g.comparators[0]).endswith("COL_RANGE") \
            and unparse(g.left) == "pkg.channel"
        col = c.args[1] if len(c.args) > 1 else next((k.value for k in c.keywords if k.arg == "column"), None)
        start = col_range.start if isinstance(col_range, range) else None

        def leaf(n):
            t = unparse(n)
            if t == "pkg.channel":
                return "CH"
            if t.endswith("COL_RANGE.start") or t.endswith("COL_1"):
                return sym.RF({(): __import__("fractions").Fraction(start if t.endswith("start") else M.class_const(CHAN, "COL_1"))})
            return None
        col_ok = col is not None and start is not None and sym.canon(col, leaf).same(sym.parse(f"CH - {start}"))
        if in_range and col_ok:
            insts.append(R.ok(rid, "dispatch:notes", f2, c.lineno, idiom=f"channel in COL_RANGE -> column = channel - {start}"))
        elif not col_ok and col is not None:
            insts.append(R.viol(rid, "dispatch:notes", f2, c.lineno,
                                f"the column of a note channel is channel - {start} (first note channel -> column 0); found "
                                f"{unparse(col)}", construct=unparse(col)))
        else:
            insts.append(R.viol(rid, "dispatch:notes", f2, c.lineno, f"note packages are selected by '{unparse(g)}', not by "
                                                                    f"membership in COL_RANGE", construct=unparse(g)))
    g = guards.get("read_events_bpm")
    if g is not None and isinstance(g, ast.Compare) and isinstance(g.ops[0], ast.Eq) and \
            unparse(g.comparators[0]).endswith("BPM_CHANGE") and unparse(g.left) == "pkg.channel":
        insts.append(R.ok(rid, "dispatch:tempo", f2, calls["read_events_bpm"].lineno, idiom="channel == BPM_CHANGE -> tempo events"))
    else:
        insts.append((R.viol if g is not None else R.undec)(rid, "dispatch:tempo", f2, fn.node.lineno,
                                                             "tempo packages must be selected by channel == BPM_CHANGE",
                                                             construct=unparse(g) if g is not None else ""))
    # note types
    types = {k: M.class_const(CONST, k) for k in ("HIT_BYTES", "HOLD_HEAD_BYTES", "HOLD_TAIL_BYTES")}
    want = {"HIT_BYTES": b"\x00", "HOLD_HEAD_BYTES": b"\x02", "HOLD_TAIL_BYTES": b"\x03"}
    f3 = M.mods[M.cls(CONST).mod].rel
    insts.append(R.ok(rid, "note-types", f3, M.cls(CONST).node.lineno, idiom="0 hit, 2 hold head, 3 hold tail")
                 if types == want else
                 R.viol(rid, "note-types", f3, M.cls(CONST).node.lineno,
                        f"OJN note types are 0 (normal), 2 (long-note head), 3 (long-note tail); found {types}", construct=repr(types)))
    # branches of read_events_note use each constant once, in the right role
    nf = _o2j_fn(ctx, PKG + ".read_events_note")
    roles = {}
    bc = _byte_columns(nf.node)
    nt_name = bc[2][3] if bc is not None else "note_type"
    # the kind of value the type field holds: a length-1 bytes (unpack "<c") or an int (a byte column / "<B")
    nt_kind = "int" if bc is not None else None
    if nt_kind is None:
        fmts = {c.args[0].value for d in local_defs(nf.node, "note_type") for c in ast.walk(d)
                if isinstance(c, ast.Call) and call_name(c) in ("unpack", "unpack_from") and c.args and isinstance(c.args[0], ast.Constant)}
        fmts |= {f for nm_, (f, _lo, _hi, _n) in list(_iter_unpack_fields(nf.node)[0].items()) + list(_unpack_from_fields(M, nf.mod, nf.node).items())
                 if nm_ == "note_type"}
        kinds = {"bytes" if f[-1:] in "cs" else "int" for f in fmts}
        nt_kind = kinds.pop() if len(kinds) == 1 else None
    mism = []
    for n in walk_no_nested(nf.node):
        if isinstance(n, ast.If) and isinstance(n.test, ast.Compare) and unparse(n.test.left) == nt_name and \
                isinstance(n.test.ops[0], ast.Eq):
            cmp_ = _resolve_local(nf.node, n.test.comparators[0])
            ckind = "bytes"
            if isinstance(cmp_, ast.Subscript) and isinstance(cmp_.slice, ast.Constant) and cmp_.slice.value in (0, -1):
                cmp_, ckind = cmp_.value, "int"
            elif isinstance(cmp_, ast.Call) and call_name(cmp_) == "ord" and len(cmp_.args) == 1:
                cmp_, ckind = cmp_.args[0], "int"
            if nt_kind is not None and ckind != nt_kind:
                mism.append((n, ckind))
            cname = unparse(cmp_).split(".")[-1]
            body_calls = {call_name(x) for s in n.body for x in ast.walk(s) if isinstance(x, ast.Call)}
            pops = any(call_name(x) == "pop" for s in n.body for x in ast.walk(s) if isinstance(x, ast.Call))
            stores = any(isinstance(x, ast.Assign) and isinstance(x.targets[0], ast.Subscript) for s in n.body for x in ast.walk(s))
            roles[cname] = "tail" if pops else ("head" if stores and "O2JHold" in body_calls else
                                                ("hit" if "O2JHit" in body_calls else "?"))
    want_roles = {"HIT_BYTES": "hit", "HOLD_HEAD_BYTES": "head", "HOLD_TAIL_BYTES": "tail"}
    if mism:
        n_, ck = mism[0]
        return insts + [R.viol(rid, "note-type-branches", M.mods[nf.mod].rel, n_.lineno,
                               f"the type field is read as {'an int' if nt_kind == 'int' else 'a one-byte bytes'} but compared with "
                               f"{'an int' if ck == 'int' else 'a bytes constant'}: the two are never equal, no note is ever produced",
                               construct=unparse(n_.test))]
    insts.append(R.ok(rid, "note-type-branches", f3, nf.node.lineno, idiom="hit / head / tail branches keyed by their own constant")
                 if roles == want_roles else
                 R.viol(rid, "note-type-branches", f3, nf.node.lineno,
                        f"note-type branches do {roles}; expected {want_roles}", construct=repr(roles)))
    return insts


# --------------------------------------------------------------------------- R4
def rule_r4(ctx) -> List[R.Inst]:
    M = ctx.M
    rid = "C07.R4"
    nf = _o2j_fn(ctx, PKG + ".read_events_note")
    file = M.mods[nf.mod].rel
    buf = [p for p in params_of(nf.node) if "buffer" in p]
    if len(buf) != 1:
        return [R.undec(rid, "hold-buffer", file, nf.node.lineno, "hold buffer parameter not found")]
    b = buf[0]
    stores = [n for n in walk_no_nested(nf.node) if isinstance(n, ast.Assign) and isinstance(n.targets[0], ast.Subscript) and
              unparse(n.targets[0].value) == b]
    pops = [n for n in walk_no_nested(nf.node) if isinstance(n, ast.Call) and call_name(n) == "pop" and unparse(n.func.value) == b]
    insts = []
    if len(stores) == 1 and len(pops) == 1:
        ks, kp = unparse(stores[0].targets[0].slice), unparse(pops[0].args[0]) if pops[0].args else "?"
        if ks == kp == "column":
            insts.append(R.ok(rid, "hold-buffer:key", file, stores[0].lineno, idiom="head stored under and tail popped from buffer[column]"))
        else:
            insts.append(R.viol(rid, "hold-buffer:key", file, pops[0].lineno,
                                f"a long-note head is stored under '{ks}' but its tail pops '{kp}': head and tail of one column "
                                f"no longer pair", construct=f"store[{ks}] / pop({kp})"))
        # the popped hold gets the tail position and is emitted
        tgt = None
        for n in walk_no_nested(nf.node):
            if isinstance(n, ast.Assign) and n.value is pops[0] and isinstance(n.targets[0], ast.Name):
                tgt = n.targets[0].id
        tail_set = [n for n in walk_no_nested(nf.node) if isinstance(n, ast.Assign) and isinstance(n.targets[0], ast.Attribute)
                    and n.targets[0].attr == "tail_measure" and unparse(n.targets[0].value) == tgt]
        if tgt and len(tail_set) == 1 and unparse(tail_set[0].value) == "sub_measure":
            insts.append(R.ok(rid, "hold-buffer:tail", file, tail_set[0].lineno, idiom="popped head receives the tail's position"))
        else:
            insts.append(R.viol(rid, "hold-buffer:tail", file, pops[0].lineno,
                                "the popped head must receive the position of the tail event (tail_measure = sub_measure)",
                                construct="; ".join(unparse(t) for t in tail_set) or "no tail_measure assignment"))
    else:
        insts.append(R.undec(rid, "hold-buffer:key", file, nf.node.lineno, f"{len(stores)} stores / {len(pops)} pops on the hold buffer"))
    # the buffer outlives a package: created outside the package loop, passed to every call
    fn = _o2j_fn(ctx, PKG + ".read_event_packages")
    created = [n for n in fn.node.body if isinstance(n, (ast.Assign, ast.AnnAssign)) and
               unparse(n.targets[0] if isinstance(n, ast.Assign) else n.target) == "hold_buffer"]
    inner = [n for n in ast.walk(fn.node) if isinstance(n, (ast.For, ast.While)) for s in ast.walk(n)
             if s is not n and isinstance(s, (ast.Assign, ast.AnnAssign)) and
             unparse(s.targets[0] if isinstance(s, ast.Assign) else s.target) == "hold_buffer"]
    if created and not inner:
        insts.append(R.ok(rid, "hold-buffer:lifetime", file, created[0].lineno, idiom="one buffer for all packages (long notes span packages)"))
    else:
        insts.append(R.viol(rid, "hold-buffer:lifetime", file, (inner[0] if inner else fn.node).lineno,
                            "the hold buffer is re-created per package/level: a long note whose tail is in a later package loses its head",
                            construct="hold_buffer created inside a loop" if inner else "hold_buffer not created"))
    return insts


# --------------------------------------------------------------------------- R5
def rule_r5(ctx) -> List[R.Inst]:
    M = ctx.M
    rid = "C07.R5"
    insts = []
    for meth, var in (("read_events_note", "sub_measure"), ("read_events_bpm", None)):
        fn = _o2j_fn(ctx, f"{PKG}.{meth}")
        file = M.mods[fn.mod].rel
        iv = next((n.target.id for n in walk_no_nested(fn.node) if isinstance(n, ast.For) and isinstance(n.target, ast.Name)), "i")
        ec = local_defs(fn.node, "event_count")
        key = f"{meth}:position"
        exprs = []
        if var:
            exprs = local_defs(fn.node, var)
        else:
            exprs = [n.value for n in walk_no_nested(fn.node) if isinstance(n, ast.Assign) and
                     isinstance(n.targets[0], ast.Attribute) and n.targets[0].attr == "measure"]
        if len(exprs) != 1 or len(ec) != 1:
            insts.append(R.undec(rid, key, file, fn.node.lineno, "position expression / event_count not found"))
            continue
        ec_ok = unparse(ec[0]) in ("len(data) // 4",)
        f_ok = sym.same_formula(exprs[0], f"curr_measure + {iv} / event_count")
        snapped = [c for c in ast.walk(exprs[0]) if isinstance(c, ast.Call) and call_name(c) in ("round", "int", "floor", "ceil", "trunc")]
        if snapped:
            insts.append(R.viol(rid, key, file, exprs[0].lineno,
                                f"the slot position is rounded ('{unparse(snapped[0])[:60]}'): event i of n sits exactly at measure + i/n; "
                                f"snapping to a fixed grid moves every package whose slot count does not divide that grid (5, 7, 10, 20 …)",
                                construct=unparse(exprs[0])))
        elif ec_ok and f_ok:
            insts.append(R.ok(rid, key, file, exprs[0].lineno, idiom="measure + slot / slots, slots = bytes // 4"))
        elif not f_ok and sym.only_modelled(exprs[0], {"curr_measure", iv, "event_count"}):
            insts.append(R.viol(rid, key, file, exprs[0].lineno,
                                "event i of n sits at measure + i/n; the formula here is different", construct=unparse(exprs[0])))
        elif not ec_ok:
            insts.append(R.viol(rid, key, file, ec[0].lineno, "the slot count of a package is its byte length // 4",
                                construct=unparse(ec[0])))
        else:
            insts.append(R.undec(rid, key, file, exprs[0].lineno, "position formula not recognised"))
        # loop enumerates every slot from 0
        loops = [n for n in walk_no_nested(fn.node) if isinstance(n, ast.For) and isinstance(n.iter, ast.Call) and
                 call_name(n.iter) == "range"]
        iu, iu_var = _iter_unpack_fields(fn.node)
        # the slot number counted AFTER events were dropped: enumerate(<filtered>) numbers the kept events 0, 1, 2 …, not their slots
        late = None
        for lp_ in walk_no_nested(fn.node):
            if isinstance(lp_, ast.For) and isinstance(lp_.iter, ast.Call) and call_name(lp_.iter) == "enumerate" and lp_.iter.args and \
                    isinstance(lp_.target, ast.Tuple) and isinstance(lp_.target.elts[0], ast.Name) and lp_.target.elts[0].id == iv:
                src_ = _resolve_local(fn.node, lp_.iter.args[0])
                if (isinstance(src_, (ast.ListComp, ast.GeneratorExp)) and any(g.ifs for g in src_.generators)) or \
                        (isinstance(src_, ast.Call) and call_name(src_) in ("filter", "filterfalse", "compress", "takewhile", "dropwhile")):
                    late = (lp_, src_)
        if late is not None:
            insts.append(R.viol(rid, f"{meth}:slots", file, late[0].lineno,
                                f"the slot number '{iv}' is counted by enumerate() over events that were already filtered "
                                f"('{unparse(late[1])[:70]}'): after a dropped event every later one is numbered one slot early and lands at the "
                                f"wrong place of the measure", construct=f"enumerate after filter: {unparse(late[1])[:100]}"))
        elif len(loops) == 1 and len(loops[0].iter.args) == 1 and unparse(loops[0].iter.args[0]) == "event_count":
            insts.append(R.ok(rid, f"{meth}:slots", file, loops[0].lineno, idiom="for i in range(event_count)"))
        elif not loops and _byte_columns(fn.node) is not None and _byte_columns(fn.node)[1] == iv:
            insts.append(R.ok(rid, f"{meth}:slots", file, _byte_columns(fn.node)[0].lineno,
                              idiom="enumerate over the four byte columns: len(data) // 4 complete events, from 0"))
        elif iu and not loops:
            # enumerate(iter_unpack(fmt, data[: event_count * size])): records 0 .. event_count - 1, counted from 0
            lp_ = next(iter(iu.values()))[3]
            en = lp_.iter
            src = _resolve_local(fn.node, en.args[0])
            sl_ = src.args[1] if isinstance(src, ast.Call) and len(src.args) == 2 else None
            whole = isinstance(sl_, ast.Subscript) and isinstance(sl_.slice, ast.Slice) and sl_.slice.lower is None and sl_.slice.upper is not None and \
                sym.same_formula(sl_.slice.upper, "event_count * 4") and len(en.args) == 1 and not en.keywords
            insts.append(R.ok(rid, f"{meth}:slots", file, lp_.lineno, idiom="enumerate over the event_count 4-byte records, from 0") if whole else
                         R.undec(rid, f"{meth}:slots", file, lp_.lineno, "extent / start of the enumerated records not recognised"))
        elif loops:
            insts.append(R.viol(rid, f"{meth}:slots", file, loops[0].lineno,
                                "every slot 0..n-1 of a package must be visited", construct=unparse(loops[0].iter)))
        else:
            insts.append(R.undec(rid, f"{meth}:slots", file, fn.node.lineno, "how the slots of a package are enumerated was not recognised"))
    return insts


# --------------------------------------------------------------------------- R6
def rule_r6(ctx) -> List[R.Inst]:
    """Engler contradiction: a variable that may be None / falsy is ordered inside a branch guarded by its own falsiness."""
    M = ctx.M
    rid = "C07.R6"
    fn = _o2j_fn(ctx, MAP + ".read_pkgs", closures=True)
    file = M.mods[fn.mod].rel
    none_vars = set()
    for n in walk_no_nested(fn.node):
        if isinstance(n, ast.Assign) and isinstance(n.targets[0], ast.Name):
            if any(isinstance(x, ast.Constant) and x.value is None for x in
                   ([n.value] + ([n.value.body, n.value.orelse] if isinstance(n.value, ast.IfExp) else []))):
                none_vars.add(n.targets[0].id)
    insts = []
    for n in walk_no_nested(fn.node):
        if isinstance(n, ast.If) and isinstance(n.test, ast.UnaryOp) and isinstance(n.test.op, ast.Not) and \
                isinstance(n.test.operand, ast.Name) and n.test.operand.id in none_vars:
            v = n.test.operand.id
            for c in [x for s in n.body for x in ast.walk(s)]:
                if isinstance(c, ast.Compare) and isinstance(c.ops[0], (ast.Gt, ast.GtE, ast.Lt, ast.LtE)) and \
                        any(isinstance(o, ast.Name) and o.id == v for o in [c.left] + c.comparators):
                    insts.append(R.viol(rid, f"read_pkgs:{v}", file, c.lineno,
                                        f"'{v}' is None when no tempo event is left, yet it is ordered ('{unparse(c)}') inside the "
                                        f"branch taken exactly when it is None/0: TypeError without tempo packages, and tempo events "
                                        f"after measure 0 are never applied", construct=f"if not {v}: ... {unparse(c)}"))
                    break
    if not insts:
        if none_vars:
            insts.append(R.ok(rid, "read_pkgs:none-guard", file, fn.node.lineno,
                              idiom=f"no ordering comparison of {sorted(none_vars)} under its own falsiness"))
        else:
            insts.append(R.ok(rid, "read_pkgs:none-guard", file, fn.node.lineno, idiom="no None-able cursor variable"))
    return insts


# --------------------------------------------------------------------------- R7
def rule_r7(ctx) -> List[R.Inst]:
    M = ctx.M
    rid = "C07.R7"
    insts = []
    rd = M.fn(MAPSET + ".read")
    file = M.mods[rd.mod].rel
    # packages read from b[300:] with the header's package counts
    call = next((n for n in walk_no_nested(rd.node) if isinstance(n, ast.Call) and call_name(n) == "read_event_packages"), None)
    if call is None or len(call.args) < 2:
        insts.append(R.undec(rid, "levels:source", file, rd.node.lineno, "call to read_event_packages not found"))
    else:
        a0, a1 = call.args[0], call.args[1]
        lo = a0.slice.lower.value if isinstance(a0, ast.Subscript) and isinstance(a0.slice, ast.Slice) and \
            isinstance(a0.slice.lower, ast.Constant) and a0.slice.upper is None else None
        if lo == 300 and unparse(a1).endswith(".package_count"):
            insts.append(R.ok(rid, "levels:source", file, call.lineno, idiom="b[300:] with the header's package_count"))
        else:
            insts.append(R.viol(rid, "levels:source", file, call.lineno,
                                f"package data start right after the 300-byte header and are counted by package_count; found "
                                f"{unparse(a0)}, {unparse(a1)}", construct=unparse(call)))
    loops = [n for n in walk_no_nested(rd.node) if isinstance(n, ast.For)]
    good = False
    for lp in loops:
        apps = [c for c in ast.walk(lp) if isinstance(c, ast.Call) and call_name(c) == "append" and unparse(c.func.value).endswith(".maps")]
        conds = [c for c in ast.walk(lp) if isinstance(c, (ast.If, ast.Break, ast.Continue))]
        if len(apps) == 1 and not conds and isinstance(apps[0].args[0], ast.Call) and call_name(apps[0].args[0]) == "read_pkgs":
            rp = apps[0].args[0]
            kw = {k.arg: k.value for k in rp.keywords}
            pk = kw.get("pkgs", rp.args[0] if rp.args else None)
            ib = kw.get("init_bpm", rp.args[1] if len(rp.args) > 1 else None)
            if pk is not None and unparse(pk) == unparse(lp.target) and ib is not None and unparse(ib).endswith(".bpm"):
                good = True
                insts.append(R.ok(rid, "levels:one-chart-each", file, lp.lineno, idiom="one read_pkgs(level packages, header bpm) appended per level"))
            else:
                insts.append(R.viol(rid, "levels:one-chart-each", file, rp.lineno,
                                    f"each level must be read from its own packages with the header tempo: read_pkgs({unparse(pk) if pk is not None else '?'}, "
                                    f"{unparse(ib) if ib is not None else '?'})", construct=unparse(rp)))
                good = True
    if not good:
        insts.append(R.viol(rid, "levels:one-chart-each", file, rd.node.lineno,
                            "not every difficulty's packages become a chart (filtered, conditional or missing append)",
                            construct="O2JMapSet.read level loop"))
    # read_event_packages: one list per level count
    fn = _o2j_fn(ctx, PKG + ".read_event_packages")
    f2 = M.mods[fn.mod].rel
    outer = [n for n in fn.node.body if isinstance(n, ast.For)]
    from .c17 import _branch_paths
    skipping = []
    if len(outer) == 1:
        # only the top-level statements of the per-level body matter: an early continue/break/return there skips the append
        for cond, stmts, ex in _branch_paths([st for st in outer[0].body if not isinstance(st, (ast.For, ast.While))]):
            n_app = sum(1 for st in stmts for x in ast.walk(st) if isinstance(x, ast.Call) and call_name(x) == "append" and
                        unparse(x.func.value) == "lvls")
            if n_app != 1:
                skipping.append((cond, ex, n_app))
    if len(outer) == 1 and skipping:
        cond, ex, n_app = skipping[0]
        ctxt = " and ".join(("" if pol else "not ") + f"({unparse(t)})" for t, pol in cond) or "always"
        insts.append(R.viol(rid, "levels:split", f2, outer[0].lineno,
                            f"on the path [{ctxt}] a difficulty contributes {n_app} package lists (exit: {ex}): the mapset then has "
                            f"fewer than three charts and the later difficulties take the wrong slot (level name, index)",
                            construct=f"level loop: {ctxt} -> {n_app} appends"))
    elif len(outer) == 1 and unparse(outer[0].iter) == "lvl_pkg_counts" and \
            isinstance(outer[0].body[-1], ast.Expr) and unparse(outer[0].body[-1].value).startswith("lvls.append("):
        insts.append(R.ok(rid, "levels:split", f2, outer[0].lineno, idiom="one package list appended per level count"))
    else:
        insts.append(R.viol(rid, "levels:split", f2, fn.node.lineno, "packages are not split into one list per level count",
                            construct="read_event_packages level loop"))
    return insts


# --------------------------------------------------------------------------- R8
def rule_r8(ctx) -> List[R.Inst]:
    """read_pkgs: offsets come from the measure table; formula shapes; header tempo first"""
    M = ctx.M
    rid = "C07.R8"
    fn = _o2j_fn(ctx, MAP + ".read_pkgs", closures=True)
    file = M.mods[fn.mod].rel
    insts = []
    # (a) integration steps have shape 4 * d(measure) / bpm minutes
    steps = [n for n in ast.walk(fn.node) if isinstance(n, ast.Call) and call_name(n) == "min_to_msec" and n.args]

    tl0 = _merged_timeline(fn)
    posvars = {"note_measure"} | ({tl0["loop"].target.elts[0].id} if tl0 is not None and isinstance(tl0["loop"].target.elts[0], ast.Name) else set())

    def leaf(n):
        t = unparse(n)
        if t == "bpm.measure" or t in posvars:
            return "M1"
        if t == "measure":
            return "M0"
        if t == "bpm_val":
            return "BPM"
        return None
    spec = sym.parse("4 * (M1 - M0) / BPM")
    for i, s in enumerate(steps):
        key = f"integration-step@{i}"
        r = sym.canon(s.args[0], leaf)
        if r.same(spec):
            insts.append(R.ok(rid, key, file, s.lineno, idiom="minutes = 4 beats * measures / bpm"))
        elif r.symbols() <= {"M1", "M0", "BPM"}:
            insts.append(R.viol(rid, key, file, s.lineno,
                                "elapsed minutes over a segment are 4 * (measure difference) / bpm (4 beats per measure)",
                                construct=unparse(s)))
        else:
            insts.append(R.undec(rid, key, file, s.lineno, "integration step not recognised"))
    if len(steps) < 2:
        insts.append(R.undec(rid, "integration-steps", file, fn.node.lineno, f"{len(steps)} integration steps found, expected 2"))
    mm = M.fn("reamber.base.RAConst.RAConst.min_to_msec")
    ret = [n for n in walk_no_nested(mm.node) if isinstance(n, ast.Return)]
    p = params_of(mm.node)[0]

    def leaf2(n):
        if isinstance(n, ast.Attribute):
            try:
                v = M.lit(mm.mod, n, "reamber.base.RAConst.RAConst")
                return sym.RF(sym._const(v))
            except Exception:
                return None
        return None
    if ret and sym.canon(ret[0].value, leaf2).same(sym.parse(f"{p} * 60000")):
        insts.append(R.ok(rid, "min_to_msec", M.mods[mm.mod].rel, mm.node.lineno, idiom="minutes * 60000"))
    else:
        insts.append(R.viol(rid, "min_to_msec", M.mods[mm.mod].rel, mm.node.lineno, "min_to_msec must multiply by 60000",
                            construct=unparse(ret[0]) if ret else ""))
    # (a2) the sweep's cursor (offset, measure, bpm) advances as one: every path that consumes a tempo event sets all three
    from .c17 import _branch_paths
    tl_ = _merged_timeline(fn)
    if tl_ is not None:
        bad = []
        for cond, stmts, ex in _branch_paths(tl_["cons_body"]):
            assigned = {nm.id for st in stmts for x in ast.walk(st) if isinstance(x, (ast.Assign, ast.AugAssign))
                        for t in (x.targets if isinstance(x, ast.Assign) else [x.target]) for nm in ast.walk(t) if isinstance(nm, ast.Name)}
            if not {"offset", "measure", "bpm_val"} <= assigned:
                bad.append(sorted({"offset", "measure", "bpm_val"} - assigned))
        insts.append(R.viol(rid, "sweep-cursor", file, tl_["loop"].lineno,
                            f"the tempo-event branch consumes an event but {bad[0]} stay(s) behind: the next segment is integrated from the "
                            f"wrong position/tempo", construct=f"timeline branch: {bad[0]} not updated") if bad else
                     R.ok(rid, "sweep-cursor", file, tl_["loop"].lineno, idiom="offset, measure and bpm are updated together in the tempo-event branch"))
    allwh = [n for n in ast.walk(fn.node) if isinstance(n, ast.While)]
    # the sweep loop: the while nested in the loop over the note positions (a second, top-level `while <queue>:` drains the rest)
    whiles = [w for w in allwh if any(isinstance(f, ast.For) and any(x is w for x in ast.walk(f)) for f in fn.node.body)] or allwh
    if len(whiles) == 1 and "bpms" not in unparse(whiles[0].test):
        # the inner loop does not walk the tempo events (it is the NOTES that are consumed inside a loop over the events): another
        # arrangement of the merge, not read here
        insts.append(R.undec(rid, "sweep-cursor", file, whiles[0].lineno,
                             "the inner sweep loop does not advance over the tempo events: this arrangement of the merge is not decided"))
    elif len(whiles) == 1:
        bad = []
        for cond, stmts, ex in [p_ for w_ in ([whiles[0]] + [w for w in allwh if w is not whiles[0]]) for p_ in _branch_paths(w_.body)]:
            assigned = set()
            consumed = False
            for st in stmts:
                for x in ast.walk(st):
                    if isinstance(x, ast.AugAssign) and isinstance(x.target, ast.Name):
                        assigned.add(x.target.id)
                        if x.target.id == "bpm_ix":
                            consumed = True
                    if isinstance(x, ast.Call) and call_name(x) in ("popleft", "pop") and isinstance(x.func, ast.Attribute):
                        consumed = True        # queue form: taking the next event off the queue consumes it
                    if isinstance(x, ast.Assign):
                        for t in x.targets:
                            for nm in ast.walk(t):
                                if isinstance(nm, ast.Name):
                                    assigned.add(nm.id)
            if consumed and not {"offset", "measure", "bpm_val"} <= assigned:
                bad.append((cond, sorted({"offset", "measure", "bpm_val"} - assigned)))
        if bad:
            cond, miss = bad[0]
            ctxt = " and ".join(("" if pol else "not ") + f"({unparse(t)})" for t, pol in cond) or "always"
            insts.append(R.viol(rid, "sweep-cursor", file, whiles[0].lineno,
                                f"on the path [{ctxt}] a tempo event is consumed (time advanced) but {miss} stay(s) behind: the next "
                                f"segment is integrated from the wrong position/tempo", construct=f"sweep path {ctxt}: {miss} not updated"))
        else:
            insts.append(R.ok(rid, "sweep-cursor", file, whiles[0].lineno, idiom="offset, measure and bpm are updated together on every consuming path"))
    elif tl_ is None:
        an_ = _anchor_insts(fn, rid, file, "cursor")
        if an_ is not None:
            insts.extend(an_)
        else:
            insts.append(R.undec(rid, "sweep-cursor", file, fn.node.lineno, f"{len(whiles)} sweep loops found"))
    # (b) notes take offset = table[measure], length = table[tail_measure] - offset
    asg = {}
    for n in ast.walk(fn.node):
        if isinstance(n, ast.Assign) and isinstance(n.targets[0], ast.Attribute) and unparse(n.targets[0].value) == "note":
            asg[n.targets[0].attr] = n
    o, l = asg.get("offset"), asg.get("length")
    if o is not None and unparse(o.value) == "note_measure_dict[note.measure]":
        insts.append(R.ok(rid, "note.offset", file, o.lineno, idiom="offset = table[note.measure]"))
    else:
        insts.append(R.viol(rid, "note.offset", file, (o or fn.node).lineno, "a note's time is the table entry of its own measure position",
                            construct=unparse(o) if o is not None else "no assignment"))
    if l is not None and sym.canon(l.value, lambda n: {"note_measure_dict[note.tail_measure]": "T", "note.offset": "O",
                                                       "note_measure_dict[note.measure]": "O"}.get(unparse(n))).same(sym.parse("T - O")):
        insts.append(R.ok(rid, "hold.length", file, l.lineno, idiom="length = table[tail_measure] - offset"))
    else:
        insts.append(R.viol(rid, "hold.length", file, (l or fn.node).lineno,
                            "a long note's length is table[tail position] - its own start time",
                            construct=unparse(l) if l is not None else "no assignment"))
    # (c) the table covers heads and tails
    nm = local_defs(fn.node, "note_measures")
    txt = " ".join(unparse(x) for x in nm)
    if "note.measure" in txt and "note.tail_measure" in txt:
        insts.append(R.ok(rid, "measure-table:domain", file, nm[0].lineno, idiom="table keyed by every head and tail position"))
    else:
        insts.append(R.viol(rid, "measure-table:domain", file, fn.node.lineno,
                            "the measure->time table must contain every note position and every long-note tail position",
                            construct=txt[:160]))
    # (d) the header tempo is the first tempo point at 0
    ins = [n for n in walk_no_nested(fn.node) if isinstance(n, ast.Call) and call_name(n) == "insert" and unparse(n.func.value) == "bpms"]
    good = False
    if len(ins) == 1 and len(ins[0].args) == 2 and isinstance(ins[0].args[0], ast.Constant) and ins[0].args[0].value == 0:
        kw = ctor_kwargs(ins[0].args[1]) or {}
        off, bpm = kw.get("offset", kw.get("#0")), kw.get("bpm", kw.get("#1"))
        good = isinstance(off, ast.Constant) and off.value == 0 and bpm is not None and unparse(bpm) == "init_bpm"
    if not ins:
        # display form: [O2JBpm(offset=0, bpm=init_bpm), *bpms] handed to the tempo list
        for n in walk_no_nested(fn.node):
            if isinstance(n, (ast.List, ast.Tuple)) and len(n.elts) == 2 and isinstance(n.elts[1], ast.Starred) and unparse(n.elts[1].value) == "bpms" and \
                    isinstance(n.elts[0], ast.Call):
                kw = ctor_kwargs(n.elts[0]) or {}
                off, bpm = kw.get("offset", kw.get("#0")), kw.get("bpm", kw.get("#1"))
                if isinstance(off, ast.Constant) and off.value == 0 and bpm is not None and unparse(bpm) == "init_bpm":
                    good = True
                    ins = [n]
                elif kw:
                    ins = [n]
    if not ins:
        insts.append(R.undec(rid, "initial-tempo", file, fn.node.lineno, "where the header tempo enters the tempo list was not found"))
    else:
      insts.append(R.ok(rid, "initial-tempo", file, ins[0].lineno, idiom="O2JBpm(offset=0, bpm=init_bpm) first") if good else
                 R.viol(rid, "initial-tempo", file, (ins[0] if ins else fn.node).lineno,
                        "the header tempo must be the first tempo point, at 0 ms", construct=unparse(ins[0]) if ins else "no insert"))
    # (e) all three lists assigned from the right kinds
    return insts


def rule_r9(ctx) -> List[R.Inst]:
    """the tempo events are consumed by an ascending cursor, so the event list they are filtered from must be sorted by the
    events' own positions (measure + slot/slots); ordering the packages orders whole measures only — two tempo packages of one
    measure with interleaved slots stay out of order"""
    M = ctx.M
    rid = "C07.R9"
    fn = _o2j_fn(ctx, MAP + ".read_pkgs", closures=True)
    file = M.mods[fn.mod].rel
    # the flattened event list: NAME = [e for pkg in <pkgs> for e in pkg.events]
    flat = None
    for n in walk_no_nested(fn.node):
        if isinstance(n, ast.Assign) and isinstance(n.targets[0], ast.Name) and isinstance(n.value, ast.ListComp) and \
                len(n.value.generators) == 2 and unparse(n.value.generators[1].iter).endswith(".events"):
            flat = (n.targets[0].id, n)
    if flat is None:
        return [R.undec(rid, "events-sorted", file, fn.node.lineno, "flattened event list not found")]
    name, node = flat
    # lists filtered from it and indexed by a cursor
    derived = {name}
    for n in walk_no_nested(fn.node):
        if isinstance(n, ast.Assign) and isinstance(n.targets[0], ast.Name) and isinstance(n.value, ast.ListComp) and \
                isinstance(n.value.generators[0].iter, ast.Name) and n.value.generators[0].iter.id in derived and \
                unparse(n.value.elt) == unparse(n.value.generators[0].target):
            derived.add(n.targets[0].id)
    swept = sorted({n.value.id for n in ast.walk(fn.node) if isinstance(n, ast.Subscript) and isinstance(n.value, ast.Name) and
                    n.value.id in derived and n.value.id != name and not isinstance(n.slice, ast.Slice)})
    sorts = []
    for n in walk_no_nested(fn.node):
        c = None
        if isinstance(n, ast.Expr) and isinstance(n.value, ast.Call) and isinstance(n.value.func, ast.Attribute) and \
                n.value.func.attr == "sort" and isinstance(n.value.func.value, ast.Name):
            c, tgt = n.value, n.value.func.value.id
        elif isinstance(n, ast.Assign) and isinstance(n.targets[0], ast.Name) and isinstance(n.value, ast.Call) and \
                call_name(n.value) == "sorted" and n.value.args:
            c, tgt = n.value, n.targets[0].id
        if c is None:
            continue
        key = next((k.value for k in c.keywords if k.arg == "key"), None)
        katt = key.body.attr if isinstance(key, ast.Lambda) and isinstance(key.body, ast.Attribute) and \
            isinstance(key.body.value, ast.Name) and key.body.value.id == key.args.args[0].arg else None
        rev = any(k.arg == "reverse" and not (isinstance(k.value, ast.Constant) and k.value.value is False) for k in c.keywords)
        sorts.append((tgt, katt, rev, n.lineno))
    # the sort must reach the swept list: either the swept list itself is sorted (before the sweep), or the list it is filtered
    # from is sorted BEFORE the filtering statement (a filter takes a snapshot: sorting the source afterwards does not reorder it)
    deriv_line = {}
    for n in walk_no_nested(fn.node):
        if isinstance(n, ast.Assign) and isinstance(n.targets[0], ast.Name) and n.targets[0].id in derived and n.targets[0].id != name:
            deriv_line[n.targets[0].id] = n.lineno
    first_sweep = min((x.lineno for x in ast.walk(fn.node) if isinstance(x, (ast.For, ast.While)) and any(
        isinstance(y, ast.Subscript) and isinstance(y.value, ast.Name) and y.value.id in swept for y in ast.walk(x))), default=10 ** 9)

    def reaches(s_):
        tgt, _, _, ln = s_
        if tgt in swept:
            return ln < first_sweep
        return all(ln < deriv_line.get(w, 10 ** 9) for w in swept) and ln >= node.lineno
    good = [s_ for s_ in sorts if s_[0] in derived and s_[1] == "measure" and not s_[2] and reaches(s_)]
    late = [s_ for s_ in sorts if s_[0] in derived and s_[1] == "measure" and not s_[2] and not reaches(s_)]
    if good:
        return [R.ok(rid, "events-sorted", file, good[0][3], idiom=f"{good[0][0]} sorted by the events' own .measure before the sweep of {swept}")]
    if late:
        return [R.viol(rid, "events-sorted", file, late[0][3],
                       f"'{late[0][0]}' is sorted on line {late[0][3]}, after {swept} was filtered from it (line "
                       f"{min(deriv_line.get(w, 0) for w in swept)}): the filtered list keeps the file order, the sweep assumes position order",
                       construct=f"sort of {late[0][0]} after the derivation of {swept}")]
    src = unparse(node.value.generators[0].iter)
    other = [s_ for s_ in sorts if s_[0] == src] or [s_ for s_ in sorts if s_[0] not in derived and s_[3] <= node.lineno]
    return [R.viol(rid, "events-sorted", file, node.lineno,
                   f"{swept or [name]} is swept with an ascending cursor but the events are not sorted by their own position"
                   + (f" ('{other[0][0]}' is sorted instead: that orders whole packages by their integer measure; events of "
                      f"two packages of one measure stay in package order)" if other else ""),
                   construct=f"no sort of {sorted(derived)} by .measure" + (f"; sorts {other[0][0]}" if other else ""))]


def _merged_timeline(fn):
    """the sweep written as ONE loop over heapq.merge of the tempo events and the note positions:
        timeline = merge(((e.measure, T0, e) for e in EVENTS), ((m, T1, None) for m in POSITIONS), key=<first two components>)
        for pos, _, e in timeline:  if e is None: <a note position>  else: <consume the tempo event>
    -> dict(loop, events, positions, t_event, t_pos, event_var, key_ok, cons_body, note_body) or None"""
    def res(e):
        if isinstance(e, ast.Name):
            ds = [x.value for x in walk_no_nested(fn.node) if isinstance(x, ast.Assign) and len(x.targets) == 1 and
                  isinstance(x.targets[0], ast.Name) and x.targets[0].id == e.id]
            if len(ds) == 1:
                return ds[0]
        return e
    for lp in (n for n in fn.node.body if isinstance(n, ast.For)):
        it = res(lp.iter)
        if not (isinstance(it, ast.Call) and call_name(it) == "merge" and len(it.args) == 2):
            continue
        gens = [res(a) for a in it.args]
        if not all(isinstance(g, (ast.GeneratorExp, ast.ListComp)) and len(g.generators) == 1 and not g.generators[0].ifs and
                   isinstance(g.elt, ast.Tuple) and len(g.elt.elts) == 3 and isinstance(g.elt.elts[1], ast.Constant) for g in gens):
            continue
        ev = [g for g in gens if isinstance(g.elt.elts[2], ast.Name) and isinstance(g.generators[0].target, ast.Name) and
              g.elt.elts[2].id == g.generators[0].target.id]
        ps = [g for g in gens if isinstance(g.elt.elts[2], ast.Constant) and g.elt.elts[2].value is None]
        if len(ev) != 1 or len(ps) != 1 or not (isinstance(lp.target, ast.Tuple) and len(lp.target.elts) == 3 and isinstance(lp.target.elts[2], ast.Name)):
            continue
        evar = lp.target.elts[2].id
        key = next((k.value for k in it.keywords if k.arg == "key"), None)
        kt = unparse(key).replace(" ", "") if key is not None else ""
        key_ok = kt in ("itemgetter(0,1)", "operator.itemgetter(0,1)") or (
            isinstance(key, ast.Lambda) and unparse(key.body).replace(" ", "") in (f"({key.args.args[0].arg}[0],{key.args.args[0].arg}[1])",
                                                                                   f"{key.args.args[0].arg}[:2]"))
        branch = next((s_ for s_ in lp.body if isinstance(s_, ast.If) and isinstance(s_.test, ast.Compare) and unparse(s_.test.left) == evar and
                       isinstance(s_.test.ops[0], (ast.Is, ast.IsNot)) and isinstance(s_.test.comparators[0], ast.Constant) and
                       s_.test.comparators[0].value is None), None)
        if branch is None or len(lp.body) != 1:
            continue
        note_body, cons_body = (branch.body, branch.orelse) if isinstance(branch.test.ops[0], ast.Is) else (branch.orelse, branch.body)
        return dict(loop=lp, events=unparse(ev[0].generators[0].iter), positions=unparse(ps[0].generators[0].iter),
                    ev_attr=unparse(ev[0].elt.elts[0]).split(".")[-1] if isinstance(ev[0].elt.elts[0], ast.Attribute) else None,
                    t_event=ev[0].elt.elts[1].value, t_pos=ps[0].elt.elts[1].value, event_var=evar, key_ok=key_ok,
                    cons_body=cons_body, note_body=note_body, merge=it)
    return None


def _timeline_insts(fn, rid, file) -> Optional[List[R.Inst]]:
    tl = _merged_timeline(fn)
    if tl is None:
        return None
    lp = tl["loop"]
    insts = []
    probs = []
    if not tl["key_ok"]:
        probs.append("the merge key is not the (position, kind) pair of the entries")
    if not (isinstance(tl["t_event"], int) and isinstance(tl["t_pos"], int) and tl["t_event"] < tl["t_pos"]):
        probs.append(f"on equal positions the note position (tag {tl['t_pos']}) is ordered before the tempo event (tag {tl['t_event']}): an event "
                     f"exactly at a note's position must be applied before the note is timed")
    if tl["ev_attr"] != "measure":
        probs.append(f"tempo events are ordered by '.{tl['ev_attr']}', they are sorted by '.measure'")
    insts.append(R.viol(rid, "sweep:look-ahead", file, tl["merge"].lineno, "; ".join(probs), construct=unparse(tl["merge"])[:160]) if probs else
                 R.ok(rid, "sweep:look-ahead", file, tl["merge"].lineno,
                      idiom="one timeline merged by (position, kind): a tempo event at or before a note position comes first"))
    insts.append(R.ok(rid, "sweep:bounds", file, lp.lineno, idiom="merge yields each entry once: no look-ahead index to guard"))
    insts.append(R.ok(rid, "sweep:first", file, lp.lineno, idiom=f"merge starts with the first entry of '{tl['events']}' / '{tl['positions']}'"))
    timed = any(isinstance(x, ast.Assign) and isinstance(x.targets[0], ast.Attribute) and x.targets[0].attr == "offset" and
                unparse(x.targets[0].value) == tl["event_var"] for s_ in tl["cons_body"] for x in ast.walk(s_))
    insts.append(R.ok(rid, "sweep:trailing", file, lp.lineno, idiom="every tempo event is an entry of the timeline and is timed in its branch") if timed else
                 R.viol(rid, "sweep:trailing", file, lp.lineno, "the tempo-event branch of the timeline does not time the event",
                        construct="; ".join(unparse(s_)[:60] for s_ in tl["cons_body"])))
    return insts



def _queue_sweep(fn, sweep, wh, q, rid, file) -> Optional[List[R.Inst]]:
    """the sweep written over a queue of pending events: `while Q and Q[0].measure <= q: e = Q.popleft(); ...`, then
    `while Q: e = Q.popleft(); ...` — the same four obligations as for the index cursor"""
    pops = [x for s_ in wh.body for x in ast.walk(s_) if isinstance(x, ast.Call) and call_name(x) in ("popleft", "pop") and
            isinstance(x.func, ast.Attribute) and isinstance(x.func.value, ast.Name)]
    if len(pops) != 1:
        return None
    Q = pops[0].func.value.id
    left = call_name(pops[0]) == "popleft" or (pops[0].args and isinstance(pops[0].args[0], ast.Constant) and pops[0].args[0].value == 0)
    qdef = [n for n in fn.node.body if isinstance(n, ast.Assign) and isinstance(n.targets[0], ast.Name) and n.targets[0].id == Q]
    insts = []
    conj = wh.test.values if isinstance(wh.test, ast.BoolOp) and isinstance(wh.test.op, ast.And) else [wh.test]
    bound = any(isinstance(c, ast.Name) and c.id == Q for c in conj) or any(
        isinstance(c, ast.Compare) and isinstance(c.left, ast.Call) and call_name(c.left) == "len" and unparse(c.left.args[0]) == Q for c in conj)
    bound_first = bool(conj) and ((isinstance(conj[0], ast.Name) and conj[0].id == Q) or (
        isinstance(conj[0], ast.Compare) and isinstance(conj[0].left, ast.Call) and call_name(conj[0].left) == "len"))
    ahead = None
    for c in conj:
        if isinstance(c, ast.Compare) and len(c.ops) == 1:
            for a, b, o in ((c.left, c.comparators[0], type(c.ops[0])),
                            (c.comparators[0], c.left, {ast.Lt: ast.Gt, ast.LtE: ast.GtE, ast.Gt: ast.Lt, ast.GtE: ast.LtE}.get(type(c.ops[0])))):
                if isinstance(a, ast.Attribute) and isinstance(a.value, ast.Subscript) and unparse(a.value.value) == Q and \
                        isinstance(b, ast.Name) and b.id == q and o is not None:
                    ahead = (a.value.slice, a.attr, o.__name__, c)
    if ahead is None:
        return [R.viol(rid, "sweep:look-ahead", file, wh.lineno,
                       f"the sweep does not compare the position of the next pending tempo event ({Q}[0].measure) with the current note "
                       f"position '{q}': which events are applied before a note is not decided by their positions", construct=unparse(wh.test)[:160])]
    sl, attr, op, node = ahead
    probs = []
    head = isinstance(sl, ast.Constant) and sl.value == 0
    if not (head and left):
        probs.append(f"the look-ahead reads {Q}[{unparse(sl)}] but the iteration takes '{unparse(pops[0])}': a different element is consumed")
    if op not in ("LtE", "Lt"):
        probs.append(f"an event is applied when its position is {op} the note position; it must be applied when it lies at or before it")
    if attr != "measure":
        probs.append(f"the look-ahead compares '.{attr}', the events are sorted by '.measure'")
    insts.append(R.viol(rid, "sweep:look-ahead", file, node.lineno, "; ".join(probs), construct=unparse(wh.test)[:160]) if probs else
                 R.ok(rid, "sweep:look-ahead", file, node.lineno, idiom=f"{Q}[0].measure <= {q}, and {Q}[0] is the element taken"))
    insts.append(R.ok(rid, "sweep:bounds", file, wh.lineno, idiom=f"'{Q}' non-empty guards the look-ahead") if bound and bound_first else
                 R.viol(rid, "sweep:bounds", file, wh.lineno,
                        f"the look-ahead {Q}[0] is not guarded by a non-emptiness test of '{Q}' evaluated before it: with no (further) tempo "
                        f"event it raises IndexError", construct=unparse(wh.test)[:160]))
    whole = len(qdef) == 1 and isinstance(qdef[0].value, ast.Call) and call_name(qdef[0].value) in ("deque", "list") and \
        len(qdef[0].value.args) == 1 and isinstance(qdef[0].value.args[0], ast.Name)
    insts.append(R.ok(rid, "sweep:first", file, qdef[0].lineno, idiom=f"{Q} starts as the whole event list: the first element taken is its first") if whole else
                 R.undec(rid, "sweep:first", file, (qdef[0] if qdef else wh).lineno, f"initial contents of the queue '{Q}' not recognised"))
    pos = fn.node.body.index(sweep)
    trailing = None
    for n in fn.node.body[pos + 1:]:
        drains = (isinstance(n, ast.While) and ((isinstance(n.test, ast.Name) and n.test.id == Q) or Q in unparse(n.test)) and any(
            isinstance(x, ast.Call) and call_name(x) in ("popleft", "pop") and unparse(x.func.value) == Q for x in ast.walk(n))) or \
            (isinstance(n, ast.For) and unparse(n.iter) == Q)
        if drains and any(isinstance(x, ast.Assign) and isinstance(x.targets[0], ast.Attribute) and x.targets[0].attr == "offset" for x in ast.walk(n)):
            trailing = n
    insts.append(R.ok(rid, "sweep:trailing", file, trailing.lineno, idiom=f"the events still pending in '{Q}' are timed after the sweep") if trailing is not None else
                 R.viol(rid, "sweep:trailing", file, sweep.lineno,
                        "tempo events after the last note are never consumed: their tempo points keep the time 0 they were created with",
                        construct=f"no loop draining {Q} after the sweep"))
    return insts


def _anchor_form(fn):
    """two-phase form of the tempo sweep: (1) `A = [(0, 0, init_bpm)]; for b in bpms: m, o, v = A[-1]; o += step; b.offset = o;
    A.append((b.measure, o, b.bpm))` times EVERY tempo event from the one before it; (2) `for q in note_measures: m, o, v =
    A[bisect_right([b.measure for b in bpms], q)]` picks the state after all events at or before the note position.
    -> dict(anchors, init, build loop, appended tuple, lookup call, lookup loop, keys expression) or None"""
    top = fn.node.body
    for st in top:
        if not (isinstance(st, ast.Assign) and len(st.targets) == 1 and isinstance(st.targets[0], ast.Name) and isinstance(st.value, ast.List) and
                len(st.value.elts) == 1 and isinstance(st.value.elts[0], ast.Tuple) and len(st.value.elts[0].elts) == 3):
            continue
        A = st.targets[0].id
        build = next((l for l in top if isinstance(l, ast.For) and isinstance(l.target, ast.Name) and isinstance(l.iter, ast.Name) and
                      any(isinstance(x, ast.Call) and call_name(x) == "append" and isinstance(x.func.value, ast.Name) and x.func.value.id == A
                          for x in ast.walk(l))), None)
        if build is None or any(isinstance(x, (ast.Break, ast.Continue, ast.Return, ast.If)) for x in ast.walk(build)):
            continue
        apps = [x for x in ast.walk(build) if isinstance(x, ast.Call) and call_name(x) == "append" and isinstance(x.func.value, ast.Name) and x.func.value.id == A]
        if len(apps) != 1 or len(apps[0].args) != 1 or not isinstance(apps[0].args[0], ast.Tuple) or len(apps[0].args[0].elts) != 3:
            continue
        other_muts = [x for x in ast.walk(fn.node) if isinstance(x, ast.Call) and isinstance(x.func, ast.Attribute) and isinstance(x.func.value, ast.Name) and
                      x.func.value.id == A and x.func.attr in ("pop", "insert", "remove", "clear", "extend", "sort", "reverse")]
        if other_muts:
            continue
        look = None
        for l in top:
            if isinstance(l, ast.For) and l is not build and isinstance(l.target, ast.Name):
                for x in ast.walk(l):
                    if isinstance(x, ast.Subscript) and isinstance(x.value, ast.Name) and x.value.id == A and isinstance(x.slice, ast.Call) and \
                            call_name(x.slice) in ("bisect_right", "bisect", "bisect_left", "searchsorted") and len(x.slice.args) >= 2:
                        look = (l, x)
        if look is None:
            continue
        keys = look[1].slice.args[0]
        if isinstance(keys, ast.Name):
            ds = local_defs(fn.node, keys.id)
            keys = ds[0] if len(ds) == 1 else keys
        return dict(A=A, init=st, build=build, app=apps[0].args[0], lookup=look[1], lookloop=look[0], keys=keys, events=build.iter.id, ev=build.target.id)
    return None


def _anchor_insts(fn, rid, file, which) -> Optional[List[R.Inst]]:
    af = _anchor_form(fn)
    if af is None:
        return None
    insts = []
    ev, events = af["ev"], af["events"]
    if which == "cursor":
        a0, a1, a2 = af["app"].elts
        # the state before the event: `m, o, v = A[-1]` at the top of the body
        unp = next((x for x in af["build"].body if isinstance(x, ast.Assign) and isinstance(x.targets[0], ast.Tuple) and len(x.targets[0].elts) == 3 and
                    unparse(x.value) == f"{af['A']}[-1]"), None)
        ovar = unp.targets[0].elts[1].id if unp is not None and isinstance(unp.targets[0].elts[1], ast.Name) else None
        stepped = ovar is not None and any(isinstance(x, ast.AugAssign) and isinstance(x.target, ast.Name) and x.target.id == ovar and isinstance(x.op, ast.Add)
                                           for x in af["build"].body)
        timed = ovar is not None and any(isinstance(x, ast.Assign) and unparse(x.targets[0]) == f"{ev}.offset" and unparse(x.value) == ovar for x in af["build"].body)
        good = unp is not None and stepped and timed and unparse(a0) == f"{ev}.measure" and unparse(a1) == ovar and unparse(a2) == f"{ev}.bpm"
        insts.append(R.ok(rid, "sweep-cursor", file, af["build"].lineno,
                          idiom="position, time and tempo after each event travel together as one tuple (event.measure, advanced time, event.bpm)") if good else
                     R.viol(rid, "sweep-cursor", file, af["build"].lineno,
                            "the state after a tempo event must be (its position, the time advanced to it, its tempo): the next segment is "
                            "otherwise integrated from the wrong position/tempo", construct=f"{af['A']}.append({unparse(af['app'])})"))
        return insts
    # which == "sweep": the merge itself
    lk = af["lookup"].slice
    q = af["lookloop"].target.id
    fname = call_name(lk)
    keys = af["keys"]
    keys_ok = isinstance(keys, ast.ListComp) and len(keys.generators) == 1 and not keys.generators[0].ifs and unparse(keys.generators[0].iter) == events and \
        isinstance(keys.generators[0].target, ast.Name) and unparse(keys.elt) == f"{keys.generators[0].target.id}.measure"
    side_right = fname in ("bisect_right", "bisect") or (fname == "searchsorted" and any(k.arg == "side" and isinstance(k.value, ast.Constant) and k.value.value == "right" for k in lk.keywords))
    probs = []
    if not keys_ok:
        probs.append(f"the positions searched are '{unparse(keys)[:60]}', not the positions of all tempo events in order")
    if unparse(lk.args[1]) != q:
        probs.append(f"the search key is '{unparse(lk.args[1])}', not the current note position '{q}'")
    if not side_right:
        probs.append("bisect_left stops BEFORE an event that sits exactly on the note position; it must be applied when it lies at or before it")
    insts.append(R.viol(rid, "sweep:look-ahead", file, lk.lineno, "; ".join(probs), construct=unparse(af["lookup"])[:160]) if probs else
                 R.ok(rid, "sweep:look-ahead", file, lk.lineno, idiom=f"state after bisect_right(event positions, {q}) events: all events at or before the note position"))
    i0 = af["init"].value.elts[0].elts
    first_ok = [unparse(x) for x in i0[:2]] == ["0", "0"] and unparse(i0[2]) == "init_bpm"
    insts.append(R.ok(rid, "sweep:first", file, af["init"].lineno, idiom="the chain starts at (measure 0, 0 ms, header tempo)") if first_ok else
                 R.viol(rid, "sweep:first", file, af["init"].lineno, "the chain of tempo events must start at measure 0, 0 ms with the header tempo",
                        construct=unparse(af["init"])))
    insts.append(R.ok(rid, "sweep:bounds", file, lk.lineno, idiom=f"one anchor per event plus the initial one: every index 0..len({events}) exists"))
    insts.append(R.ok(rid, "sweep:trailing", file, af["build"].lineno, idiom=f"every event of {events} is timed by the first phase, whatever the notes are"))
    return insts


def rule_r10(ctx) -> List[R.Inst]:
    """the tempo sweep is a merge of two sorted sequences (note positions, tempo events): the look-ahead tests the event that
    is consumed next, inside its bounds, against the current note position; every tempo event is consumed — those after the
    last note too — so every tempo point gets its time"""
    M = ctx.M
    rid = "C07.R10"
    fn = _o2j_fn(ctx, MAP + ".read_pkgs", closures=True)
    file = M.mods[fn.mod].rel
    insts = []
    fors = [n for n in fn.node.body if isinstance(n, ast.For)]
    sweep = next((f for f in fors if any(isinstance(x, ast.While) for x in ast.walk(f))), None)
    if sweep is None or not isinstance(sweep.target, ast.Name):
        tl = _timeline_insts(fn, rid, file)
        if tl is not None:
            return tl
        an = _anchor_insts(fn, rid, file, "sweep")
        if an is not None:
            return an
        return [R.undec(rid, "sweep", file, fn.node.lineno, "sweep loop (for <position> ...: while ...) not found")]
    q = sweep.target.id
    wh = next(x for x in ast.walk(sweep) if isinstance(x, ast.While))
    if "bpms" in unparse(sweep.iter) and "bpms" not in unparse(wh.test):
        # the tempo events drive the outer loop and the inner loop consumes notes: the merge the other way round — not read here
        return [R.undec(rid, "sweep", file, wh.lineno,
                        "the outer loop runs over the tempo events and the inner one over the notes: this arrangement of the merge is not decided")]
    # cursor: the name incremented in the while body and used as an index
    incs = [s_ for s_ in wh.body if isinstance(s_, ast.AugAssign) and isinstance(s_.target, ast.Name) and isinstance(s_.op, ast.Add)
            and isinstance(s_.value, ast.Constant) and s_.value.value == 1]
    if len(incs) != 1:
        qf = _queue_sweep(fn, sweep, wh, q, rid, file)
        if qf is not None:
            return qf
        return [R.undec(rid, "sweep", file, wh.lineno, "cursor increment not found in the sweep")]
    ix = incs[0].target.id
    inits = [n for n in fn.node.body if isinstance(n, ast.Assign) and isinstance(n.targets[0], ast.Name) and n.targets[0].id == ix]
    init = None
    if len(inits) == 1:
        try:
            init = ast.literal_eval(inits[0].value)
        except Exception:
            init = None

    def idx_canon(e, shift=0):
        r = sym.canon(e, lambda n: "IX" if isinstance(n, ast.Name) and n.id == ix else None)
        if shift:
            r = r + sym.parse(str(shift))
        return r
    # the consumed element: E[<index>] read in the body; relative to the cursor value BEFORE the iteration
    cons = None
    seen_inc = False
    for s_ in wh.body:
        if s_ is incs[0]:
            seen_inc = True
            continue
        for x in ast.walk(s_):
            if isinstance(x, ast.Subscript) and isinstance(x.value, ast.Name) and any(
                    isinstance(y, ast.Name) and y.id == ix for y in ast.walk(x.slice)) and cons is None:
                cons = (x.value.id, idx_canon(x.slice, 0), seen_inc, x)
    if cons is None:
        return [R.undec(rid, "sweep", file, wh.lineno, "consumed event E[cursor] not found in the sweep body")]
    ev_list, c_idx, after_inc, cnode = cons
    consumed = c_idx + sym.parse("1") if after_inc else c_idx          # in terms of the cursor before the iteration
    # the test: bound and look-ahead
    conj = wh.test.values if isinstance(wh.test, ast.BoolOp) and isinstance(wh.test.op, ast.And) else [wh.test]
    bound = ahead = None
    for c in conj:
        if not (isinstance(c, ast.Compare) and len(c.ops) == 1):
            continue
        l, r_, op = c.left, c.comparators[0], c.ops[0]
        if isinstance(r_, ast.Call) and call_name(r_) == "len" and unparse(r_.args[0]) == ev_list and isinstance(op, ast.Lt):
            bound = idx_canon(l)
        elif isinstance(l, ast.Call) and call_name(l) == "len" and unparse(l.args[0]) == ev_list and isinstance(op, ast.Gt):
            bound = idx_canon(r_)
        else:
            for a, b, o in ((l, r_, op), (r_, l, {ast.Lt: ast.Gt, ast.LtE: ast.GtE, ast.Gt: ast.Lt, ast.GtE: ast.LtE}.get(type(op), type(None))())):
                if isinstance(a, ast.Attribute) and isinstance(a.value, ast.Subscript) and unparse(a.value.value) == ev_list and \
                        isinstance(b, ast.Name) and b.id == q:
                    ahead = (idx_canon(a.value.slice), a.attr, type(o).__name__, c)
    # the merge consumes BOTH sequences in ascending position: the note positions the outer loop runs over are sorted (they are
    # collected in a set, whose iteration order is arbitrary) — an unsorted pass makes the running time jump back and forth
    it = sweep.iter
    if isinstance(it, ast.Name):
        binds = [n for n in fn.node.body[:fn.node.body.index(sweep)] if
                 (isinstance(n, ast.Assign) and any(isinstance(t_, ast.Name) and t_.id == it.id for t_ in n.targets)) or
                 (isinstance(n, ast.Expr) and isinstance(n.value, ast.Call) and call_name(n.value) == "sort" and
                  isinstance(n.value.func, ast.Attribute) and unparse(n.value.func.value) == it.id)]
        last = binds[-1] if binds else None
        lv = last.value if last is not None else None
        asc = lv is not None and isinstance(lv, ast.Call) and call_name(lv) in ("sorted", "sort") and not any(
            k_.arg == "reverse" and not (isinstance(k_.value, ast.Constant) and k_.value.value is False) for k_ in lv.keywords)
        if asc:
            insts.append(R.ok(rid, "sweep:positions-sorted", file, last.lineno, idiom=f"{it.id} = sorted(..) before the sweep"))
        elif lv is not None and (isinstance(lv, (ast.Set, ast.SetComp, ast.ListComp, ast.List, ast.BinOp)) or
                                 (isinstance(lv, ast.Call) and call_name(lv) in ("list", "set", "tuple", "frozenset"))):
            insts.append(R.viol(rid, "sweep:positions-sorted", file, last.lineno,
                                f"the sweep visits the note positions '{it.id}' in the order of '{unparse(lv)[:60]}', which is not sorted (a set "
                                f"iterates in hash order): the tempo cursor only moves forward, so a position visited after a later one is "
                                f"timed with tempo events that lie beyond it", construct=f"sweep over unsorted {it.id}"))
        else:
            insts.append(R.undec(rid, "sweep:positions-sorted", file, sweep.lineno, f"how '{it.id}' is ordered before the sweep was not recognised"))
    elif isinstance(it, ast.Call) and call_name(it) == "sorted":
        insts.append(R.ok(rid, "sweep:positions-sorted", file, sweep.lineno, idiom="for .. in sorted(..)"))
    else:
        insts.append(R.undec(rid, "sweep:positions-sorted", file, sweep.lineno, f"order of '{unparse(it)[:60]}' not recognised"))
    if ahead is None:
        insts.append(R.viol(rid, "sweep:look-ahead", file, wh.lineno,
                            f"the sweep does not compare the position of the next tempo event ({ev_list}[…].measure) with the current "
                            f"note position '{q}': which events are applied before a note is not decided by their positions",
                            construct=unparse(wh.test)[:160]))
        return insts
    a_idx, a_attr, a_op, a_node = ahead
    probs = []
    if not a_idx.same(consumed):
        probs.append(f"the look-ahead reads {ev_list}[{sym.text(a_node.left.value.slice) if isinstance(a_node.left, ast.Attribute) else '…'}] "
                     f"but the iteration consumes a different element (the one just consumed is tested again / one is skipped)")
    if a_op not in ("LtE", "Lt"):
        probs.append(f"an event is applied when its position is {a_op} the note position; it must be applied when it lies at or before it")
    if a_attr != "measure":
        probs.append(f"the look-ahead compares '.{a_attr}', the events are sorted by '.measure'")
    if probs:
        insts.append(R.viol(rid, "sweep:look-ahead", file, a_node.lineno, "; ".join(probs), construct=unparse(wh.test)[:160]))
    else:
        insts.append(R.ok(rid, "sweep:look-ahead", file, a_node.lineno, idiom=f"{ev_list}[next].measure <= {q}, next = the element consumed"))
    if bound is None or not bound.same(a_idx):
        insts.append(R.viol(rid, "sweep:bounds", file, wh.lineno,
                            f"the look-ahead index is not tested against len({ev_list}) in the same condition: with no (further) tempo event "
                            f"the look-ahead raises IndexError / compares with a stale value", construct=unparse(wh.test)[:160]))
    else:
        insts.append(R.ok(rid, "sweep:bounds", file, wh.lineno, idiom=f"next < len({ev_list}) guards the look-ahead"))
    if init is None or not (sym.parse(str(init)) + (consumed - sym.parse("IX"))).same(sym.parse("0")):
        insts.append(R.viol(rid, "sweep:first", file, (inits[0] if inits else wh).lineno,
                            f"with the cursor starting at {init} the first element consumed is not {ev_list}[0]",
                            construct=f"{ix} = {init}; consumes {ev_list}[{ix}{' + 1' if after_inc else ''}]"))
    else:
        insts.append(R.ok(rid, "sweep:first", file, inits[0].lineno, idiom=f"first consumed element is {ev_list}[0]"))
    # trailing events: a loop after the sweep over E[next:] that assigns .offset
    pos = fn.node.body.index(sweep)
    trailing = None
    for n in fn.node.body[pos + 1:]:
        if isinstance(n, ast.For) and isinstance(n.iter, ast.Subscript) and unparse(n.iter.value) == ev_list and \
                isinstance(n.iter.slice, ast.Slice) and n.iter.slice.lower is not None and n.iter.slice.upper is None:
            if idx_canon(n.iter.slice.lower).same(sym.parse("IX + 1") if after_inc else sym.parse("IX")) and any(
                    isinstance(x, ast.Assign) and isinstance(x.targets[0], ast.Attribute) and x.targets[0].attr == "offset"
                    for x in ast.walk(n)):
                trailing = n
        if isinstance(n, ast.While) and any(isinstance(x, ast.Call) and call_name(x) == "len" for x in ast.walk(n.test)) and any(
                isinstance(x, ast.Assign) and isinstance(x.targets[0], ast.Attribute) and x.targets[0].attr == "offset" for x in ast.walk(n)):
            trailing = n
    if trailing is None:
        insts.append(R.viol(rid, "sweep:trailing", file, sweep.lineno,
                            f"tempo events after the last note are never consumed: their tempo points keep the time 0 they were created with",
                            construct=f"no loop over {ev_list}[{ix} + 1:] after the sweep"))
    else:
        # the trailing loop continues the same integration: every running quantity the sweep advances per tempo event (time, position,
        # tempo) is advanced per trailing event too — otherwise the SECOND event after the last note is timed from the state of the first
        def _stored(stmts):
            out = set()
            for st_ in stmts:
                for x in ast.walk(st_):
                    if isinstance(x, (ast.Assign, ast.AugAssign)):
                        for t_ in (x.targets if isinstance(x, ast.Assign) else [x.target]):
                            if isinstance(t_, ast.Name):
                                out.add(t_.id)
            return out
        loopvars = {x.id for x in ast.walk(trailing.target) if isinstance(x, ast.Name)} if isinstance(trailing, ast.For) else set()
        in_sweep = {v for v in _stored(wh.body) if v != ix and v not in loopvars and
                    any(isinstance(x, ast.Name) and x.id == v and isinstance(x.ctx, ast.Load) for st_ in wh.body for x in ast.walk(st_))}
        # (only the quantities the per-event step itself reads: offset, measure, bpm_val — not the event alias)
        ev_alias = {t_.id for st_ in wh.body if isinstance(st_, ast.Assign) and isinstance(st_.value, ast.Subscript) and unparse(st_.value.value) == ev_list
                    for t_ in st_.targets if isinstance(t_, ast.Name)}
        in_sweep -= ev_alias
        missing = sorted(in_sweep - _stored(trailing.body))
        if missing and isinstance(trailing, ast.For):
            insts.append(R.viol(rid, "sweep:trailing", file, trailing.lineno,
                                f"the sweep advances {sorted(in_sweep)} at every tempo event, the loop over the events after the last note does not "
                                f"advance {missing}: the first trailing event is timed correctly, every later one from the stale state (its "
                                f"time ignores the tempo events between)", construct=f"trailing loop leaves {missing} unchanged"))
        else:
            insts.append(R.ok(rid, "sweep:trailing", file, trailing.lineno, idiom=f"remaining events {ev_list}[next:] are timed after the sweep, "
                                                                                   f"advancing {sorted(in_sweep)} like the sweep"))
    return insts


def unguarded_finds(fn_node):
    """`x.find(y)` / `x.rfind(y)` whose result is used as an index or a slice bound without a test for the -1 it returns when `y`
    is absent: `b[:b.find(NUL)]` drops the last byte of a field that has no NUL.  -> [(node of the use, text)]"""
    out = []
    names = {}
    for n in ast.walk(fn_node):
        if isinstance(n, ast.Assign) and len(n.targets) == 1 and isinstance(n.targets[0], ast.Name) and isinstance(n.value, ast.Call) and \
                isinstance(n.value.func, ast.Attribute) and n.value.func.attr in ("find", "rfind"):
            names[n.targets[0].id] = n
    tested = set()
    for n in ast.walk(fn_node):
        if isinstance(n, ast.Compare):
            for x in [n.left] + n.comparators:
                if isinstance(x, ast.Name) and x.id in names:
                    tested.add(x.id)
                if isinstance(x, ast.Call) and isinstance(x.func, ast.Attribute) and x.func.attr in ("find", "rfind"):
                    tested.add(id(x))

    def is_find(e):
        if isinstance(e, ast.Call) and isinstance(e.func, ast.Attribute) and e.func.attr in ("find", "rfind") and id(e) not in tested:
            return True
        return isinstance(e, ast.Name) and e.id in names and e.id not in tested
    for n in ast.walk(fn_node):
        if isinstance(n, ast.Subscript):
            parts = [n.slice.lower, n.slice.upper] if isinstance(n.slice, ast.Slice) else [n.slice]
            for p_ in parts:
                if p_ is not None and any(is_find(x) for x in ast.walk(p_) if isinstance(x, (ast.Call, ast.Name))):
                    out.append((n, unparse(n)[:80]))
                    break
    return out


def rule_r11(ctx) -> List[R.Inst]:
    """the header's fixed-width text fields may be completely full (no NUL padding): a cut at `find(NUL)` without a test for -1 drops
    the last character of exactly those fields.  Expected count on a correct tree is zero, so the rule carries its own positive
    example and fails as analysis-broken when it no longer recognises it."""
    M = ctx.M
    rid = "C07.R11"
    insts = []
    probe = ast.parse("def f(b):\n    return b[: b.find(b'\\x00')].decode('ascii')\ndef g(b):\n    i = b.find(b'\\x00')\n    return b[:i] if i >= 0 else b\n")
    hit = [len(unguarded_finds(fn_)) for fn_ in probe.body]
    mod = M.mods[M.cls(METACLS).mod]
    if hit != [1, 0]:
        return [R.undec(rid, "find-sentinel:self-example", mod.rel, 0, f"the rule no longer tells its own positive / negative example apart: {hit}")]
    insts.append(R.ok(rid, "find-sentinel:self-example", mod.rel, 0, idiom="b[:b.find(NUL)] recognised, the guarded form accepted"))
    bad = []
    n_fn = 0
    for q, f in sorted(M.funcs.items()):
        if f.mod.startswith(O2J + ".") and f.outer_fn is None:
            n_fn += 1
            for node, txt in unguarded_finds(f.node):
                bad.append((f, node, txt))
    for f, node, txt in bad:
        insts.append(R.viol(rid, f"find-sentinel:{f.name}", M.mods[f.mod].rel, node.lineno,
                            f"'{txt}' cuts at the position find() returns, which is -1 when the byte is absent: a text field that fills its "
                            f"whole width (no NUL padding) loses its last character", construct=f"{f.name}: {txt}"))
    if not bad:
        insts.append(R.ok(rid, "find-sentinel:o2jam", mod.rel, 0, idiom=f"no unguarded find()-bounded cut in {n_fn} functions of reamber.o2jam"))
    return insts


def rule_dep(ctx):
    """obligations inherited from shared code reached through the call graph (sa/props/deps.py)"""
    from .deps import dep_insts
    return dep_insts(ctx, "C07", ["reamber.o2jam.O2JMapSet.O2JMapSet.read"], skip_groups=())


SPECS = [
    RuleSpec("C07.R1", rule_r1, 26, "A10", "300-byte header: three parallel tables, struct sizes, frozen OJN layout, k-th field <- k-th row"),
    RuleSpec("C07.R2", rule_r2, 10, "A10", "package and event structs: formats and byte slices"),
    RuleSpec("C07.R3", rule_r3, 6, "A7", "channel and note-type tables; dispatch; column = channel - first note channel"),
    RuleSpec("C07.R4", rule_r4, 3, "A8", "hold buffer: same column key for head and tail, outlives a package"),
    RuleSpec("C07.R5", rule_r5, 4, "A7", "position = measure + slot / slots in both event readers"),
    RuleSpec("C07.R6", rule_r6, 1, "A8", "no ordering comparison of a None-able cursor under its own falsiness"),
    RuleSpec("C07.R7", rule_r7, 3, "A8", "one chart per difficulty, from its own packages and the header tempo"),
    RuleSpec("C07.R8", rule_r8, 8, "A7", "times come from the measure table; integration steps 4 * d(measure) / bpm; header tempo first"),
    RuleSpec("C07.R9", rule_r9, 1, "A5", "events are sorted by their own position before the tempo sweep"),
    RuleSpec("C07.R10", rule_r10, 4, "A8", "tempo sweep = merge of two sorted sequences: note positions sorted, look-ahead on the element consumed next, bounds, first element, trailing events continue the same running state"),
    RuleSpec("C07.R11", rule_r11, 2, "A9", "no cut of a fixed-width text field at an untested find() result (-1 when the field is full)"),
    RuleSpec("C07.D", rule_dep, 1, "M0", "rules of the shared code (timing engine, list classes, stacker) that the operations of this property reach"),
]

META = dict(
    explanation=(
        "O2Jam reader: the three parallel header tables are evaluated as literals (equal length, 300 bytes, element "
        "size = struct size, equal to the frozen OJN layout sa/tables/ojn_header.json) and the k-th unpacked field "
        "must be assigned to the k-th declared field (decoded when textual, scalar vs array); package header and "
        "event byte slices are compared with the format in rational-function canonical form over the event index; "
        "channel and note-type tables, the dispatch and column = channel - 2; the hold buffer pairs head and tail "
        "under the same column key and outlives a package; positions are measure + slot/slots; the contradiction "
        "rule flags a None-able cursor ordered under its own falsiness; every difficulty becomes a chart; and in "
        "read_pkgs the integration steps have the shape 4*(measure difference)/bpm minutes, notes take their time "
        "from the table entry of their own position, holds end at the entry of their tail. The flattened event list is sorted by the events' own position before the ascending tempo sweep (R9) — ordering the packages orders whole measures only. The tempo sweep itself (R10) is a merge of the sorted note positions with the sorted tempo events: the look-ahead tests the element that the iteration consumes next, inside its bounds, with 'event position <= note position'; the first element consumed is the first event; the events left after the last note are consumed too, so every tempo point is timed (F15, fixed). R11: no index / slice bound is taken from an untested find() (a text field that fills its width has no NUL: -1); the rule carries its own positive and negative example. The note positions of the sweep are sorted, and the loop over the tempo events after the last note advances the same running quantities as the sweep (R10)."),
    not_decided="float rounding of the integration; slot counts that do not divide a measure evenly",
)
