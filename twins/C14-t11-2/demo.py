"""Demo for change 2: the copy of the input made by full_ln and hitsound_copy.

Prints one line ``DIGEST <hex>``: sha256 over a canonical dump of every result
(all lists: values, dtypes, column order, row labels; all metadata), every raised
exception type, every input after the call, and whether writing into the result
reaches the input.
"""
import hashlib
import random
import warnings
from pathlib import Path

import numpy as np
import pandas as pd

from reamber.algorithms.generate import full_ln
from reamber.algorithms.osu.hitsound_copy import hitsound_copy
from reamber.base.Map import Map
from reamber.base.lists.BpmList import BpmList
from reamber.base.lists.TimedList import TimedList
from reamber.base.lists.notes.HitList import HitList
from reamber.base.lists.notes.HoldList import HoldList
from reamber.bms.BMSMap import BMSMap
from reamber.o2jam import O2JMapSet
from reamber.osu import OsuMap
from reamber.osu.lists import OsuBpmList, OsuSvList, OsuSampleList
from reamber.osu.lists.notes import OsuHitList, OsuHoldList
from reamber.quaver import QuaMap
from reamber.quaver.lists import QuaBpmList
from reamber.quaver.lists.notes import QuaHitList, QuaHoldList
from reamber.sm import SMMapSet

random.seed(1402)
ROOT = Path(__file__).resolve().parent
if not (ROOT / "rsc").exists():
    ROOT = Path.cwd()
MAPS = ROOT / "rsc" / "maps"
HSC = ROOT / "tests" / "algorithm_tests" / "osu" / "hitsound_copy"

H = hashlib.sha256()
N = [0]


def emit(*parts):
    H.update((" | ".join(str(p) for p in parts) + "\n").encode())
    N[0] += 1


def dump_df(df: pd.DataFrame) -> str:
    cols = []
    for c in df.columns:
        cols.append(f"{c}:{df[c].dtype}:[" + ",".join(repr(v) for v in df[c].tolist()) + "]")
    return (
        f"idx<{type(df.index).__name__}:{df.index.dtype}>"
        f"{[repr(i) for i in df.index.tolist()]} " + " ; ".join(cols)
    )


def dump_tl(tl) -> str:
    return f"{type(tl).__module__}.{type(tl).__name__} {dump_df(tl.df)}"


def dump(m) -> str:
    if not isinstance(m, Map):
        return f"{type(m).__name__} {m!r}"
    out = [f"{type(m).__module__}.{type(m).__name__}"]
    for k, v in vars(m).items():
        if k == "objs":
            for ok, ov in v.items():
                out.append(f"objs.{ok}={dump_tl(ov)}")
        elif isinstance(v, TimedList):
            out.append(f"{k}={dump_tl(v)}")
        elif isinstance(v, pd.DataFrame):
            out.append(f"{k}={dump_df(v)}")
        else:
            out.append(f"{k}={type(v).__name__}:{v!r}")
    return "\n  ".join(out)


def scribble(m):
    """Writes into every list and every mutable metadata value of a map."""
    with warnings.catch_warnings():
        warnings.simplefilter("ignore")
        for k, v in list(vars(m).items()):
            if k == "objs":
                for tl in v.values():
                    if len(tl):
                        tl.df.iloc[0, tl.df.columns.get_loc("offset")] = -424242.0
                        tl.df.iloc[:, -1] = tl.df.iloc[::-1, -1].to_numpy()
            elif isinstance(v, TimedList):
                if len(v):
                    v.df.iloc[0, v.df.columns.get_loc("offset")] = -424242.0
            elif isinstance(v, list):
                v.append("scribble")
            elif isinstance(v, dict):
                v["scribble"] = 1
        m.stack().offset += 7


def call(label, inputs, fn):
    before = [dump(i) for i in inputs]
    with warnings.catch_warnings(record=True) as ws:
        warnings.simplefilter("always")
        try:
            res = fn()
            emit(label, "OK", dump(res))
            emit(label, "RESULT_IS_INPUT", [res is i for i in inputs])
        except Exception as e:  # noqa
            res = None
            emit(label, "EXC", type(e).__name__)
    for w in ws:
        emit(label, "WARN", w.category.__name__, str(w.message)[:120])
    after = [dump(i) for i in inputs]
    emit(label, "INPUT_SAME", before == after)
    for a in after:
        emit(label, "INPUT", a)
    if isinstance(res, Map):
        # lists of the result are not the lists of an input
        for i in inputs:
            if isinstance(i, Map):
                emit(label, "SHARED_LISTS",
                     [k for k in res.objs if res.objs[k] is i.objs.get(k)
                      or res.objs[k].df is i.objs[k].df])
        try:
            scribble(res)
        except Exception as e:  # noqa
            emit(label, "SCRIBBLE_EXC", type(e).__name__)
        emit(label, "INPUT_AFTER_SCRIBBLE_SAME", [dump(i) for i in inputs] == before)
    return res


# ---------------------------------------------------------------- generated maps
def rand_notes(n_hits, n_holds, keys, grid, neg=False):
    lo = -5 if neg else 0
    hit_offsets = [random.randrange(lo, 40) * grid for _ in range(n_hits)]
    hold_offsets = [random.randrange(lo, 40) * grid for _ in range(n_holds)]
    return (
        dict(offset=hit_offsets, column=[random.randrange(keys) for _ in range(n_hits)]),
        dict(offset=hold_offsets, column=[random.randrange(keys) for _ in range(n_holds)],
             length=[random.choice([0, 1, 50, 99.5, 100, 150, 400, 1000])
                     for _ in range(n_holds)]),
    )


def gen_base_map(n_hits, n_holds, keys, grid, neg=False, bpms=1):
    m = Map()
    hd, ld = rand_notes(n_hits, n_holds, keys, grid, neg)
    m.hits = HitList.from_dict(hd)
    m.holds = HoldList.from_dict(ld)
    m.bpms = BpmList.from_dict(
        dict(offset=[i * 1000.0 for i in range(bpms)],
             bpm=[random.choice([60, 120.5, 200]) for _ in range(bpms)]))
    return m


HS_SETS = [0, 0, 2, 4, 8, 6, 10, 12, 14]
HS_FILES = ["", "", "", "a.wav", "b.ogg"]


def gen_osu_map(n_hits, n_holds, keys=4, grid=100, hitsounds=True):
    m = OsuMap()
    m.circle_size = keys
    m.title = f"t{n_hits}-{n_holds}"
    m.tags = ["x", "y"]
    hd, ld = rand_notes(n_hits, n_holds, keys, grid)
    for d, n in ((hd, n_hits), (ld, n_holds)):
        if hitsounds:
            d["hitsound_set"] = [random.choice(HS_SETS) for _ in range(n)]
            d["sample_set"] = [random.choice([0, 0, 1, 2]) for _ in range(n)]
            d["addition_set"] = [random.choice([0, 0, 3]) for _ in range(n)]
            d["custom_set"] = [random.choice([0, 0, 1]) for _ in range(n)]
            d["volume"] = [random.choice([0, 0, 30, 70, -5]) for _ in range(n)]
            d["hitsound_file"] = [random.choice(HS_FILES) for _ in range(n)]
    m.hits = OsuHitList.from_dict(hd)
    m.holds = OsuHoldList.from_dict(ld)
    m.bpms = OsuBpmList.from_dict(dict(offset=[0.0, 2000.0], bpm=[150.0, 175.0]))
    m.svs = OsuSvList.from_dict(dict(offset=[0.0, 500.0, 1500.0],
                                     multiplier=[1.0, 0.5, 2.0]))
    if random.random() < 0.5:
        m.samples = OsuSampleList.from_dict(
            dict(offset=[100.0, 300.0], sample_file=["s1.wav", "s2.wav"], volume=[40, 60]))
    return m


def gen_qua_map(n_hits, n_holds, keys=7):
    m = QuaMap()
    m.title = "q"
    hd, ld = rand_notes(n_hits, n_holds, keys, 125)
    m.hits = QuaHitList.from_dict(hd)
    m.holds = QuaHoldList.from_dict(ld)
    m.bpms = QuaBpmList.from_dict(dict(offset=[0.0], bpm=[140.0]))
    return m


def trimmed(m, step):
    """A copy of a real chart that keeps every step-th row of each list."""
    c = m.deepcopy()
    for tl in c.objs.values():
        tl.df = tl.df.iloc[::step]
    return c


# ---------------------------------------------------------------- full_ln
full_ln_inputs = [("base/empty", Map())]
for i in range(14):
    nh, nl = random.choice([(0, 5), (5, 0), (1, 0), (0, 1), (8, 8), (20, 6), (3, 30)])
    keys = random.choice([1, 4, 7, 10])
    grid = random.choice([25, 100, 250, 333.3])
    full_ln_inputs.append((f"base/{i}:{nh},{nl},k{keys},g{grid}",
                           gen_base_map(nh, nl, keys, grid, neg=i % 3 == 0,
                                        bpms=1 + i % 3)))
# integer dtype offsets, ties in one column, unsorted rows, labels that are not 0..n-1
m = Map()
m.hits = HitList(pd.DataFrame(dict(offset=[500, 0, 250, 250, 900], column=[0, 0, 0, 0, 1]),
                              index=[9, 3, 3, 1, 0]))
m.holds = HoldList(pd.DataFrame(dict(offset=[100, 100, 700], column=[0, 1, 1],
                                     length=[50, 0, 300])).iloc[::-1])
m.bpms = BpmList.from_dict(dict(offset=[0], bpm=[120]))
full_ln_inputs.append(("base/int-ties-labels", m))
full_ln_inputs.append(("osu/empty", OsuMap()))
full_ln_inputs.append(("qua/empty", QuaMap()))
for i in range(6):
    full_ln_inputs.append((f"osu/gen{i}", gen_osu_map(*random.choice(
        [(10, 10), (0, 7), (7, 0), (25, 5)]), keys=random.choice([4, 7]))))
for i in range(3):
    full_ln_inputs.append((f"qua/gen{i}", gen_qua_map(*random.choice([(10, 4), (0, 6), (6, 0)]))))

osu_real = OsuMap.read_file((MAPS / "osu/Gravity.osu").as_posix())
qua_real = QuaMap.read_file((MAPS / "qua/CarryMeAway.qua").as_posix())
sm_set = SMMapSet.read_file((MAPS / "sm/Escapes.sm").as_posix())
bms_real = BMSMap.read_file(MAPS / "bms/coldBreath.bme")
o2j_set = O2JMapSet.read_file((MAPS / "o2jam/o2ma178.ojn").as_posix())
full_ln_inputs += [
    ("osu/Gravity/9", trimmed(osu_real, 9)),
    ("qua/CarryMeAway/11", trimmed(qua_real, 11)),
    ("sm/Escapes/7", trimmed(sm_set[0], 7)),
    ("bms/coldBreath/5", trimmed(bms_real, 5)),
    ("o2j/o2ma178[0]/5", trimmed(o2j_set[0], 5)),
    ("o2j/o2ma178[2]/13", trimmed(o2j_set[2], 13)),
    ("osu/Gravity/full", osu_real),
]
emit("N_FULL_LN_INPUTS", len(full_ln_inputs))

PARAMS = [(), (150, 100), (0, 0), (50, 1), (1000, 100), (-100, 100), (150, -1),
          (99.5, 0.5), (np.float64(150), np.int64(100))]
for name, m in full_ln_inputs:
    big = name.endswith("/full")
    for p in (PARAMS[:2] if big else PARAMS):
        call(f"full_ln[{name}]{p!r}", [m], lambda: full_ln(m, *p))
    if big:
        continue
    call(f"full_ln[{name}]kw", [m], lambda: full_ln(m, ln_as_hit_thres=200, gap=20))
    call(f"full_ln[{name}]bad-gap", [m], lambda: full_ln(m, "gap"))
    call(f"full_ln[{name}]bad-thres", [m], lambda: full_ln(m, 10, None))
    # sequences: twice in a row, after a rate change, before a rate change
    call(f"full_ln[{name}]twice", [m], lambda: full_ln(full_ln(m), 100, 50))
    call(f"full_ln[{name}]rate-then", [m], lambda: full_ln(m.rate(1.5), 150, 100))
    call(f"full_ln[{name}]then-rate", [m], lambda: full_ln(m, 150, 100).rate(0.75))
for bad in (None, 5, "map", HitList([])):
    call(f"full_ln[bad {type(bad).__name__}]", [bad], lambda: full_ln(bad))

# ---------------------------------------------------------------- hitsound_copy
src_file = OsuMap.read_file(HSC / "source.osu")
tgt_file = OsuMap.read_file(HSC / "target.osu")
hs_file = OsuMap.read_file((MAPS / "osu/AvengerHitsoundFile.osu").as_posix())
hs_able = OsuMap.read_file((MAPS / "osu/AvengerHitsoundable.osu").as_posix())
pairs = [
    ("files", src_file, tgt_file),
    ("files-swapped", tgt_file, src_file),
    ("avenger/3", trimmed(hs_file, 3), trimmed(hs_able, 3)),
    ("avenger-swapped/5", trimmed(hs_able, 5), trimmed(hs_file, 5)),
    ("gravity-self/15", trimmed(osu_real, 15), trimmed(osu_real, 15)),
    ("empty-empty", OsuMap(), OsuMap()),
    ("gen-empty", gen_osu_map(6, 3), OsuMap()),
    ("empty-gen", OsuMap(), gen_osu_map(6, 3)),
    ("nohs-gen", gen_osu_map(6, 3, hitsounds=False), gen_osu_map(6, 3)),
]
for i in range(24):
    shape_s = random.choice([(12, 6), (0, 9), (9, 0), (30, 10), (1, 1)])
    shape_t = random.choice([(12, 6), (0, 9), (9, 0), (30, 10), (1, 1), (2, 0)])
    grid = random.choice([100, 100, 250])
    pairs.append((f"gen{i}:{shape_s}->{shape_t}",
                  gen_osu_map(*shape_s, keys=random.choice([4, 7]), grid=grid),
                  gen_osu_map(*shape_t, keys=random.choice([4, 7]), grid=grid,
                              hitsounds=random.random() < 0.7)))
emit("N_HITSOUND_PAIRS", len(pairs))

for name, s, t in pairs:
    call(f"hitsound_copy[{name}]", [s, t], lambda: hitsound_copy(s, t))
    # the same chart as source and target
    call(f"hitsound_copy[{name}]self", [t], lambda: hitsound_copy(t, t))
    # sequences
    call(f"hitsound_copy[{name}]twice", [s, t],
         lambda: hitsound_copy(s, hitsound_copy(s, t)))
    call(f"hitsound_copy[{name}]then-full_ln", [s, t],
         lambda: full_ln(hitsound_copy(s, t), 120, 60))
    call(f"hitsound_copy[{name}]full_ln-then", [s, t],
         lambda: hitsound_copy(full_ln(s), full_ln(t, 90, 10).rate(1.0)))
for bad_s, bad_t in ((None, tgt_file), (src_file, None), (src_file, qua_real),
                     (qua_real, tgt_file), (src_file, 3), (src_file, Map())):
    call(f"hitsound_copy[bad {type(bad_s).__name__},{type(bad_t).__name__}]",
         [bad_s, bad_t], lambda: hitsound_copy(bad_s, bad_t))

print("LINES", N[0])
print("DIGEST", H.hexdigest())
