"""C09 — read -> convert -> write yields a valid target file with the source's timeline (DESIGN §5 C09)."""
from __future__ import annotations

import ast
from typing import Dict, List, Optional, Tuple

from ..model import AnalysisError, NotLiteral, walk_no_nested, params_of
from .. import report as R
from ..report import RuleSpec
from .. import codec as C
from .. import sym
from ..flow import ctor_kwargs
from .common import unparse, call_name, strip_calls, CONVERTERS, conv_qual, converter_entries, short, GAMES
from . import c08

QMODE = "reamber.quaver.QuaMapMeta.QuaMapMode"
SMTYPES = "reamber.sm.SMMapMeta.SMMapChartTypes"
WRITERS = {"osu": "reamber.osu.OsuMap.OsuMap.write", "qua": "reamber.quaver.QuaMap.QuaMap.write",
           "sm": "reamber.sm.SMMapSet.SMMapSet.write", "bms": "reamber.bms.BMSMap.BMSMap.write"}
KEY_FIELD = {"osu": "circle_size", "qua": "mode", "sm": "chart_type"}
SEVEN_LANE_SOURCES = {"o2j"}      # frozen exception: the O2Jam format has exactly seven note channels (checked by C07.R3)


def rule_r1(ctx) -> List[R.Inst]:
    M = ctx.M
    rid = "C09.R1"
    insts = []
    srcs = ["Osu", "Qua", "SM", "BMS", "O2J"]
    tgts = ["Osu", "Qua", "SM", "BMS"]
    want = sorted(f"{a}To{b}" for a in srcs for b in tgts if a != b)
    init = M.mods.get("reamber.algorithms.convert")
    exported = set()
    if init is not None:
        for n in init.tree.body:
            if isinstance(n, ast.ImportFrom):
                exported |= {a.asname or a.name for a in n.names}
    for name in want:
        q = conv_qual(name)
        key = f"pair:{name}"
        file = f"reamber/algorithms/convert/{name}.py"
        if q not in M.funcs:
            insts.append(R.viol(rid, key, file, 0, f"converter {name}.convert does not exist: the pair cannot be converted",
                                construct=f"missing {name}"))
            continue
        fn = M.nfn(q)
        tgt_game = c08.games_of(name)[1]
        probs = []
        if name not in exported:
            probs.append("not exported from reamber.algorithms.convert")
        if WRITERS[tgt_game] not in M.funcs:
            probs.append(f"the target game has no write() ({WRITERS[tgt_game]})")
        # declared result type names the target game's chart / mapset
        ret = unparse(fn.node.returns) if fn.node.returns is not None else ""
        tgt_cls = {"osu": "OsuMap", "qua": "QuaMap", "sm": "SMMapSet", "bms": "BMSMap"}[tgt_game]
        if tgt_cls not in ret:
            probs.append(f"declared result type '{ret}' is not the target game's {tgt_cls}")
        if probs:
            insts.append(R.viol(rid, key, file, fn.node.lineno, "; ".join(probs), construct=f"{name}: " + "; ".join(probs)))
        else:
            insts.append(R.ok(rid, key, file, fn.node.lineno, idiom=f"{name}.convert -> {ret}; {short(WRITERS[tgt_game])} exists"))
    return insts


# --------------------------------------------------------------------------- key-count expressions
def _keys_expr_kind(e: ast.AST, conv) -> Optional[str]:
    """classify an expression that denotes a key count derived from the source"""
    e = strip_calls(e, ("int", "float"))
    t = unparse(e)
    # <x>.stack().column.max() + 1
    def colmax(a):
        if isinstance(a, ast.Call) and call_name(a) == "max" and unparse(a.func.value).endswith(".column"):
            base = unparse(a.func.value)
            if ".stack()" in base:
                stack_call = [c for c in ast.walk(a) if isinstance(c, ast.Call) and call_name(c) == "stack"]
                if stack_call and (stack_call[0].args or stack_call[0].keywords):
                    return "only some list types (" + unparse(stack_call[0]) + ")"
                return "all"
            return "only " + base.rsplit(".", 2)[-2]
        return None
    # another reduction of the column (nunique, count, ...) is not the key count
    if isinstance(e, ast.Call) and isinstance(e.func, ast.Attribute) and e.func.attr not in ("max",) and \
            unparse(e.func.value).endswith(".column") and not e.args:
        return f"column-reduction:{e.func.attr}"
    if colmax(e):
        return "column-max+0" if colmax(e) == "all" else f"partial:{colmax(e)}"
    if isinstance(e, ast.BinOp) and isinstance(e.op, (ast.Add, ast.Sub)):
        a, b = (e.left, e.right) if isinstance(e.right, ast.Constant) else (e.right, e.left)
        if isinstance(b, ast.Constant) and colmax(a):
            if colmax(a) != "all":
                return f"partial:{colmax(a)}"
            inc = b.value if isinstance(e.op, ast.Add) else -b.value
            return "column-max+1" if inc == 1 else f"column-max+{inc}"
    if isinstance(e, ast.Call) and call_name(e) == "get_keys" and e.args:
        owner = unparse(e.func.value)
        arg = unparse(e.args[0])
        if owner.endswith("QuaMapMode") and arg.endswith(".mode"):
            return "qua-mode->keys"
        if owner.endswith("SMMapChartTypes") and arg.endswith(".chart_type"):
            return "sm-type->keys"
        return f"wrong-table:{owner}.get_keys({arg})"
    if t.endswith(".circle_size"):
        return "osu-circle-size"
    return None


def _why_bad(k: str) -> str:
    if k.startswith("partial:"):
        return (f"the key count is taken from the highest column of {k[8:]}: a chart whose highest column holds only "
                f"objects of another list is written with too few keys")
    if k.startswith("column-max+"):
        return f"the key count of columns 0..max is max + 1, not max + {k[11:]}"
    if k.startswith("column-reduction:"):
        return (f"the key count is taken as column.{k[17:]}(): the number of lanes in use, not the number of lanes — a chart "
                f"that leaves a lane below its highest one unused is written with too few keys and its top lane falls outside")
    if k.startswith("wrong-table:"):
        return f"the source's key field is looked up in another game's table: {k[12:]}"
    return f"key count is derived as '{k}'"


def _assignments(conv, field: str) -> List[Tuple[ast.Assign, ast.Attribute]]:
    out = []
    for st, tgt, kind in conv.stores:
        if tgt.attr == field:
            out.append((st, tgt))
    return out


def rule_r2(ctx) -> List[R.Inst]:
    M = ctx.M
    rid = "C09.R2"
    insts = []
    for conv in c08.convs(ctx):
        fld = KEY_FIELD.get(conv.tgt_game)
        if fld is None:
            continue
        meth = conv.q.rsplit(".", 1)[1]
        key = f"{conv.name}.{meth}:{fld}"
        asg = _assignments(conv, fld)
        if not asg:
            insts.append(R.viol(rid, key, conv.file, conv.fn.node.lineno,
                                f"the target's key-count field '{fld}' is never set: every converted chart is written with the "
                                f"default key count, whatever the source has", construct=f"{conv.name}.{meth} leaves {fld}"))
            continue
        st, tgt = asg[-1]
        v = st.value
        why = None
        if isinstance(v, ast.Name):
            # a local: its one definition stands for it — provided it is computed per chart.  Bound once BEFORE the loop over the
            # source's charts it is the key count of whatever chart it was taken from, given to every chart of the set
            defs = [n for n in ast.walk(conv.fn.node) if isinstance(n, ast.Assign) and len(n.targets) == 1 and isinstance(n.targets[0], ast.Name)
                    and n.targets[0].id == v.id]
            src_names = {a.arg for a in conv.fn.node.args.args[:2]} - {"cls", "self"}
            loops = [l_ for l_ in ast.walk(conv.fn.node) if isinstance(l_, ast.For) and any(x is st for x in ast.walk(l_)) and
                     any(isinstance(x, ast.Name) and x.id in src_names for x in ast.walk(l_.iter))]
            if len(defs) == 1:
                inside = any(any(x is defs[0] for x in ast.walk(l_)) for l_ in loops)
                if loops and not inside:
                    insts.append(R.viol(rid, key, conv.file, defs[0].lineno,
                                        f"'{fld}' of every converted chart is '{v.id}', computed once before the loop over the source's charts "
                                        f"('{unparse(defs[0].value)[:70]}'): a set whose charts have different key counts (dance-single next to "
                                        f"dance-double) gets the first one's count on all of them — columns beyond it fall outside the "
                                        f"target's playfield", construct=f"{conv.name}.{meth}: {fld} <- loop-invariant {v.id}"))
                    continue
                v = defs[0].value
        if conv.tgt_game == "osu":
            if isinstance(v, ast.Constant) and v.value == 7 and conv.src_game in SEVEN_LANE_SOURCES:
                why = "constant 7 (O2Jam has seven lanes: C07.R3)"
            else:
                k = _keys_expr_kind(v, conv)
                if k in ("column-max+1", "qua-mode->keys", "sm-type->keys", "osu-circle-size"):
                    why = k
                elif k:
                    insts.append(R.viol(rid, key, conv.file, st.lineno, _why_bad(k), construct=unparse(st)))
                    continue
        elif conv.tgt_game == "qua":
            if unparse(v).endswith("QuaMapMode.KEYS_7") and conv.src_game in SEVEN_LANE_SOURCES:
                why = "KEYS_7 (O2Jam has seven lanes: C07.R3)"
            elif isinstance(v, ast.Call) and call_name(v) == "get_mode" and unparse(v.func.value).endswith("QuaMapMode") and v.args:
                k = _keys_expr_kind(v.args[0], conv)
                if k in ("column-max+1", "qua-mode->keys", "sm-type->keys", "osu-circle-size"):
                    why = f"QuaMapMode.get_mode({k})"
                elif k:
                    insts.append(R.viol(rid, key, conv.file, st.lineno, _why_bad(k), construct=unparse(st)))
                    continue
        elif conv.tgt_game == "sm":
            if isinstance(v, ast.Call) and call_name(v) == "get_type" and unparse(v.func.value).endswith("SMMapChartTypes") and v.args:
                k = _keys_expr_kind(v.args[0], conv)
                if k in ("column-max+1", "qua-mode->keys", "sm-type->keys", "osu-circle-size"):
                    why = f"SMMapChartTypes.get_type({k})"
                elif k:
                    insts.append(R.viol(rid, key, conv.file, st.lineno, _why_bad(k), construct=unparse(st)))
                    continue
        if why:
            # the source of the derivation must be the source chart (or the per-chart loop variable over it)
            insts.append(R.ok(rid, key, conv.file, st.lineno, idiom=f"{fld} = {why}"))
        elif isinstance(v, ast.Constant):
            insts.append(R.viol(rid, key, conv.file, st.lineno,
                                f"'{fld}' is the constant {v.value!r}, not derived from the source chart's key count",
                                construct=unparse(st)))
        else:
            insts.append(R.undec(rid, key, conv.file, st.lineno, f"derivation of '{fld}' not recognised: {unparse(v)[:80]}"))
    return insts


def _const_table(ctx, cls: str, meth: str):
    from .tablepairs import tables_of
    from .. import tablefn as TF
    M = ctx.M
    fn = M.fn(f"{cls}.{meth}")
    try:
        tab, default = tables_of(ctx, cls)(meth)
    except (TF.Unknown, NotLiteral, TypeError, ValueError) as e:
        raise AnalysisError(f"{cls}.{meth}: table not extracted ({e})")
    return tab, default, fn


def rule_r3(ctx) -> List[R.Inst]:
    M = ctx.M
    rid = "C09.R3"
    insts = []
    # Quaver: get_mode / get_keys mutually inverse on {4, 7, 8}
    gm, _, fm = _const_table(ctx, QMODE, "get_mode")
    gk, _, fk = _const_table(ctx, QMODE, "get_keys")
    file = M.mods[fm.mod].rel
    bad = [k for k in (4, 7, 8) if gk.get(gm.get(k)) != k]
    bad2 = [s for s in gk if gk[s] in (4, 7, 8) and gm.get(gk[s]) != s]
    fmt_ok = all(gm.get(k) == f"Keys{k}" for k in (4, 7, 8))
    if not bad and not bad2 and fmt_ok:
        insts.append(R.ok(rid, "QuaMapMode", file, fm.node.lineno, idiom="get_keys(get_mode(k)) = k for k in {4,7,8}; names KeysN"))
    else:
        insts.append(R.viol(rid, "QuaMapMode", file, fm.node.lineno,
                            f"key<->mode tables are not mutually inverse on {{4,7,8}} (keys {bad}, modes {bad2}) or do not use the "
                            f"format's 'KeysN' names", construct=f"get_mode={gm} get_keys={ {k: v for k, v in gk.items() if v is not None} }"))
    gt, _, ft = _const_table(ctx, SMTYPES, "get_type")
    sk, _, fsk = _const_table(ctx, SMTYPES, "get_keys")
    file = M.mods[ft.mod].rel
    ks = sorted(k for k in gt if isinstance(k, int))
    bad = [k for k in ks if sk.get(gt[k]) != k]
    if ks and not bad and len(ks) >= 5:
        insts.append(R.ok(rid, "SMMapChartTypes", file, ft.node.lineno, idiom=f"get_keys(get_type(k)) = k for k in {ks}"))
    else:
        insts.append(R.viol(rid, "SMMapChartTypes", file, ft.node.lineno,
                            f"get_keys(get_type(k)) != k for k in {bad} (supported {ks}): a converted chart is written with rows of "
                            f"the wrong width", construct=f"get_type={gt}"))
    # the SM writer sizes its rows from the same table
    wr = M.fn("reamber.sm.SMMap.SMMap.write")
    uses = [n for n in walk_no_nested(wr.node) if isinstance(n, ast.Call) and call_name(n) == "get_keys" and
            unparse(n.func.value).endswith("SMMapChartTypes") and n.args and unparse(n.args[0]) == "self.chart_type"]
    insts.append(R.ok(rid, "SMMap.write:row-width", M.mods[wr.mod].rel, uses[0].lineno, idiom="row width = get_keys(self.chart_type)")
                 if uses else
                 R.viol(rid, "SMMap.write:row-width", M.mods[wr.mod].rel, wr.node.lineno,
                        "the writer does not size note rows by the chart type's key count", construct="SMMap.write row width"))
    return insts


def _reader_pins_first_tempo_at_zero(ctx, game: str) -> Tuple[bool, str]:
    M = ctx.M
    if game == "bms":
        from . import c04
        hdr = M.fn(c04.BMSMAP + "._read_file_header")
        ok_hdr = any(isinstance(n, ast.Call) and call_name(n) == "BMSBpm" and n.args and isinstance(n.args[0], ast.Constant)
                     and n.args[0].value == 0 for n in ast.walk(hdr.node))
        rn = M.fn(c04.BMSMAP + "._read_notes")
        ok_tm = False
        for n in ast.walk(rn.node):
            if isinstance(n, ast.Call) and call_name(n) == "from_bpm_changes_snap":
                kw = {k.arg: k.value for k in n.keywords}
                io = kw.get("initial_offset", n.args[0] if n.args else None)
                ok_tm = isinstance(io, ast.Constant) and io.value == 0
        return ok_tm, "BMSMap._read_notes builds its timing map at initial_offset=0"
    if game == "o2j":
        fn = M.fn("reamber.o2jam.O2JMap.O2JMap.read_pkgs")
        for n in ast.walk(fn.node):
            if isinstance(n, ast.Call) and call_name(n) == "insert" and len(n.args) == 2 and \
                    isinstance(n.args[0], ast.Constant) and n.args[0].value == 0:
                kw = ctor_kwargs(n.args[1]) or {}
                off = kw.get("offset", kw.get("#0"))
                if isinstance(off, ast.Constant) and off.value == 0:
                    return True, "O2JMap.read_pkgs inserts the header tempo at offset 0"
            # the same list written as a display: [O2JBpm(offset=0, ..), *bpms]  /  [O2JBpm(offset=0, ..)] + bpms
            head = None
            if isinstance(n, ast.List) and len(n.elts) >= 2 and isinstance(n.elts[1], ast.Starred) and not isinstance(n.elts[0], ast.Starred):
                head = n.elts[0]
            if isinstance(n, ast.BinOp) and isinstance(n.op, ast.Add) and isinstance(n.left, ast.List) and len(n.left.elts) == 1:
                head = n.left.elts[0]
            if head is not None:
                kw = ctor_kwargs(head) or {}
                off = kw.get("offset", kw.get("#0"))
                if isinstance(off, ast.Constant) and off.value == 0 and isinstance(head, ast.Call) and call_name(head).endswith("Bpm"):
                    return True, "O2JMap.read_pkgs puts the header tempo at offset 0 in front of the tempo list"
        # a tempo point at the constant 0 is built but where it goes is not one of the forms above: no verdict
        for n in ast.walk(fn.node):
            if isinstance(n, ast.Call) and call_name(n).endswith("Bpm"):
                kw = ctor_kwargs(n) or {}
                off = kw.get("offset", kw.get("#0"))
                if isinstance(off, ast.Constant) and off.value == 0:
                    return None, "O2JMap.read_pkgs builds a tempo point at 0; where it is put in the tempo list is not followed"
        return False, "O2JMap.read_pkgs no longer pins the first tempo point at 0"
    return False, f"the {game} reader does not pin the first tempo point"


def rule_r4(ctx) -> List[R.Inst]:
    M = ctx.M
    rid = "C09.R4"
    insts = []
    for conv in c08.convs(ctx):
        if conv.tgt_game != "sm":
            continue
        meth = conv.q.rsplit(".", 1)[1]
        key = f"{conv.name}.{meth}:offset"
        asg = [(st, t) for st, t, kind in conv.stores if t.attr == "offset" and kind[0] in ("mapset", "inst", "unknown", "map")
               and not unparse(t.value).endswith((".hits", ".holds", ".bpms"))]
        asg = [(st, t) for st, t in asg if isinstance(t.value, ast.Name)]
        if not asg:
            insts.append(R.viol(rid, key, conv.file, conv.fn.node.lineno,
                                "the StepMania file offset is never set: beat 0 of the written file is at 0 ms whatever the source's "
                                "first tempo point is", construct=f"{conv.name}.{meth} leaves offset"))
            continue
        st, t = asg[-1]
        v = st.value
        txt = unparse(v)
        if isinstance(v, ast.Constant) and v.value in (0, 0.0):
            pinned, why = _reader_pins_first_tempo_at_zero(ctx, conv.src_game)
            if pinned:
                insts.append(R.ok(rid, key, conv.file, st.lineno, idiom=f"offset = 0: {why}"))
            elif pinned is None:
                insts.append(R.undec(rid, key, conv.file, st.lineno, why))
            else:
                insts.append(R.viol(rid, key, conv.file, st.lineno,
                                    f"offset is the constant 0 but a {conv.src_game} chart's first tempo point can be anywhere: the "
                                    f"written file is shifted by that amount", construct=f"{conv.name}.{meth}: {unparse(st)}"))
        elif isinstance(v, ast.Call) and ((call_name(v) == "first_offset" and unparse(v.func.value).endswith(".bpms")) or
                                          (call_name(v) == "min" and unparse(v.func.value).endswith(".bpms.offset"))):
            insts.append(R.ok(rid, key, conv.file, st.lineno, idiom=f"offset = {txt} (first tempo point of the source)"))
        elif isinstance(v, ast.Call) and call_name(v) in ("min", "first_offset") and ".bpms" not in txt:
            insts.append(R.viol(rid, key, conv.file, st.lineno,
                                f"offset is the earliest time of '{unparse(v.func.value)}', which includes notes and scroll "
                                f"velocities: an object before the first tempo point shifts the whole written chart",
                                construct=f"{conv.name}.{meth}: {unparse(st)}"))
        elif isinstance(v, ast.Call) and call_name(v) in ("last_offset", "max") and ".bpms" in txt:
            insts.append(R.viol(rid, key, conv.file, st.lineno,
                                f"offset is the time of the LAST tempo point ('{txt}'): beat 0 of the written file must be the first one; a "
                                f"chart with two tempo points is written shifted by their distance", construct=f"{conv.name}.{meth}: {unparse(st)}"))
        else:
            insts.append(R.undec(rid, key, conv.file, st.lineno, f"derivation of the file offset not recognised: {txt[:80]}"))
    return insts


def rule_r5(ctx) -> List[R.Inst]:
    """content of the conversion step (rule code of C08.R1-R3, evaluated here on the same 17 entry points)"""
    out = []
    for fn_, tag in ((c08.rule_r1, "R1"), (c08.rule_r2, "R2"), (c08.rule_r3, "R3"), (c08.rule_r5, "R5")):
        for i in fn_(ctx):
            i.key = f"C08.{tag}:{i.key}"
            i.rule = "C09.R5"
            out.append(i)
    return out


# what the target writer can express (frozen from the writers' documented domains: C05 quantifies over 4/4 tempo points only;
# BMSMap._write_notes emits a time-signature object only in the tempo point's own measure)
TARGET_DOMAIN = {"bms": {"bpms": {"metronome": "the BMS writer supports 4/4 only: a copied metronome != 4 is written as a one-measure "
                                               "time signature while later notes are snapped as if it carried on"}}}


def rule_r6(ctx) -> List[R.Inst]:
    insts = []
    for cv in c08.convs(ctx):
        dom = TARGET_DOMAIN.get(cv.tgt_game)
        if not dom:
            continue
        for call, tgt, st in cv.casts:
            if tgt is None or tgt.attr not in dom:
                continue
            mp = call.args[2] if len(call.args) > 2 else next((k.value for k in call.keywords if k.arg == "mapping"), None)
            names = []
            if isinstance(mp, ast.Call) and isinstance(mp.func, ast.Name) and mp.func.id == "dict":
                names = [k.arg for k in mp.keywords]
            elif isinstance(mp, ast.Dict):
                names = [C.const_str(k) for k in mp.keys]
            key = f"{cv.name}.{cv.fn.name}:{tgt.attr}"
            bad = [n for n in names if n in dom[tgt.attr]]
            if bad:
                insts.append(R.viol("C09.R6", key, cv.file, call.lineno,
                                    f"'{bad[0]}' of the source is copied into the {cv.tgt_game} chart: {dom[tgt.attr][bad[0]]}",
                                    construct=f"{key} maps {bad}"))
            else:
                insts.append(R.ok("C09.R6", key, cv.file, call.lineno, idiom=f"maps only {names}: fields the target writer can express"))
    return insts


def rule_dep(ctx):
    """obligations inherited from shared code reached through the call graph (sa/props/deps.py)"""
    from .deps import dep_insts
    return dep_insts(ctx, "C09", __import__("sa.props.common", fromlist=["x"]).converter_entries(ctx.M) + ["reamber.osu.OsuMap.OsuMap.write", "reamber.quaver.QuaMap.QuaMap.write", "reamber.sm.SMMapSet.SMMapSet.write", "reamber.bms.BMSMap.BMSMap.write",
        # "reading the file, converting and writing": the readers of the five source games
        "reamber.osu.OsuMap.OsuMap.read", "reamber.quaver.QuaMap.QuaMap.read", "reamber.sm.SMMapSet.SMMapSet.read",
        "reamber.bms.BMSMap.BMSMap.read", "reamber.o2jam.O2JMapSet.O2JMapSet.read"], skip_groups=())


SPECS = [
    RuleSpec("C09.R1", rule_r1, 16, "M0", "the 16 source->target converters exist, are exported, and their target has a writer"),
    RuleSpec("C09.R2", rule_r2, 13, "A1", "the target's key-count field is derived from the source chart's key count, per chart"),
    RuleSpec("C09.R3", rule_r3, 3, "A7", "key<->mode tables mutually inverse; the SM writer sizes rows from the same table"),
    RuleSpec("C09.R5", rule_r5, 200, "A1", "converter content: list mapping tables, declared targets, one target per source (C08.R1-R3 on the pipeline)"),
    RuleSpec("C09.R6", rule_r6, 4, "A10", "only fields the target writer can express are copied (BMS: 4/4 only)"),
    RuleSpec("C09.R4", rule_r4, 5, "A1", "StepMania file offset = first tempo point of the source (0 only where the reader pins it)"),
    RuleSpec("C09.D", rule_dep, 1, "M0", "rules of the shared code (timing engine, list classes, stacker) that the operations of this property reach"),
]

META = dict(
    explanation=(
        "Conversion pipeline glue: the 16 source->target converters exist, are exported and target a game with a "
        "writer; every converter into osu / Quaver / StepMania sets the target's key-count field (circle_size / mode / "
        "chart_type) from an expression that denotes the source's key count (column maximum + 1 over all lists, or "
        "the source's own key field through the matching table; the constant 7 only for O2Jam); the Quaver and "
        "StepMania key tables are extracted as finite maps and must be mutually inverse, and SMMap.write sizes its "
        "rows by the same table; converters into StepMania set the file offset to the source's first tempo point "
        "(the literal 0 is accepted only for BMS and O2Jam, after re-deriving from their readers that the first "
        "tempo point is pinned at 0).  The per-format and per-converter content rules are C01-C08's. The key count is derived per chart, not once for the set (R2)."),
    not_decided="numeric agreement of the written timeline (C01-C08, C10 residues), key counts the target format cannot express",
)
