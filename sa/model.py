"""M0 — the program model shared by every analysis (DESIGN.md §3).

Parses ``<root>/reamber/**/*.py`` and offers:

* module-level name resolution (imports, re-exports, guarded imports),
* classes with statically computed C3 MRO, nested classes, dataclass fields,
* functions (methods, nested functions, setters) with their kinds,
* static expansion of the four ``Property.py`` decorators,
* a literal evaluator for class/module level tables.

The model never imports the analysed package.
"""
from __future__ import annotations

import ast
import copy as copy_
import pathlib
from dataclasses import dataclass, field
from typing import Any, Dict, List, Optional, Tuple


class AnalysisError(Exception):
    """The analysis cannot decide (vanished anchor, unknown construct at an
    armed site, ...).  Always turned into exit code 2, never into a verdict."""


class NotLiteral(Exception):
    pass


@dataclass
class Mod:
    name: str
    path: pathlib.Path
    rel: str
    tree: ast.Module
    src: str
    is_pkg: bool


@dataclass
class Cls:
    qual: str
    mod: str
    node: ast.ClassDef
    outer: Optional[str]

    @property
    def name(self) -> str:
        return self.node.name


@dataclass
class Fn:
    qual: str
    mod: str
    node: ast.FunctionDef
    cls: Optional[str]
    outer_fn: Optional[str]
    kinds: frozenset

    @property
    def name(self) -> str:
        return self.node.name

    @property
    def is_static(self):
        return "static" in self.kinds

    @property
    def is_classmethod(self):
        return "class" in self.kinds

    @property
    def is_property(self):
        return "property" in self.kinds

    @property
    def is_setter(self):
        return "setter" in self.kinds


TIMEDLIST = "reamber.base.lists.TimedList.TimedList"
SERIES = "reamber.base.Series.Series"
MAP = "reamber.base.Map.Map"
MAPSET = "reamber.base.MapSet.MapSet"
MAP_STACKER = "reamber.base.Map.Map.Stacker"
MAPSET_STACKER = "reamber.base.MapSet.MapSet.Stacker"
HOLDLIST = "reamber.base.lists.notes.HoldList.HoldList"
HITLIST = "reamber.base.lists.notes.HitList.HitList"
NOTELIST = "reamber.base.lists.notes.NoteList.NoteList"
BPMLIST = "reamber.base.lists.BpmList.BpmList"
PROPERTY_MOD = "reamber.base.Property"


def _decorator_names(node) -> List[str]:
    out = []
    for d in node.decorator_list:
        f = d.func if isinstance(d, ast.Call) else d
        try:
            out.append(ast.unparse(f))
        except Exception:  # pragma: no cover
            out.append("?")
    return out


class Model:
    def __init__(self, root: str | pathlib.Path = "/repo", overlay: Optional[Dict[str, Optional[str]]] = None):
        """``overlay`` maps a path relative to the root to replacement source text
        (or None to hide the file).  It is used for the positive controls and for
        the self-test variants; a normal check run passes no replacement of
        repository files, only the additional control modules."""
        self.root = pathlib.Path(root)
        self.pkg = self.root / "reamber"
        if not self.pkg.is_dir():
            raise AnalysisError(f"package directory {self.pkg} not found")
        self.overlay = dict(overlay or {})
        self.mods: Dict[str, Mod] = {}
        paths = {str(p.relative_to(self.root)): p for p in sorted(self.pkg.rglob("*.py"))}
        for rel_s in self.overlay:
            paths.setdefault(rel_s, self.root / rel_s)
        for rel_s in sorted(paths):
            p = paths[rel_s]
            if rel_s in self.overlay and self.overlay[rel_s] is None:
                continue
            rel = pathlib.Path(rel_s)
            parts = rel.with_suffix("").parts
            is_pkg = parts[-1] == "__init__"
            name = ".".join(parts[:-1] if is_pkg else parts)
            src = self.overlay[rel_s] if rel_s in self.overlay else p.read_text(encoding="utf8")
            try:
                tree = ast.parse(src, filename=str(p))
            except SyntaxError as e:
                raise AnalysisError(f"cannot parse {rel}: {e}")
            self.mods[name] = Mod(name, p, str(rel), tree, src, is_pkg)
        self.defs: Dict[str, Dict[str, Tuple[str, Any]]] = {}
        for m in self.mods.values():
            self.defs[m.name] = self._scan_defs(m)
        self._desugar_getters()
        self._desugar_format()
        self._desugar_printf()
        self._canon_shapes()
        self.classes: Dict[str, Cls] = {}
        self.funcs: Dict[str, Fn] = {}
        for m in self.mods.values():
            self._collect(m.name, m.tree.body, m.name, None, None)
        self._mro_memo: Dict[str, List[str]] = {}
        if self._desugar_singledispatch():
            # the trees changed: collect again, so that every analysis sees the one merged function
            self.defs = {m.name: self._scan_defs(m) for m in self.mods.values()}
            self.classes, self.funcs, self._mro_memo = {}, {}, {}
            for m in self.mods.values():
                self._collect(m.name, m.tree.body, m.name, None, None)
        self._item_memo: Dict[str, Dict[str, Tuple[str, Any]]] = {}
        self._by_name: Dict[str, List[str]] = {}
        for q, f in self.funcs.items():
            self._by_name.setdefault(f.name, []).append(q)
        self.shared_default_slots: Dict[str, List[Tuple[str, str, int]]] = {}
        self._synthesise_accessors()
        self._check_reflection_inventory()

    def _desugar_singledispatch(self) -> bool:
        """a module-level `@singledispatch def f(x, ...)` with its registrations `@f.register(T) def _(x, ...)` (also the annotation
        form and `f.register(T)(g)`) is ONE function that switches on the class of its first argument: the tree is rewritten to
        `def f(x, ...): if isinstance(x, T1): <impl 1> elif ... else: <fallback>`, subclasses tested before their bases.  Left alone
        (and then reported like any construct the model does not know) when an implementation's positional parameters do not line
        up with the fallback's, or when two registered types may be related in a way the model cannot order."""
        changed = False
        for m in self.mods.values():
            d = self.defs.get(m.name, {})

            def is_sd(dec):
                if isinstance(dec, ast.Name):
                    v = d.get(dec.id)
                    return v is not None and v[0] == "import" and v[1] == ("functools", "singledispatch")
                return isinstance(dec, ast.Attribute) and dec.attr == "singledispatch" and isinstance(dec.value, ast.Name) and \
                    d.get(dec.value.id, (None, None))[0] == "importmod" and d[dec.value.id][1] == "functools"
            gens = [n for n in m.tree.body if isinstance(n, ast.FunctionDef) and any(is_sd(x) for x in n.decorator_list)]
            for f in gens:
                impls = []      # (type expr, FunctionDef, statement to drop or None)
                ok = True
                by_name = {n.name: n for n in m.tree.body if isinstance(n, ast.FunctionDef)}

                def reg_of(dec):
                    """f.register(T) -> T ; f.register -> 'annotation' ; else None"""
                    if isinstance(dec, ast.Call) and isinstance(dec.func, ast.Attribute) and dec.func.attr == "register" and \
                            isinstance(dec.func.value, ast.Name) and dec.func.value.id == f.name and len(dec.args) == 1 and not dec.keywords:
                        return dec.args[0]
                    if isinstance(dec, ast.Attribute) and dec.attr == "register" and isinstance(dec.value, ast.Name) and dec.value.id == f.name:
                        return "annotation"
                    return None
                for n in m.tree.body:
                    if isinstance(n, ast.FunctionDef) and n is not f:
                        regs = [reg_of(x) for x in n.decorator_list]
                        regs = [r for r in regs if r is not None]
                        if not regs:
                            continue
                        if len(n.decorator_list) != len(regs):
                            ok = False
                        for r in regs:
                            if r == "annotation":
                                a0 = (n.args.posonlyargs + n.args.args)[:1]
                                r = a0[0].annotation if a0 and a0[0].annotation is not None else None
                                if isinstance(r, ast.Constant) and isinstance(r.value, str):
                                    try:
                                        r = ast.parse(r.value, mode="eval").body
                                    except SyntaxError:
                                        r = None
                            if r is None:
                                ok = False
                            else:
                                impls.append((r, n, n))
                    elif isinstance(n, ast.Expr) and isinstance(n.value, ast.Call):
                        c = n.value
                        r = reg_of(c.func) if isinstance(c.func, ast.Call) else None
                        if r is not None and r != "annotation" and len(c.args) == 1 and isinstance(c.args[0], ast.Name) and c.args[0].id in by_name:
                            impls.append((r, by_name[c.args[0].id], n))          # f.register(T)(g): g stays a function of its own
                        elif isinstance(c.func, ast.Attribute) and c.func.attr == "register" and isinstance(c.func.value, ast.Name) and \
                                c.func.value.id == f.name:
                            if len(c.args) == 2 and isinstance(c.args[1], ast.Name) and c.args[1].id in by_name:
                                impls.append((c.args[0], by_name[c.args[1].id], n))
                            else:
                                ok = False
                if not ok or not impls:
                    continue
                fa = f.args
                fparams = [x.arg for x in fa.posonlyargs + fa.args]
                if not fparams or fa.vararg or fa.kwarg:
                    continue
                # order: a type whose class is a subclass of another registered type is tested first
                def bases_text(t):
                    r = self.resolve_expr(m.name, t) if isinstance(t, (ast.Name, ast.Attribute)) else None
                    if r and r[0] == "class":
                        c = r[1] if isinstance(r[1], str) else getattr(r[1], "qual", None)
                        if c in self.classes:
                            out = set()
                            for k in self.mro(c):
                                out.add(k)
                                if k in self.classes:
                                    out.update(ast.unparse(b) for b in self.classes[k].node.bases)
                            return c, out
                    return ast.unparse(t), {ast.unparse(t)}
                keyed = [(bases_text(t), t, n, st) for t, n, st in impls]
                if any(isinstance(t, (ast.Tuple, ast.BinOp, ast.Subscript)) for t, _, _ in impls):
                    continue
                texts = [k[0][0] for k in keyed]
                if len(set(texts)) != len(texts):
                    continue
                def before(a, b):      # a must be tested before b: a's class is a subclass of b's
                    return a[0][0] != b[0][0] and (b[0][0] in a[0][1] or ast.unparse(b[1]) in a[0][1] or (a[0][0], b[0][0]) == ("bool", "int"))
                order = []
                rest = list(keyed)
                while rest:
                    pick = next((x for x in rest if not any(before(y, x) for y in rest if y is not x)), None)
                    if pick is None:
                        break
                    order.append(pick)
                    rest.remove(pick)
                if rest:
                    continue
                chain: List[ast.stmt] = []
                good = True
                branches = []
                for (_, _), t, n, st in order:
                    na = n.args
                    nparams = [x.arg for x in na.posonlyargs + na.args]
                    if len(nparams) != len(fparams) or na.vararg or na.kwarg or [x.arg for x in na.kwonlyargs] != [x.arg for x in fa.kwonlyargs]:
                        good = False
                        break
                    ren = {a: b for a, b in zip(nparams, fparams) if a != b}
                    clash = {x.id for x in ast.walk(n) if isinstance(x, ast.Name)} & set(ren.values())
                    if clash - set(nparams):
                        good = False
                        break
                    body = [copy_.deepcopy(x) for x in body_without_docstring(n)]

                    class Rn(ast.NodeTransformer):
                        def visit_Name(self, x):
                            if x.id in ren:
                                return ast.copy_location(ast.Name(id=ren[x.id], ctx=x.ctx), x)
                            return x
                    body = [Rn().visit(x) for x in body] or [ast.Pass()]
                    test = ast.Call(func=ast.Name(id="isinstance", ctx=ast.Load()),
                                    args=[ast.Name(id=fparams[0], ctx=ast.Load()), copy_.deepcopy(t)], keywords=[])
                    branches.append((test, body, n))
                if not good:
                    continue
                tail: List[ast.stmt] = body_without_docstring(f) or [ast.Pass()]
                for test, body, n in reversed(branches):
                    node = ast.If(test=test, body=body, orelse=tail)
                    ast.copy_location(node, n)
                    tail = [node]
                doc = f.body[:1] if f.body and isinstance(f.body[0], ast.Expr) and isinstance(getattr(f.body[0], "value", None), ast.Constant) and \
                    isinstance(f.body[0].value.value, str) else []
                f.body = doc + tail
                f.decorator_list = [x for x in f.decorator_list if not is_sd(x)]
                drop = {id(st) for _, _, _, st in order}
                m.tree.body = [n for n in m.tree.body if id(n) not in drop]
                ast.fix_missing_locations(m.tree)
                changed = True
        return changed

    def _desugar_printf(self) -> None:
        """`b"#%03d%b:%b" % (m, c, p)` is the concatenation `(b"#%03d" % m) + c + b":" + p`: a %b / %s field of a bytes template is
        its argument, a numeric field stays a one-field printf together with the literal text before it.  (str templates: %s
        becomes str(arg).)  Rewritten at load, so that a line writer reads as a concatenation of its fields in every spelling."""
        import re
        spec = re.compile(rb"%(\((\w+)\))?([#0\- +]*)(\d+|\*)?(\.(\d+|\*))?[hlL]?([diouxXeEfFgGcrsab%])")

        def split(tpl, right, at):
            is_b = isinstance(tpl, bytes)
            raw = tpl if is_b else tpl.encode("utf8", "surrogatepass")
            args = list(right.elts) if isinstance(right, ast.Tuple) else [right]
            if isinstance(right, (ast.Dict, ast.Name)) and not isinstance(right, ast.Tuple):
                # a name may be a tuple or a mapping: only a single conversion is then unambiguous... left alone
                if isinstance(right, ast.Dict) or len(spec.findall(raw.replace(b"%%", b""))) != 1:
                    return None
            if any(isinstance(a, ast.Starred) for a in args):
                return None
            parts: List[ast.AST] = []
            lit = b""
            pos = 0
            k = 0
            mk = (lambda b_: ast.Constant(value=b_ if is_b else b_.decode("utf8", "surrogatepass")))
            for m_ in spec.finditer(raw):
                lit += raw[pos:m_.start()]
                pos = m_.end()
                conv = m_.group(7)
                if conv == b"%":
                    lit += b"%"
                    continue
                if m_.group(1) or m_.group(4) == b"*" or m_.group(6) == b"*" or k >= len(args):
                    return None
                a = args[k]
                k += 1
                plain = not m_.group(3) and not m_.group(4) and not m_.group(5)
                if conv in (b"b", b"s") and plain and is_b:
                    if lit:
                        parts.append(mk(lit))
                        lit = b""
                    parts.append(copy_.deepcopy(a))
                elif conv == b"s" and plain and not is_b:
                    if lit:
                        parts.append(mk(lit))
                        lit = b""
                    parts.append(ast.Call(func=ast.Name(id="str", ctx=ast.Load()), args=[copy_.deepcopy(a)], keywords=[]))
                else:
                    one = lit.replace(b"%", b"%%") + m_.group(0)
                    parts.append(ast.BinOp(left=mk(one), op=ast.Mod(), right=copy_.deepcopy(a)))
                    lit = b""
            lit += raw[pos:]
            if lit:
                parts.append(mk(lit))
            if k != len(args) or len(parts) < 2:
                return None
            e = parts[0]
            for p_ in parts[1:]:
                e = ast.BinOp(left=e, op=ast.Add(), right=p_)
            return ast.fix_missing_locations(ast.copy_location(e, at))

        class T(ast.NodeTransformer):
            def visit_BinOp(self, n):
                n = self.generic_visit(n)
                if isinstance(n.op, ast.Mod) and isinstance(n.left, ast.Constant) and isinstance(n.left.value, (bytes, str)) and \
                        not isinstance(n.left.value, bool):
                    r = split(n.left.value, n.right, n)
                    if r is not None:
                        return r
                return n
        for m in self.mods.values():
            if "%" in m.src:
                m.tree = T().visit(m.tree)

    def _canon_shapes(self) -> None:
        """One spelling for re-spellings that cannot change behaviour (tools/shape_probe.py makes them by machine): rewritten at load,
        so that every rule reads the same tree whichever way the source is written.

            K == x            ->  x == K            (K constant-like: a literal, an ALL_CAPS name or attribute; also !=)
            if not c: B else: A   ->  if c: A else: B    (a plain else; an elif chain is left alone)
            y if not c else x ->  x if c else y
            a <= x and x <= b ->  a <= x <= b        (x free of calls, the same text on both sides)
            v = E; return v   ->  return E           (v bound here only and read there only)
            return A if c else B  ->  if c: return A;  return B
            a_ = self.a; .. a_ ..  ->  .. self.a ..   (a_ bound at the top of the method only, self.a never stored in it)
            PAIR[bool(c)]     ->  PAIR[1] if c else PAIR[0]   (PAIR a two-element class / module constant)
            x = A if c else x     ->  if c: x = A
            with R.cm() as v: B   ->  pre; v = E; B; post      (cm a @contextmanager method `pre; yield E; post` of the module)
        """
        import re as _re

        def konst(e):
            if isinstance(e, ast.Constant):
                return True
            if isinstance(e, ast.UnaryOp) and isinstance(e.op, ast.USub) and isinstance(e.operand, ast.Constant):
                return True
            if isinstance(e, ast.Attribute) and _re.fullmatch(r"[A-Z][A-Z0-9_]*", e.attr) and isinstance(e.value, (ast.Name, ast.Attribute)):
                return True
            if isinstance(e, ast.Name) and _re.fullmatch(r"[A-Z][A-Z0-9_]+", e.id):
                return True
            if isinstance(e, (ast.Tuple, ast.List)) and e.elts and all(konst(x) for x in e.elts):
                return True
            return False

        def pure(e):
            return not any(isinstance(x, (ast.Call, ast.Await, ast.Yield, ast.YieldFrom, ast.NamedExpr)) for x in ast.walk(e))

        class T(ast.NodeTransformer):
            def visit_Compare(self, n):
                n = self.generic_visit(n)
                if len(n.ops) == 1 and isinstance(n.ops[0], (ast.Eq, ast.NotEq)) and konst(n.left) and not konst(n.comparators[0]) and \
                        pure(n.comparators[0]):
                    n.left, n.comparators = n.comparators[0], [n.left]
                return n

            def visit_BoolOp(self, n):
                n = self.generic_visit(n)
                if isinstance(n.op, ast.And) and len(n.values) == 2 and all(isinstance(v, ast.Compare) and len(v.ops) == 1 for v in n.values):
                    a, b = n.values
                    order = (ast.Lt, ast.LtE, ast.Gt, ast.GtE)
                    if isinstance(a.ops[0], order) and isinstance(b.ops[0], order) and pure(a.comparators[0]) and \
                            ast.dump(a.comparators[0]) == ast.dump(b.left) and \
                            isinstance(a.ops[0], (ast.Lt, ast.LtE)) == isinstance(b.ops[0], (ast.Lt, ast.LtE)):
                        return ast.copy_location(ast.Compare(left=a.left, ops=[a.ops[0], b.ops[0]], comparators=[a.comparators[0], b.comparators[0]]), n)
                return n

            def visit_If(self, n):
                n = self.generic_visit(n)
                if isinstance(n.test, ast.UnaryOp) and isinstance(n.test.op, ast.Not) and n.orelse and \
                        not (len(n.orelse) == 1 and isinstance(n.orelse[0], ast.If)):
                    n.test, n.body, n.orelse = n.test.operand, n.orelse, n.body
                return n

            def visit_IfExp(self, n):
                n = self.generic_visit(n)
                if isinstance(n.test, ast.UnaryOp) and isinstance(n.test.op, ast.Not):
                    n.test, n.body, n.orelse = n.test.operand, n.orelse, n.body
                return n

            def visit_Assign(self, n):
                n = self.generic_visit(n)
                # x = A if c else x   ->   if c: x = A        (x a name or a plain attribute chain: keeping its value is no store)
                if len(n.targets) == 1 and isinstance(n.value, ast.IfExp) and isinstance(n.targets[0], (ast.Name, ast.Attribute)) and pure(n.targets[0]):
                    t = n.targets[0]
                    tl = ast.unparse(t)
                    e = n.value
                    keep_else, keep_body = pure(e.orelse) and ast.unparse(e.orelse) == tl, pure(e.body) and ast.unparse(e.body) == tl
                    if keep_else != keep_body:
                        test = e.test if keep_else else ast.copy_location(ast.UnaryOp(op=ast.Not(), operand=e.test), e.test)
                        val = e.body if keep_else else e.orelse
                        return ast.copy_location(ast.If(test=test, body=[ast.copy_location(ast.Assign(targets=[t], value=val), n)], orelse=[]), n)
                return n

        def named_results(fn_node):
            counts = {}
            for x in ast.walk(fn_node):
                if isinstance(x, ast.Name):
                    c = counts.setdefault(x.id, [0, 0])
                    c[0 if isinstance(x.ctx, ast.Load) else 1] += 1
            params = {a.arg for a in fn_node.args.posonlyargs + fn_node.args.args + fn_node.args.kwonlyargs}
            nonloc = {nm for x in ast.walk(fn_node) if isinstance(x, (ast.Global, ast.Nonlocal)) for nm in x.names}

            def is_pair(a, b):
                return isinstance(a, ast.Assign) and len(a.targets) == 1 and isinstance(a.targets[0], ast.Name) and isinstance(b, ast.Return) and \
                    isinstance(b.value, ast.Name) and b.value.id == a.targets[0].id
            pairs = {}

            def count_pairs(stmts):
                for a, b in zip(stmts, stmts[1:]):
                    if is_pair(a, b):
                        pairs[b.value.id] = pairs.get(b.value.id, 0) + 1
                for st in stmts:
                    if isinstance(st, (ast.FunctionDef, ast.AsyncFunctionDef, ast.ClassDef)):
                        continue
                    for fld in ("body", "orelse", "finalbody"):
                        v = getattr(st, fld, None)
                        if isinstance(v, list) and v and isinstance(v[0], ast.stmt):
                            count_pairs(v)
                    for h in getattr(st, "handlers", []) or []:
                        count_pairs(h.body)
            count_pairs(fn_node.body)
            # a result name: every binding of it is followed at once by `return <name>`, and it is read nowhere else
            ok_names = {nm for nm, k in pairs.items() if counts.get(nm) == [k, k] and nm not in params and nm not in nonloc}

            def block(stmts):
                i = 0
                while i + 1 < len(stmts):
                    a, b = stmts[i], stmts[i + 1]
                    if is_pair(a, b) and b.value.id in ok_names:
                        stmts[i:i + 2] = [ast.copy_location(ast.Return(value=a.value), a)]
                        continue
                    i += 1
                for st in stmts:
                    if isinstance(st, (ast.FunctionDef, ast.AsyncFunctionDef, ast.ClassDef)):
                        continue
                    for fld in ("body", "orelse", "finalbody"):
                        v = getattr(st, fld, None)
                        if isinstance(v, list) and v and isinstance(v[0], ast.stmt):
                            block(v)
                    for h in getattr(st, "handlers", []) or []:
                        block(h.body)
            block(fn_node.body)
        def split_returns(node):
            """return A if c else B  ->  if c: return A   return B      (statement form: the rules walk paths)"""
            for fld in ("body", "orelse", "finalbody"):
                v = getattr(node, fld, None)
                if isinstance(v, list) and v and isinstance(v[0], ast.stmt):
                    out = []
                    for st in v:
                        if isinstance(st, ast.Return) and isinstance(st.value, ast.IfExp):
                            e = st.value
                            out.append(ast.copy_location(ast.If(test=e.test, body=[ast.copy_location(ast.Return(value=e.body), st)], orelse=[]), st))
                            out.append(ast.copy_location(ast.Return(value=e.orelse), st))
                        else:
                            out.append(st)
                    v[:] = out
                    for st in v:
                        if not isinstance(st, ast.ClassDef):
                            split_returns(st)
            for h in getattr(node, "handlers", []) or []:
                split_returns(h)

        def self_aliases(fn_node):
            """a__ = self.a at the top level of a method, `a__` bound there only and `self.a` never stored in the method: every read
            of `a__` is a read of `self.a` (the same object) — the alias is put back"""
            if not (fn_node.args.args and fn_node.args.args[0].arg in ("self", "cls")):
                return
            me = fn_node.args.args[0].arg
            stores = {}
            attr_stores = set()
            for x in ast.walk(fn_node):
                if isinstance(x, ast.Name) and isinstance(x.ctx, (ast.Store, ast.Del)):
                    stores[x.id] = stores.get(x.id, 0) + 1
                if isinstance(x, ast.Attribute) and isinstance(x.ctx, (ast.Store, ast.Del)) and isinstance(x.value, ast.Name) and x.value.id == me:
                    attr_stores.add(x.attr)
                if isinstance(x, (ast.Global, ast.Nonlocal)):
                    return
            params = {a.arg for a in fn_node.args.posonlyargs + fn_node.args.args + fn_node.args.kwonlyargs}
            for st in list(fn_node.body):
                if isinstance(st, ast.Assign) and len(st.targets) == 1 and isinstance(st.targets[0], ast.Name) and isinstance(st.value, ast.Attribute) and \
                        isinstance(st.value.value, ast.Name) and st.value.value.id == me and stores.get(st.targets[0].id) == 1 and \
                        st.targets[0].id not in params and st.value.attr not in attr_stores:
                    v, val = st.targets[0].id, st.value

                    class A(ast.NodeTransformer):
                        def visit_Name(self, n):
                            if n.id == v and isinstance(n.ctx, ast.Load):
                                return ast.copy_location(ast.Attribute(value=ast.copy_location(ast.Name(id=me, ctx=ast.Load()), n), attr=val.attr, ctx=ast.Load()), n)
                            return n
                    fn_node.body.remove(st)
                    for i_, b in enumerate(fn_node.body):
                        fn_node.body[i_] = A().visit(b)
                    if not fn_node.body:
                        fn_node.body.append(ast.copy_location(ast.Pass(), st))
        def inline_context_managers(mod_tree):
            """with R.cm() as v: BODY   ->   <pre>; v = E; BODY; <post>      for a method `cm(self)` of this module decorated with
            @contextmanager whose body is `<pre>; yield E; <post>` (or `<pre>; try: yield E finally: <post>`), one yield, no return;
            `self` in it reads as R.  BODY must leave by its end only (a return inside it still runs <post>: left alone)."""
            import copy as _c
            cms = {}
            for c in ast.walk(mod_tree):
                if not isinstance(c, ast.ClassDef):
                    continue
                for f in c.body:
                    if isinstance(f, ast.FunctionDef) and any((isinstance(d, ast.Name) and d.id == "contextmanager") or
                                                                (isinstance(d, ast.Attribute) and d.attr == "contextmanager") for d in f.decorator_list):
                        cms.setdefault(f.name, []).append(f)
            cms = {k: v[0] for k, v in cms.items() if len(v) == 1}
            if not cms:
                return

            def parts(f):
                if len(f.args.args) != 1 or f.args.vararg or f.args.kwarg or f.args.kwonlyargs:
                    return None
                body = [x for x in f.body if not (isinstance(x, ast.Expr) and isinstance(x.value, ast.Constant))]
                ys = [x for x in ast.walk(f) if isinstance(x, (ast.Yield, ast.YieldFrom))]
                if len(ys) != 1 or isinstance(ys[0], ast.YieldFrom) or any(isinstance(x, ast.Return) for x in ast.walk(f)):
                    return None
                for i, st in enumerate(body):
                    if isinstance(st, ast.Expr) and st.value is ys[0]:
                        if any(isinstance(x, (ast.Try, ast.With)) for b in body for x in ast.walk(b)):
                            return None
                        return body[:i], ys[0].value, body[i + 1:], False
                    if isinstance(st, ast.Try) and not st.handlers and not st.orelse and len(st.body) == 1 and isinstance(st.body[0], ast.Expr) and \
                            st.body[0].value is ys[0] and i == len(body) - 1:
                        return body[:i], ys[0].value, st.finalbody, True
                return None

            def pure_chain(e):
                return isinstance(e, ast.Name) or (isinstance(e, ast.Attribute) and pure_chain(e.value))

            def expand(stmts):
                out = []
                for st in stmts:
                    if isinstance(st, (ast.FunctionDef, ast.AsyncFunctionDef)) and st.name in cms:
                        out.append(st)
                        continue
                    for fld in ("body", "orelse", "finalbody"):
                        v = getattr(st, fld, None)
                        if isinstance(v, list) and v and isinstance(v[0], ast.stmt):
                            v[:] = expand(v)
                    for h in getattr(st, "handlers", []) or []:
                        h.body[:] = expand(h.body)
                    done = False
                    if isinstance(st, ast.With) and len(st.items) == 1:
                        it = st.items[0]
                        ce = it.context_expr
                        if isinstance(ce, ast.Call) and not ce.args and not ce.keywords and isinstance(ce.func, ast.Attribute) and ce.func.attr in cms and \
                                pure_chain(ce.func.value) and (it.optional_vars is None or isinstance(it.optional_vars, ast.Name)) and \
                                not any(isinstance(x, (ast.Return, ast.Break, ast.Continue, ast.Yield)) for b in st.body for x in ast.walk(b)):
                            pt = parts(cms[ce.func.attr])
                            if pt is not None:
                                pre, val, post, fin = pt
                                me = cms[ce.func.attr].args.args[0].arg
                                recv = ce.func.value

                                class S(ast.NodeTransformer):
                                    def visit_Name(self, n):
                                        if n.id == me:
                                            return ast.copy_location(_c.deepcopy(recv), n)
                                        return n

                                def at(x):
                                    x = S().visit(_c.deepcopy(x))
                                    for y in ast.walk(x):
                                        if hasattr(y, "lineno"):
                                            y.lineno = st.lineno
                                            y.end_lineno = st.lineno
                                    return x
                                new = [at(x) for x in pre]
                                if val is not None:
                                    v_ = at(val)
                                    new.append(ast.copy_location(ast.Assign(targets=[ast.copy_location(ast.Name(id=it.optional_vars.id, ctx=ast.Store()), st)], value=v_)
                                                                 if it.optional_vars is not None else ast.Expr(value=v_), st))
                                elif it.optional_vars is not None:
                                    new.append(ast.copy_location(ast.Assign(targets=[ast.copy_location(ast.Name(id=it.optional_vars.id, ctx=ast.Store()), st)],
                                                                            value=ast.copy_location(ast.Constant(value=None), st)), st))
                                tail = [at(x) for x in post]
                                if fin:
                                    new.append(ast.copy_location(ast.Try(body=st.body, handlers=[], orelse=[], finalbody=tail), st))
                                else:
                                    new.extend(st.body)
                                    new.extend(tail)
                                out.extend(new)
                                done = True
                    if not done:
                        out.append(st)
                return out
            mod_tree.body[:] = expand(mod_tree.body)

        rescan: list = []
        all_pairs = {}
        for m_ in self.mods.values():
            for owner in [c for c in ast.walk(m_.tree) if isinstance(c, ast.ClassDef)]:
                for st in owner.body:
                    tgt = st.targets[0] if isinstance(st, ast.Assign) and len(st.targets) == 1 else (st.target if isinstance(st, ast.AnnAssign) else None)
                    val = getattr(st, "value", None)
                    if isinstance(tgt, ast.Name) and isinstance(val, (ast.Tuple, ast.List)) and len(val.elts) == 2 and \
                            all(isinstance(x, ast.Attribute) and isinstance(x.value, ast.Name) and x.value.id == "operator" for x in val.elts):
                        all_pairs.setdefault(tgt.id, []).append(val)
        # (class constants of operator functions are inherited: a subclass in another module reads them through self.<NAME>; the name
        # must be bound once in the whole repository)
        all_pairs = {k: v[0] for k, v in all_pairs.items() if len(v) == 1}

        def bool_indexed(mod_tree):
            """T[bool(c)] with T a two-element tuple / list bound once at class or module level  ->  (T[1] if c else T[0]):
            a pair indexed by a truth value is a choice"""
            pairs = {}
            for owner in [mod_tree] + [c for c in ast.walk(mod_tree) if isinstance(c, ast.ClassDef)]:
                for st in owner.body:
                    tgt = st.targets[0] if isinstance(st, ast.Assign) and len(st.targets) == 1 else (st.target if isinstance(st, ast.AnnAssign) else None)
                    val = getattr(st, "value", None)
                    if isinstance(tgt, ast.Name) and isinstance(val, (ast.Tuple, ast.List)) and len(val.elts) == 2 and \
                            all(isinstance(x, (ast.Name, ast.Attribute, ast.Constant)) for x in val.elts):
                        pairs.setdefault(tgt.id, []).append(val)
            pairs = {k: v[0] for k, v in pairs.items() if len(v) == 1}
            imports_operator = any(isinstance(x, ast.Import) and any(a.name == "operator" and not a.asname for a in x.names) for x in mod_tree.body)
            inherited = {k for k in all_pairs if k not in pairs}
            for k in inherited:
                pairs[k] = all_pairs[k]

            class B(ast.NodeTransformer):
                def visit_Subscript(self, n):
                    n = self.generic_visit(n)
                    nm = n.value.id if isinstance(n.value, ast.Name) else (n.value.attr if isinstance(n.value, ast.Attribute) and isinstance(n.value.value, ast.Name)
                                                                         and (n.value.value.id in ("self", "cls") or n.value.value.id[:1].isupper()) else None)
                    if nm in pairs and isinstance(n.ctx, ast.Load) and isinstance(n.slice, ast.Call) and isinstance(n.slice.func, ast.Name) and \
                            n.slice.func.id == "bool" and len(n.slice.args) == 1 and not n.slice.keywords:
                        import copy as _c
                        lo, hi = pairs[nm].elts
                        return ast.copy_location(ast.IfExp(test=n.slice.args[0], body=ast.copy_location(_c.deepcopy(hi), n),
                                                           orelse=ast.copy_location(_c.deepcopy(lo), n)), n)
                    return n
            if pairs:
                before = ast.dump(mod_tree) if inherited and not imports_operator else None
                B().visit(mod_tree)
                if before is not None and ast.dump(mod_tree) != before:
                    # the inherited constants name `operator.<f>`: the analysis tree of this module gets the import they rely on
                    k0 = 1 if mod_tree.body and isinstance(mod_tree.body[0], ast.Expr) and isinstance(mod_tree.body[0].value, ast.Constant) else 0
                    while k0 < len(mod_tree.body) and isinstance(mod_tree.body[k0], ast.ImportFrom) and mod_tree.body[k0].module == "__future__":
                        k0 += 1
                    mod_tree.body.insert(k0, ast.Import(names=[ast.alias(name="operator", asname=None)]))
                    rescan.append(mod_tree)
        for m in self.mods.values():
            bool_indexed(m.tree)
            inline_context_managers(m.tree)
            T().visit(m.tree)
            for n in ast.walk(m.tree):
                if isinstance(n, (ast.FunctionDef, ast.AsyncFunctionDef)):
                    named_results(n)
                    split_returns(n)
                    self_aliases(n)
            ast.fix_missing_locations(m.tree)
            if any(t is m.tree for t in rescan):
                self.defs[m.name] = self._scan_defs(m)

    def _desugar_format(self) -> None:
        """`"a{}b{}".format(x, y)` (also `{0}`, `{name}`, conversions and plain format specs; also through a local bound once to the
        bound method, `pair = "{}={}".format; pair(x, y)`) is the f-string f"a{x}b{y}": rewritten at load so that every analysis of a
        writer reads one spelling of a formatted line.  Templates with attribute / index fields or nested specs are left alone."""
        import string

        def convert(template: str, args, keywords, at):
            if any(isinstance(a, ast.Starred) for a in args) or any(k.arg is None for k in keywords):
                return None
            kw = {k.arg: k.value for k in keywords}
            vals: List[ast.AST] = []
            auto = 0
            try:
                parts = list(string.Formatter().parse(template))
            except ValueError:
                return None
            for lit, fld, spec, conv in parts:
                if lit:
                    vals.append(ast.Constant(value=lit))
                if fld is None:
                    continue
                if fld == "":
                    if auto is None:
                        return None
                    ix, auto = auto, auto + 1
                    if ix >= len(args):
                        return None
                    v = args[ix]
                elif fld.isdigit():
                    auto = None if auto == 0 else auto
                    if auto not in (None,) or int(fld) >= len(args):
                        return None
                    v = args[int(fld)]
                elif fld.isidentifier() and fld in kw:
                    v = kw[fld]
                else:
                    return None
                if spec and ("{" in spec or "}" in spec):
                    return None
                vals.append(ast.FormattedValue(value=copy_.deepcopy(v), conversion=ord(conv) if conv else -1,
                                               format_spec=ast.JoinedStr(values=[ast.Constant(value=spec)]) if spec else None))
            return ast.fix_missing_locations(ast.copy_location(ast.JoinedStr(values=vals), at))

        def is_fmt(e):
            return isinstance(e, ast.Attribute) and e.attr == "format" and isinstance(e.value, ast.Constant) and isinstance(e.value.value, str)

        class T(ast.NodeTransformer):
            def __init__(self):
                self.alias: List[Dict[str, str]] = [{}]

            def visit_FunctionDef(self, n):
                stores: Dict[str, int] = {}
                for x in ast.walk(n):
                    if isinstance(x, ast.Name) and isinstance(x.ctx, (ast.Store, ast.Del)):
                        stores[x.id] = stores.get(x.id, 0) + 1
                    elif isinstance(x, ast.arg):
                        stores[x.arg] = stores.get(x.arg, 0) + 1
                al = {}
                for x in ast.walk(n):
                    if isinstance(x, ast.Assign) and len(x.targets) == 1 and isinstance(x.targets[0], ast.Name) and is_fmt(x.value) and \
                            stores.get(x.targets[0].id) == 1:
                        al[x.targets[0].id] = x.value.value.value
                self.alias.append(al)
                n = self.generic_visit(n)
                self.alias.pop()
                return n
            visit_AsyncFunctionDef = visit_FunctionDef

            def visit_Call(self, n):
                n = self.generic_visit(n)
                tpl = None
                if is_fmt(n.func):
                    tpl = n.func.value.value
                elif isinstance(n.func, ast.Name) and n.func.id in self.alias[-1]:
                    tpl = self.alias[-1][n.func.id]
                if tpl is None:
                    return n
                r = convert(tpl, n.args, n.keywords, n)
                return r if r is not None else n
        for m in self.mods.values():
            if ".format" in m.src:
                m.tree = T().visit(m.tree)

    def _desugar_getters(self) -> None:
        """operator.attrgetter("a.b") is `lambda o: o.a.b`, operator.itemgetter(k) is `lambda o: o[k]` (one argument each): the
        parsed trees are rewritten at load, so that every analysis reads a sort key / a mapper in one spelling"""
        for m in self.mods.values():
            d = self.defs.get(m.name, {})

            def is_op(name, want):
                v = d.get(name)
                return v is not None and v[0] == "import" and v[1] in (("operator", want), ("_operator", want))
            mod_alias = {k for k, v in d.items() if v[0] == "importmod" and v[1] in ("operator", "_operator")}
            if not (any(is_op(k, "attrgetter") or is_op(k, "itemgetter") for k in d) or mod_alias):
                continue

            class T(ast.NodeTransformer):
                def visit_Call(self, n):
                    n = self.generic_visit(n)
                    f = n.func
                    which = None
                    if isinstance(f, ast.Name) and is_op(f.id, "attrgetter"):
                        which = "attr"
                    elif isinstance(f, ast.Name) and is_op(f.id, "itemgetter"):
                        which = "item"
                    elif isinstance(f, ast.Attribute) and isinstance(f.value, ast.Name) and f.value.id in mod_alias and f.attr in ("attrgetter", "itemgetter"):
                        which = "attr" if f.attr == "attrgetter" else "item"
                    if which is None or len(n.args) != 1 or n.keywords or not isinstance(n.args[0], ast.Constant):
                        return n
                    body = ast.Name(id="_o", ctx=ast.Load())
                    if which == "attr":
                        if not isinstance(n.args[0].value, str) or not all(p.isidentifier() for p in n.args[0].value.split(".")):
                            return n
                        for part in n.args[0].value.split("."):
                            body = ast.Attribute(value=body, attr=part, ctx=ast.Load())
                    else:
                        body = ast.Subscript(value=body, slice=n.args[0], ctx=ast.Load())
                    lam = ast.Lambda(args=ast.arguments(posonlyargs=[], args=[ast.arg(arg="_o")], kwonlyargs=[], kw_defaults=[], defaults=[]),
                                     body=body)
                    return ast.fix_missing_locations(ast.copy_location(lam, n))
            m.tree = T().visit(m.tree)

    # ------------------------------------------------------------------ defs
    def _scan_defs(self, m: Mod) -> Dict[str, Tuple[str, Any]]:
        d: Dict[str, Tuple[str, Any]] = {}

        def scan(body):
            for n in body:
                if isinstance(n, ast.ClassDef):
                    d[n.name] = ("class", n)
                elif isinstance(n, (ast.FunctionDef, ast.AsyncFunctionDef)):
                    d[n.name] = ("func", n)
                elif isinstance(n, ast.ImportFrom):
                    base = n.module or ""
                    if n.level:
                        pk = m.name.split(".") if m.is_pkg else m.name.split(".")[:-1]
                        pk = pk[: len(pk) - (n.level - 1)]
                        base = ".".join(pk + ([n.module] if n.module else []))
                    for a in n.names:
                        d[a.asname or a.name] = ("import", (base, a.name))
                elif isinstance(n, ast.Import):
                    for a in n.names:
                        if a.asname:
                            d[a.asname] = ("importmod", a.name)
                        else:
                            d[a.name.split(".")[0]] = ("importmod", a.name.split(".")[0])
                elif isinstance(n, ast.Assign):
                    for tg in n.targets:
                        if isinstance(tg, ast.Name):
                            d[tg.id] = ("assign", n.value)
                elif isinstance(n, ast.AnnAssign):
                    if isinstance(n.target, ast.Name) and n.value is not None:
                        d[n.target.id] = ("assign", n.value)
                elif isinstance(n, ast.If):
                    scan(n.body)
                    scan(n.orelse)
                elif isinstance(n, ast.Try):
                    scan(n.body)

        scan(m.tree.body)
        return d

    def _collect(self, mod, body, prefix, cls, outer_fn):
        for n in body:
            if isinstance(n, ast.ClassDef):
                q = prefix + "." + n.name
                self.classes[q] = Cls(q, mod, n, cls)
                self._collect(mod, n.body, q, q, None)
            elif isinstance(n, (ast.FunctionDef, ast.AsyncFunctionDef)):
                decs = _decorator_names(n)
                kinds = set()
                for dname in decs:
                    if dname == "staticmethod":
                        kinds.add("static")
                    elif dname == "classmethod":
                        kinds.add("class")
                    elif dname.split(".")[-1] in ("property", "cached_property"):
                        kinds.add("property")
                    elif dname.endswith(".setter"):
                        kinds.add("setter")
                    elif dname in ("overload", "typing.overload"):
                        kinds.add("overload")
                    elif dname in ("abstractmethod", "abc.abstractmethod"):
                        kinds.add("abstract")
                if "overload" in kinds:
                    continue
                q = prefix + "." + n.name
                if "setter" in kinds:
                    q += "@setter"
                self.funcs[q] = Fn(q, mod, n, cls if outer_fn is None else self.funcs[outer_fn].cls,
                                   outer_fn, frozenset(kinds))
                self._collect_nested(mod, n, q)
            elif isinstance(n, (ast.If, ast.Try)):
                self._collect(mod, n.body, prefix, cls, outer_fn)

    def _collect_nested(self, mod, fn_node, fq):
        # nested function definitions anywhere inside the body (not in nested classes)
        def walk(nodes):
            for s in nodes:
                if isinstance(s, (ast.FunctionDef, ast.AsyncFunctionDef)):
                    q = fq + ".<locals>." + s.name
                    kinds = set()
                    for dname in _decorator_names(s):
                        if dname == "staticmethod":
                            kinds.add("static")
                    # several nested functions may share a name (getter/setter
                    # generated per decorator); disambiguate by line number
                    if q in self.funcs:
                        q = f"{q}#{s.lineno}"
                    self.funcs[q] = Fn(q, mod, s, self.funcs[fq].cls, fq, frozenset(kinds))
                    self._collect_nested(mod, s, q)
                elif isinstance(s, ast.ClassDef):
                    continue
                else:
                    for fld in ("body", "orelse", "finalbody"):
                        sub = getattr(s, fld, None)
                        if isinstance(sub, list):
                            walk(sub)
                    if isinstance(s, ast.Try):
                        for h in s.handlers:
                            walk(h.body)

        walk(fn_node.body)

    # -------------------------------------------------------------- resolver
    def resolve(self, mod: str, name: str, _seen=()) -> Optional[Tuple[str, Any]]:
        """Resolve a bare name in a module to a definition."""
        if (mod, name) in _seen:
            return None
        d = self.defs.get(mod)
        if d is None:
            return None
        if name not in d:
            if mod + "." + name in self.mods:
                return ("module", mod + "." + name)
            return None
        k, v = d[name]
        if k == "import":
            sm, sn = v
            if sm in self.mods:
                r = self.resolve(sm, sn, _seen + ((mod, name),))
                if r:
                    return r
                if sm + "." + sn in self.mods:
                    return ("module", sm + "." + sn)
                return None
            if sm + "." + sn in self.mods:
                return ("module", sm + "." + sn)
            return ("external", f"{sm}.{sn}" if sm else sn)
        if k == "importmod":
            if v in self.mods:
                return ("module", v)
            return ("external", v)
        if k == "class":
            return ("class", mod + "." + name)
        if k == "func":
            return ("func", mod + "." + name)
        return ("const", (mod, v))

    def resolve_expr(self, mod: str, e: ast.AST, cls: Optional[str] = None) -> Optional[Tuple[str, Any]]:
        """Resolve a Name / dotted Attribute expression to a definition."""
        if isinstance(e, ast.Subscript):
            return self.resolve_expr(mod, e.value, cls)
        if isinstance(e, ast.Name):
            r = self.resolve(mod, e.id)
            if r is None and cls is not None:
                # nested class referenced by bare name inside its outer class
                c = cls
                while c:
                    if c + "." + e.id in self.classes:
                        return ("class", c + "." + e.id)
                    c = self.classes[c].outer if c in self.classes else None
            return r
        if isinstance(e, ast.Attribute):
            b = self.resolve_expr(mod, e.value, cls)
            if b is None:
                return None
            k, v = b
            if k == "module":
                if v in self.mods:
                    r = self.resolve(v, e.attr)
                    if r:
                        return r
                    if v + "." + e.attr in self.mods:
                        return ("module", v + "." + e.attr)
                return None
            if k == "external":
                return ("external", v + "." + e.attr)
            if k == "class":
                if v + "." + e.attr in self.classes:
                    return ("class", v + "." + e.attr)
                # nested class / method / constant through MRO
                for kk in self.mro(v):
                    if kk + "." + e.attr in self.classes:
                        return ("class", kk + "." + e.attr)
                m = self.method(v, e.attr)
                if m:
                    return ("func", m)
                cn = self.class_const_node(v, e.attr)
                if cn is not None:
                    return ("const", (self.classes[cn[0]].mod, cn[1]))
            return None
        return None

    def external_name(self, mod: str, e: ast.AST) -> Optional[str]:
        """Dotted external name of an expression (``pd.concat`` ->
        ``pandas.concat``), or None."""
        r = self.resolve_expr(mod, e)
        if r and r[0] == "external":
            return r[1]
        return None

    # --------------------------------------------------------------- classes
    def bases(self, c: str) -> List[str]:
        cl = self.classes[c]
        out = []
        for b in cl.node.bases:
            bb = b.value if isinstance(b, ast.Subscript) else b
            r = self.resolve_expr(cl.mod, bb, cl.outer)
            if r and r[0] == "class":
                out.append(r[1])
            else:
                txt = ast.unparse(bb)
                if txt in ("Generic", "ABC", "object", "typing.Generic", "abc.ABC"):
                    continue
                out.append("ext:" + txt)
        return out

    def mro(self, c: str) -> List[str]:
        if c in self._mro_memo:
            return self._mro_memo[c]
        if c not in self.classes:
            return [c]
        bs = self.bases(c)
        seqs = [list(self.mro(b)) for b in bs] + [list(bs)]
        res = [c]
        while True:
            seqs = [s for s in seqs if s]
            if not seqs:
                break
            for s in seqs:
                h = s[0]
                if not any(h in t[1:] for t in seqs):
                    break
            else:
                raise AnalysisError(f"inconsistent MRO for {c}")
            res.append(h)
            for s in seqs:
                if s and s[0] == h:
                    del s[0]
        self._mro_memo[c] = res
        return res

    def is_sub(self, c: Optional[str], base: str) -> bool:
        return c is not None and c in self.classes and base in self.mro(c)

    def class_kind(self, c: str) -> str:
        m = self.mro(c)
        if MAP in m:
            return "chart"
        if MAPSET in m:
            return "mapset"
        if TIMEDLIST in m:
            return "list"
        if SERIES in m:
            return "item"
        if MAP_STACKER in m or MAPSET_STACKER in m:
            return "stacker"
        return "inst"

    def method(self, c: str, name: str, setter=False) -> Optional[str]:
        suffix = "@setter" if setter else ""
        for k in self.mro(c):
            q = k + "." + name + suffix
            if q in self.funcs:
                return q
        return None

    def method_after(self, c: str, owner: str, name: str) -> Optional[str]:
        """super() resolution: first definition of ``name`` after ``owner`` in mro(c)."""
        m = self.mro(c)
        if owner not in m:
            return None
        for k in m[m.index(owner) + 1:]:
            if k + "." + name in self.funcs:
                return k + "." + name
        return None

    def class_body_assign(self, c: str, name: str) -> Optional[ast.AST]:
        for st in self.classes[c].node.body:
            if isinstance(st, ast.Assign):
                for t in st.targets:
                    if isinstance(t, ast.Name) and t.id == name:
                        return st.value
            elif isinstance(st, ast.AnnAssign):
                if isinstance(st.target, ast.Name) and st.target.id == name and st.value is not None:
                    return st.value
        return None

    def class_const_node(self, c: str, name: str) -> Optional[Tuple[str, ast.AST]]:
        for k in self.mro(c):
            if k in self.classes:
                v = self.class_body_assign(k, name)
                if v is not None:
                    return (k, v)
        return None

    def subclasses(self, base: str) -> List[str]:
        return [c for c in self.classes if base in self.mro(c)]

    def funcs_named(self, name: str) -> List[str]:
        return self._by_name.get(name, [])

    def fn(self, qual: str) -> Fn:
        if qual not in self.funcs:
            raise AnalysisError(f"anchor function {qual} not found")
        return self.funcs[qual]

    def _synthesise_accessors(self) -> None:
        """Generated accessors built by a FACTORY (`setattr(cl, k, _factory(k, "df"))`): the canonical nested functions
        `<deco>.<locals>.gen_props.<locals>.getter / setter` are synthesised by specialising the factory's nested getter / setter
        with the constant arguments of the call — the key parameter becomes the defaulted parameter `k_` of the canonical form,
        constant parameters are substituted, `x if <const> else y` and `getattr(o, "<const>")` are folded.  Every analysis that
        reads the accessor bodies (effect summaries, typer, C12.R3, C16.R11) then sees the same functions as for the in-line form."""
        import copy
        prop = "reamber.base.Property"
        if prop not in self.mods:
            return
        tree = self.mods[prop].tree
        for deco in ("item_props", "list_props", "map_props", "stack_props"):
            gp = f"{prop}.{deco}.<locals>.gen_props"
            if gp not in self.funcs:
                continue
            for which in ("getter", "setter"):
                q = f"{gp}.<locals>.{which}"
                if q in self.funcs:
                    continue
                call = kvar = None
                for n in ast.walk(self.funcs[gp].node):
                    if isinstance(n, ast.For):
                        for x in n.body:
                            c = x.value if isinstance(x, ast.Expr) else None
                            if isinstance(c, ast.Call) and isinstance(c.func, ast.Name) and c.func.id == "setattr" and len(c.args) == 3 and \
                                    isinstance(c.args[2], ast.Call) and isinstance(c.args[2].func, ast.Name):
                                call = c.args[2]
                                kvar = [y.id for y in ast.walk(n.target) if isinstance(y, ast.Name)]
                if call is None:
                    continue
                fdef = [m_ for m_ in tree.body if isinstance(m_, ast.FunctionDef) and m_.name == call.func.id]
                if len(fdef) != 1:
                    continue
                inner = [m_ for m_ in fdef[0].body if isinstance(m_, ast.FunctionDef) and m_.name == which]
                if len(inner) != 1:
                    continue
                fps = [a.arg for a in fdef[0].args.args]
                dflt = dict(zip(fps[::-1], fdef[0].args.defaults[::-1]))
                bound = {}
                for i, a in enumerate(call.args):
                    if i < len(fps):
                        bound[fps[i]] = a
                for k in call.keywords:
                    if k.arg:
                        bound[k.arg] = k.value
                for p_ in fps:
                    bound.setdefault(p_, dflt.get(p_))
                keyparam = next((p_ for p_, v in bound.items() if isinstance(v, ast.Name) and v.id in (kvar or [])), None)
                if keyparam is None or any(v is None for v in bound.values()):
                    continue
                consts = {p_: v for p_, v in bound.items() if p_ != keyparam and isinstance(v, ast.Constant)}
                if len(consts) != len(bound) - 1:
                    continue
                node = copy.deepcopy(inner[0])

                class Spec(ast.NodeTransformer):
                    def visit_Name(self, n):
                        if n.id == keyparam:
                            return ast.copy_location(ast.Name(id="k_", ctx=n.ctx), n)
                        if n.id in consts and isinstance(n.ctx, ast.Load):
                            return ast.copy_location(copy.deepcopy(consts[n.id]), n)
                        return n

                    def visit_IfExp(self, n):
                        n = self.generic_visit(n)
                        if isinstance(n.test, ast.Constant):
                            return n.body if n.test.value else n.orelse
                        return n

                    def visit_Call(self, n):
                        n = self.generic_visit(n)
                        if isinstance(n.func, ast.Name) and n.func.id == "getattr" and len(n.args) == 2 and isinstance(n.args[1], ast.Constant) and \
                                isinstance(n.args[1].value, str):
                            return ast.copy_location(ast.Attribute(value=n.args[0], attr=n.args[1].value, ctx=ast.Load()), n)
                        return n
                node = Spec().visit(node)
                node.args.args.append(ast.arg(arg="k_"))
                node.args.defaults.append(ast.Name(id=bound[keyparam].id, ctx=ast.Load()))
                ast.fix_missing_locations(node)
                self.funcs[q] = Fn(q, prop, node, self.funcs[gp].cls, gp, frozenset())
                self._by_name.setdefault(which, []).append(q)

    def gen_accessor(self, deco: str, which: str) -> Optional[str]:
        """qualified name of the getter / setter body that the property-generating decorator `deco` of reamber.base.Property
        installs: a function named `which` nested in the decorator, or nested in a module-level factory the decorator calls
        (`setattr(cl, k, _factory(k))`)"""
        prop = "reamber.base.Property"
        top = f"{prop}.{deco}"
        cand = sorted(q for q in self.funcs if q.startswith(top + ".<locals>") and q.endswith("." + which))
        if cand:
            return cand[0]
        # factories called from inside the decorator
        facts = set()
        for q, f in self.funcs.items():
            if q == top or q.startswith(top + ".<locals>"):
                for n in ast.walk(f.node):
                    if isinstance(n, ast.Call) and isinstance(n.func, ast.Name):
                        r = self.resolve(prop, n.func.id)
                        if r and r[0] == "func":
                            facts.add(r[1] if isinstance(r[1], str) else getattr(r[1], "qual", ""))
        for fq in sorted(facts):
            cand = sorted(q for q in self.funcs if q.startswith(fq + ".<locals>") and q.endswith("." + which))
            if cand:
                return cand[0]
        return None

    def nfn(self, qual: str, subst: bool = False, guards: bool = False, keep=(), comps: bool = False, ifexp: bool = False, closures: bool = False, ssa: bool = False, ctor: bool = False) -> Fn:
        """the function with its body in normal form (sa/normal.py): helpers inlined, table loops unrolled, ..."""
        import dataclasses
        from . import normal
        key = (qual, subst, guards, tuple(keep), comps, ifexp, closures, ssa, ctor)
        cache = self.__dict__.setdefault("_nfn_cache", {})
        if key not in cache:
            f = self.fn(qual)
            cache[key] = dataclasses.replace(f, node=normal.normalise(self, f, subst=subst, guards=guards, keep=keep, comps=comps, ifexp=ifexp, closures=closures, ssa=ssa, ctor=ctor))
        return cache[key]

    def cls(self, qual: str) -> Cls:
        if qual not in self.classes:
            raise AnalysisError(f"anchor class {qual} not found")
        return self.classes[qual]

    # ---------------------------------------------------- dataclass fields
    def dataclass_fields(self, c: str) -> List[Tuple[str, str, Optional[ast.AST], str]]:
        """(name, annotation text, default node, defining class) in dataclass order."""
        out: Dict[str, Tuple[str, str, Optional[ast.AST], str]] = {}
        for k in reversed(self.mro(c)):
            if k not in self.classes:
                continue
            node = self.classes[k].node
            if "dataclass" not in [d.split("(")[0] for d in _decorator_names(node)]:
                continue
            for st in node.body:
                if isinstance(st, ast.AnnAssign) and isinstance(st.target, ast.Name):
                    ann = ast.unparse(st.annotation)
                    if ann.startswith("ClassVar"):
                        continue
                    out[st.target.id] = (st.target.id, ann, st.value, k)
        return list(out.values())

    # ------------------------------------------------ decorator expansion
    def _has_decorator(self, c: str, name: str) -> Optional[ast.AST]:
        for d in self.classes[c].node.decorator_list:
            f = d.func if isinstance(d, ast.Call) else d
            r = self.resolve_expr(self.classes[c].mod, f)
            if r and r[0] == "func" and r[1] == PROPERTY_MOD + "." + name:
                return d
        return None

    def _own_props_literal(self, c: str):
        v = self.class_body_assign(c, "_props")
        if v is None:
            return None
        cl = self.classes[c]
        if isinstance(v, ast.Call) and isinstance(v.func, ast.Name) and v.func.id == "dict":
            out = {}
            for kw in v.keywords:
                if kw.arg is None:
                    raise AnalysisError(f"{c}._props: ** unpacking not modelled")
                out[kw.arg] = kw.value
            return out
        if isinstance(v, ast.Dict):
            out = {}
            for k, val in zip(v.keys, v.values):
                if not (isinstance(k, ast.Constant) and isinstance(k.value, str)):
                    raise AnalysisError(f"{c}._props: non-literal key")
                out[k.value] = val
            return out
        if isinstance(v, (ast.List, ast.Tuple)):
            return [self.lit(cl.mod, e) for e in v.elts]
        # {name: type(obj) for name, obj in MODULE_DICT.items()}: classes of the instances of a module-level dict(...)
        if isinstance(v, ast.DictComp) and len(v.generators) == 1 and isinstance(v.generators[0].iter, ast.Call) and \
                isinstance(v.generators[0].iter.func, ast.Attribute) and v.generators[0].iter.func.attr == "items" and \
                isinstance(v.generators[0].iter.func.value, ast.Name) and isinstance(v.generators[0].target, ast.Tuple) and \
                isinstance(v.value, ast.Call) and isinstance(v.value.func, ast.Name) and v.value.func.id == "type":
            r0 = self.resolve(cl.mod, v.generators[0].iter.func.value.id)
            node0 = r0[1][1] if r0 and r0[0] == "const" else None
            if isinstance(node0, ast.Call) and isinstance(node0.func, ast.Name) and node0.func.id == "dict":
                out = {}
                for kw in node0.keywords:
                    if isinstance(kw.value, ast.Call):
                        out[kw.arg] = kw.value.func
                return out
        # list(Other._props) / [*Other._props] / sorted(Other._props): the key names of another class's table
        if isinstance(v, ast.Call) and isinstance(v.func, ast.Name) and v.func.id in ("list", "tuple", "sorted") and \
                len(v.args) == 1 and isinstance(v.args[0], ast.Attribute) and v.args[0].attr == "_props":
            r = self.resolve_expr(cl.mod, v.args[0].value, c)
            if r and r[0] == "class":
                other = self._own_props_literal(r[1])
                if isinstance(other, dict):
                    return list(other.keys())
                if isinstance(other, list):
                    return list(other)
        raise AnalysisError(f"{c}._props: unsupported literal shape {type(v).__name__}")

    def _getattr_props(self, c: str, merged_fn):
        """Static twin of ``getattr(cl, '_props')`` at decoration time."""
        for k in self.mro(c):
            if k not in self.classes:
                continue
            if k != c and (self._has_decorator(k, "item_props") or self._has_decorator(k, "map_props")):
                return merged_fn(k)
            own = self._own_props_literal(k)
            if own is not None:
                if k != c and isinstance(own, dict):
                    return dict(own)
                return own
        return None

    def _merge_props(self, c: str, deco: str, memo: dict):
        if c in memo:
            return memo[c]
        memo[c] = {}
        merged = lambda k: self._merge_props(k, deco, memo)  # noqa: E731
        if not self._has_decorator(c, deco):
            # undecorated class: plain attribute lookup
            r = self._getattr_props(c, merged) or {}
            memo[c] = r
            return r
        props_list = []
        first = self._getattr_props(c, merged)
        if first is None:
            raise AnalysisError(f"{c}: decorated with {deco} but no _props reachable")
        props_list.append(first)

        def hasattr_props(b):
            return b in self.classes and self._getattr_props(b, merged) is not None

        def get_prop(k):
            for b in self.bases(k):
                if b.startswith("ext:"):
                    continue
                if hasattr_props(b):
                    props_list.append(self._getattr_props(b, merged))
                get_prop(b)

        get_prop(c)
        out = {}
        for p in props_list:
            if not isinstance(p, dict):
                raise AnalysisError(f"{c}: _props of a base is not a mapping")
            for k, v in p.items():
                out[k] = v
        memo[c] = out
        return out

    def item_fields(self, c: str) -> Dict[str, Tuple[str, Any]]:
        """Declared fields of an item class: name -> (dtype, default value)."""
        if c in self._item_memo:
            return self._item_memo[c]
        if not hasattr(self, "_item_nodes"):
            self._item_nodes = {}
        raw = self._merge_props(c, "item_props", self._item_nodes)
        out = {}
        for k, v in raw.items():
            mod = None
            # find the module owning the literal for evaluation of names
            for kk in self.mro(c):
                if kk in self.classes:
                    own = self._own_props_literal(kk)
                    if isinstance(own, dict) and k in own and own[k] is v:
                        mod = self.classes[kk].mod
                        break
            try:
                val = self.lit(mod or self.classes[c].mod, v)
            except NotLiteral:
                raise AnalysisError(f"{c}._props[{k}] is not a literal")
            if not (isinstance(val, list) and len(val) == 2 and isinstance(val[0], str)):
                raise AnalysisError(f"{c}._props[{k}] is not [dtype, default]")
            out[k] = (val[0], val[1])
        self._item_memo[c] = out
        return out

    def item_class_of_list(self, c: str) -> Optional[str]:
        """Item class handed to ``@list_props`` (most-derived decorator wins)."""
        for k in self.mro(c):
            if k not in self.classes:
                continue
            d = self._has_decorator(k, "list_props")
            if d is not None:
                if not (isinstance(d, ast.Call) and d.args):
                    raise AnalysisError(f"{k}: list_props without item class")
                r = self.resolve_expr(self.classes[k].mod, d.args[0])
                if not r or r[0] != "class":
                    raise AnalysisError(f"{k}: list_props item class unresolved")
                return r[1]
        return None

    def list_columns(self, c: str) -> List[str]:
        ic = self.item_class_of_list(c)
        if ic is None:
            raise AnalysisError(f"{c}: no list_props decorator in MRO")
        return list(self.item_fields(ic).keys())

    def map_slots(self, c: str) -> Dict[str, str]:
        """slot name -> list class, from the ``objs`` default_factory literal of
        the most derived class declaring it."""
        for k in self.mro(c):
            if k not in self.classes:
                continue
            for st in self.classes[k].node.body:
                if isinstance(st, ast.AnnAssign) and isinstance(st.target, ast.Name) and st.target.id == "objs":
                    lams = [x for x in ast.walk(st.value) if isinstance(x, ast.Lambda)] if st.value else []
                    if not lams:
                        raise AnalysisError(f"{k}.objs: no default_factory lambda")
                    body = lams[0].body
                    out = {}
                    if isinstance(body, ast.Call) and isinstance(body.func, ast.Name) and body.func.id == "dict":
                        items = [(kw.arg, kw.value) for kw in body.keywords]
                    elif isinstance(body, ast.Dict):
                        items = [(kk.value if isinstance(kk, ast.Constant) else None, vv)
                                 for kk, vv in zip(body.keys, body.values)]
                    else:
                        raise AnalysisError(f"{k}.objs: default_factory is not a dict literal")
                    expanded = []
                    for name, val in items:
                        if name is None and isinstance(val, ast.Name):
                            # **MODULE_LEVEL_DICT: the same list instances are handed to every chart
                            r0 = self.resolve(self.classes[k].mod, val.id)
                            node0 = r0[1][1] if r0 and r0[0] == "const" else None
                            if isinstance(node0, ast.Call) and isinstance(node0.func, ast.Name) and node0.func.id == "dict":
                                for kw in node0.keywords:
                                    expanded.append((kw.arg, kw.value))
                                    self.shared_default_slots.setdefault(k, []).append((kw.arg, val.id, val.lineno))
                                continue
                        expanded.append((name, val))
                    for name, val in expanded:
                        if name is None or not isinstance(val, ast.Call):
                            raise AnalysisError(f"{k}.objs: unsupported entry")
                        r = self.resolve_expr(self.classes[k].mod, val.func)
                        if not r or r[0] != "class":
                            raise AnalysisError(f"{k}.objs[{name}]: list class unresolved")
                        out[name] = r[1]
                    return out
        raise AnalysisError(f"{c}: no objs declaration")

    def map_props_names(self, c: str) -> Dict[str, str]:
        """Names for which ``map_props`` generates chart properties: name -> declared list type."""
        if not hasattr(self, "_map_nodes"):
            self._map_nodes = {}
        raw = self._merge_props(c, "map_props", self._map_nodes)
        out = {}
        for k, v in raw.items():
            owner_mod = self.classes[c].mod
            for kk in self.mro(c):
                if kk in self.classes:
                    own = self._own_props_literal(kk)
                    if isinstance(own, dict) and k in own and own[k] is v:
                        owner_mod = self.classes[kk].mod
                        break
            r = self.resolve_expr(owner_mod, v)
            out[k] = r[1] if r and r[0] == "class" else "?"
        return out

    def stacker_class(self, chart: str) -> str:
        for k in self.mro(chart):
            if k + ".Stacker" in self.classes:
                return k + ".Stacker"
        raise AnalysisError(f"{chart}: no Stacker class")

    def stacker_props(self, stacker: str) -> List[str]:
        out: List[str] = []
        for k in self.mro(stacker):
            if k in self.classes and self._has_decorator(k, "stack_props"):
                own = self._own_props_literal(k)
                if isinstance(own, list):
                    for n in own:
                        if n not in out:
                            out.append(n)
        return out

    # --------------------------------------------------------- generic args
    def mapset_chart_class(self, c: str) -> Optional[str]:
        for k in self.mro(c):
            if k not in self.classes:
                continue
            for b in self.classes[k].node.bases:
                if isinstance(b, ast.Subscript):
                    r = self.resolve_expr(self.classes[k].mod, b.value)
                    if r and r[0] == "class" and r[1] == MAPSET:
                        sl = b.slice
                        elts = sl.elts if isinstance(sl, ast.Tuple) else [sl]
                        rr = self.resolve_expr(self.classes[k].mod, elts[-1])
                        if rr and rr[0] == "class":
                            return rr[1]
        return None

    # ------------------------------------------------------ literal evaluator
    def lit(self, mod: str, e: ast.AST, cls: Optional[str] = None, _depth=0) -> Any:
        if _depth > 20:
            raise NotLiteral("depth")
        L = lambda x: self.lit(mod, x, cls, _depth + 1)  # noqa: E731
        if isinstance(e, ast.Constant):
            return e.value
        if isinstance(e, (ast.List, ast.Tuple, ast.Set)):
            vals = []
            for x in e.elts:
                if isinstance(x, ast.Starred):
                    vals.extend(L(x.value))
                else:
                    vals.append(L(x))
            if isinstance(e, ast.Tuple):
                return tuple(vals)
            if isinstance(e, ast.Set):
                return set(vals)
            return vals
        if isinstance(e, ast.Dict):
            out = {}
            for k, v in zip(e.keys, e.values):
                if k is None:
                    d = L(v)
                    if not isinstance(d, dict):
                        raise NotLiteral("** of non-dict")
                    out.update(d)
                else:
                    out[L(k)] = L(v)
            return out
        if isinstance(e, ast.UnaryOp):
            v = L(e.operand)
            if isinstance(e.op, ast.USub):
                return -v
            if isinstance(e.op, ast.UAdd):
                return +v
            if isinstance(e.op, ast.Not):
                return not v
            raise NotLiteral("unary")
        if isinstance(e, ast.BinOp):
            a, b = L(e.left), L(e.right)
            try:
                if isinstance(e.op, ast.Add):
                    return a + b
                if isinstance(e.op, ast.Sub):
                    return a - b
                if isinstance(e.op, ast.Mult):
                    return a * b
                if isinstance(e.op, ast.Div):
                    return a / b
                if isinstance(e.op, ast.FloorDiv):
                    return a // b
                if isinstance(e.op, ast.Pow):
                    return a ** b
                if isinstance(e.op, ast.Mod):
                    return a % b
            except Exception:
                raise NotLiteral("arith")
            raise NotLiteral("binop")
        if isinstance(e, ast.Call):
            if isinstance(e.func, ast.Name) and e.func.id == "dict" and not e.args:
                return {kw.arg: L(kw.value) for kw in e.keywords}
            if isinstance(e.func, ast.Name) and e.func.id == "range" and not e.keywords:
                return range(*[L(a) for a in e.args])
            if isinstance(e.func, ast.Name) and e.func.id in ("list", "tuple") and len(e.args) == 1:
                return (list if e.func.id == "list" else tuple)(L(e.args[0]))
            raise NotLiteral("call")
        if isinstance(e, ast.Name):
            if cls is not None:
                cn = self.class_const_node(cls, e.id)
                if cn is not None:
                    return self.lit(self.classes[cn[0]].mod, cn[1], cn[0], _depth + 1)
            r = self.resolve(mod, e.id)
            if r and r[0] == "const":
                return self.lit(r[1][0], r[1][1], None, _depth + 1)
            raise NotLiteral(f"name {e.id}")
        if isinstance(e, ast.Attribute):
            r = self.resolve_expr(mod, e.value, cls)
            if r and r[0] == "class":
                cn = self.class_const_node(r[1], e.attr)
                if cn is not None:
                    return self.lit(self.classes[cn[0]].mod, cn[1], cn[0], _depth + 1)
            raise NotLiteral("attribute")
        if isinstance(e, ast.JoinedStr):
            parts = []
            for v in e.values:
                if isinstance(v, ast.Constant):
                    parts.append(str(v.value))
                else:
                    raise NotLiteral("f-string hole")
            return "".join(parts)
        raise NotLiteral(type(e).__name__)

    def class_const(self, c: str, name: str) -> Any:
        cn = self.class_const_node(c, name)
        if cn is None:
            raise AnalysisError(f"{c}.{name}: constant not found")
        try:
            return self.lit(self.classes[cn[0]].mod, cn[1], cn[0])
        except NotLiteral as e:
            raise AnalysisError(f"{c}.{name}: not a literal ({e})")

    # ------------------------------------------------------------ reflection
    REFLECTIVE = {"getattr", "setattr", "delattr", "exec", "eval", "vars", "globals", "locals", "__import__"}
    REFLECTIVE_ATTRS = {"__setattr__", "__getattribute__", "__dict__", "__getattr__", "__delattr__"}
    REFLECTION_ALLOWED = {
        # (module, enclosing top-level def) -> reason
        ("reamber.base.Property", "item_props"): "decorator, statically expanded by M0",
        ("reamber.base.Property", "list_props"): "decorator, statically expanded by M0",
        ("reamber.base.Property", "stack_props"): "decorator, statically expanded by M0",
        ("reamber.base.Property", "map_props"): "decorator, statically expanded by M0",
        ("reamber.algorithms.convert.ConvertBase", "ConvertBase"): "cast(): names come from dict literals at the call sites (expanded per call site)",
        ("reamber.algorithms.playField.parts.PFDrawSv", "PFDrawSv"): "playField is outside every property",
        ("reamber.algorithms.analysis.scroll_speed", "scroll_speed"): "hasattr(m, 'svs') — a constant-name capability test",
    }

    def _check_reflection_inventory(self):
        self.reflection_sites: List[Tuple[str, int, str]] = []
        self.reflection_unknown_where: List[Tuple[str, int]] = []
        unknown = []
        for m in self.mods.values():
            if ".playField" in m.name or m.name.endswith("parse_replay"):
                continue
            for top in m.tree.body:
                for n in ast.walk(top):
                    hit = None
                    if isinstance(n, ast.Call) and isinstance(n.func, ast.Name) and n.func.id in self.REFLECTIVE:
                        hit = n.func.id
                    elif isinstance(n, ast.Attribute) and n.attr in self.REFLECTIVE_ATTRS:
                        hit = n.attr
                    elif isinstance(n, ast.Call) and isinstance(n.func, ast.Name) and n.func.id == "hasattr":
                        # hasattr with a constant name is a capability test, not a flow
                        if not (len(n.args) == 2 and isinstance(n.args[1], ast.Constant)):
                            hit = "hasattr(dynamic)"
                    if hit:
                        topname = getattr(top, "name", "<module>")
                        self.reflection_sites.append((m.rel, n.lineno, hit))
                        if (m.name, topname) in self.REFLECTION_ALLOWED:
                            continue
                        if self._helper_of_allowed(m, topname):
                            continue     # a private helper of an allowed construct, used only by it (the same reason applies)
                        if hit in ("getattr", "setattr") and self._finite_attr_name(m, top, n):
                            continue     # the attribute name ranges over a literal table: a finite set of ordinary accesses
                        unknown.append(f"{m.rel}:{n.lineno} {hit} in {topname}")
                        self.reflection_unknown_where.append((m.name, n.lineno))
        self.reflection_unknown = unknown

    def _helper_of_allowed(self, m, topname: str) -> bool:
        """a private module-level function of a module with an allowed construct, referenced only from inside that construct
        (or from other such helpers): extracting part of `cast()` or of a property decorator into `_helper` moves the reflective
        call, not what it does"""
        if not topname.startswith("_") or topname.startswith("__"):
            return False
        allowed_tops = {t for (mod, t) in self.REFLECTION_ALLOWED if mod == m.name}
        if not allowed_tops:
            return False
        users = set()
        for top in m.tree.body:
            tn = getattr(top, "name", None)
            if tn == topname:
                continue
            if any(isinstance(n, ast.Name) and n.id == topname for n in ast.walk(top)):
                users.add(tn or "<module>")
        # other modules must not import it
        for om in self.mods.values():
            if om is m:
                continue
            d = self.defs.get(om.name, {})
            for k, v in d.items():
                if v[0] == "import" and v[1] == (m.name, topname):
                    return False
        return bool(users) and all(u in allowed_tops or (u and u.startswith("_") and self._helper_of_allowed(m, u)) for u in users)

    def _finite_attr_name(self, m, top, call: ast.Call) -> bool:
        """getattr / setattr whose name argument is a string constant, an element of a literal table (`TABLE[k]`), or a loop
        variable ranging over a literal table / tuple of strings"""
        if len(call.args) < 2:
            return False
        name = call.args[1]

        def literal_strings(e) -> bool:
            try:
                v = self.lit(m.name, e)
            except Exception:
                return False
            if isinstance(v, dict):
                return all(isinstance(x, str) for x in v.values()) or all(isinstance(x, str) for x in v.keys())
            return isinstance(v, (list, tuple, set, frozenset)) and all(isinstance(x, str) for x in v)
        if isinstance(name, ast.Constant) and isinstance(name.value, str):
            return True
        if isinstance(name, ast.Subscript) and literal_strings(name.value):
            return True
        def table_node(e):
            """the display a name / cls.X / self.X / Class.X is bound to (module level, or in a class body of this module)"""
            nm = None
            if isinstance(e, ast.Name):
                nm = e.id
            elif isinstance(e, ast.Attribute) and isinstance(e.value, ast.Name):
                nm = e.attr
            if nm is None:
                return e if isinstance(e, (ast.Tuple, ast.List, ast.Dict)) else None
            cands = []
            trees = [m.tree]
            if isinstance(e, ast.Attribute) and isinstance(e.value, ast.Name) and e.value.id not in ("self", "cls"):
                # Class.TABLE with the class imported from another module of the repository: its own module
                r_ = self.resolve(m.name, e.value.id)
                if r_ and r_[0] == "class" and r_[1] in getattr(self, "classes", {}) and self.classes[r_[1]].mod != m.name:
                    trees = [self.mods[self.classes[r_[1]].mod].tree]
            for tree_ in trees:
                for st in ast.walk(tree_):
                    if isinstance(st, ast.Assign) and len(st.targets) == 1 and isinstance(st.targets[0], ast.Name) and st.targets[0].id == nm:
                        cands.append(st.value)
                    elif isinstance(st, ast.AnnAssign) and isinstance(st.target, ast.Name) and st.target.id == nm and st.value is not None:
                        cands.append(st.value)
            if len(cands) == 1 and isinstance(cands[0], ast.Call) and isinstance(cands[0].func, ast.Name) and cands[0].func.id == "dict" and \
                    not cands[0].args and cands[0].keywords and all(k.arg for k in cands[0].keywords):
                # dict(a=.., b=..): the display {"a": .., "b": ..}
                return ast.copy_location(ast.Dict(keys=[ast.Constant(value=k.arg) for k in cands[0].keywords], values=[k.value for k in cands[0].keywords]), cands[0])
            return cands[0] if len(cands) == 1 and isinstance(cands[0], (ast.Tuple, ast.List, ast.Dict)) else None

        def column_is_strings(tbl, pos) -> bool:
            """rows of a display of displays: the element at `pos` of every row is a string constant (None: the rows themselves are)"""
            rows = list(tbl.keys) if isinstance(tbl, ast.Dict) and pos == "key" else (list(tbl.values) if isinstance(tbl, ast.Dict) else list(tbl.elts))
            if not rows:
                return False
            for r in rows:
                x = r
                if pos not in (None, "key", "value"):
                    if not (isinstance(r, (ast.Tuple, ast.List)) and pos < len(r.elts)):
                        return False
                    x = r.elts[pos]
                if not (isinstance(x, ast.Constant) and isinstance(x.value, str)):
                    return False
            return True
        if isinstance(name, ast.Name):
            for n in ast.walk(top):
                if isinstance(n, (ast.For, ast.comprehension)):
                    tgt_names = {x.id for x in ast.walk(n.target) if isinstance(x, ast.Name)}
                    if name.id in tgt_names:
                        it = n.iter
                        how = None
                        if isinstance(it, ast.Call) and isinstance(it.func, ast.Attribute) and it.func.attr in ("items", "keys", "values"):
                            how = it.func.attr
                            it = it.func.value
                        if literal_strings(it):
                            return True
                        # a table of rows (possibly a class-level constant, rows mixing names and classes): the name's own column
                        tbl = table_node(it)
                        if tbl is not None:
                            tg = n.target
                            if isinstance(tg, ast.Name):
                                pos = "key" if isinstance(tbl, ast.Dict) and how in (None, "keys") else ("value" if how == "values" else None)
                            elif isinstance(tg, ast.Tuple) and how == "items" and len(tg.elts) == 2:
                                pos = "key" if isinstance(tg.elts[0], ast.Name) and tg.elts[0].id == name.id else "value"
                            elif isinstance(tg, ast.Tuple):
                                pos = next((k for k, x in enumerate(tg.elts) if isinstance(x, ast.Name) and x.id == name.id), None)
                                if pos is None:
                                    continue
                            else:
                                continue
                            if column_is_strings(tbl, pos):
                                return True
        # names taken from the declared fields of a dataclass: `f.name` for f in dataclasses.fields(C) (possibly through zip / a
        # filter / module-level comprehensions built from it) — a finite set, and all of them plain fields of C
        if self._from_dataclass_fields(m, top, name, 0):
            return True
        return False

    def _from_dataclass_fields(self, m, top, e, depth: int) -> bool:
        if depth > 5:
            return False

        def is_fields_call(x) -> bool:
            if isinstance(x, ast.Call) and len(x.args) == 1 and not x.keywords and isinstance(x.args[0], (ast.Name, ast.Call, ast.Attribute)):
                f = x.func
                if isinstance(f, ast.Name) and f.id == "fields":
                    r = self.resolve(m.name, "fields")
                    return bool(r and r[0] == "external" and r[1].startswith("dataclasses"))
                if isinstance(f, ast.Attribute) and f.attr == "fields" and isinstance(f.value, ast.Name) and f.value.id == "dataclasses":
                    return True
            return False

        def binder_of(var: str):
            """(target, iterable) of the loop / comprehension that binds ``var`` (in the function, or at module level)"""
            for scope in (top, m.tree):
                for n in ast.walk(scope):
                    if isinstance(n, (ast.For, ast.comprehension)) and any(isinstance(x, ast.Name) and x.id == var for x in ast.walk(n.target)):
                        return n.target, n.iter
            return None

        def module_value(nm: str):
            c = [st.value for st in m.tree.body if isinstance(st, ast.Assign) and len(st.targets) == 1 and isinstance(st.targets[0], ast.Name) and
                 st.targets[0].id == nm] + \
                [st.value for st in m.tree.body if isinstance(st, ast.AnnAssign) and isinstance(st.target, ast.Name) and st.target.id == nm and st.value is not None]
            return c[0] if len(c) == 1 else None

        def elements_from_fields(it, tgt, var) -> bool:
            """does ``var`` (bound by tgt over it) range over Field objects / names of fields?"""
            if is_fields_call(it):
                return isinstance(tgt, ast.Name) and tgt.id == var
            if isinstance(it, ast.Call) and isinstance(it.func, ast.Name) and it.func.id == "zip" and isinstance(tgt, ast.Tuple) and len(tgt.elts) == len(it.args):
                for t_, a_ in zip(tgt.elts, it.args):
                    if isinstance(t_, ast.Name) and t_.id == var:
                        return elements_from_fields(a_, t_, var)
                return False
            if isinstance(it, ast.Call) and isinstance(it.func, ast.Name) and it.func.id in ("list", "tuple", "iter", "reversed", "sorted") and it.args:
                return elements_from_fields(it.args[0], tgt, var)
            if isinstance(it, (ast.ListComp, ast.GeneratorExp, ast.SetComp)) and isinstance(tgt, ast.Name) and tgt.id == var:
                return _names_comp(it)         # for name in [f.name for f in fields(C)]
            if isinstance(it, ast.Name):
                v = module_value(it.id)
                # a module-level list of names built from the fields: [f.name for f in fields(C) if ..]
                if isinstance(v, (ast.ListComp, ast.GeneratorExp, ast.SetComp)) and isinstance(tgt, ast.Name) and tgt.id == var:
                    return self._from_dataclass_fields(m, v, v.elt, depth + 1) if False else _names_comp(v)
            return False

        def _names_comp(comp) -> bool:
            g = comp.generators[0]
            return len(comp.generators) == 1 and isinstance(comp.elt, ast.Attribute) and comp.elt.attr == "name" and isinstance(comp.elt.value, ast.Name) and \
                isinstance(g.target, ast.Name) and g.target.id == comp.elt.value.id and is_fields_call(g.iter)
        # f.name with f ranging over fields(C)
        if isinstance(e, ast.Attribute) and e.attr == "name" and isinstance(e.value, ast.Name):
            b = binder_of(e.value.id)
            return b is not None and elements_from_fields(b[1], b[0], e.value.id)
        # a name ranging over a module-level list of field names
        if isinstance(e, ast.Name):
            b = binder_of(e.id)
            if b is not None and elements_from_fields(b[1], b[0], e.id):
                return True
            return False
        # TABLE[k] with TABLE a module-level dict comprehension whose values are field names
        if isinstance(e, ast.Subscript) and isinstance(e.value, ast.Name):
            v = module_value(e.value.id)
            if isinstance(v, ast.DictComp) and len(v.generators) == 1 and isinstance(v.value, ast.Name):
                g = v.generators[0]
                return elements_from_fields(g.iter, g.target, v.value.id)
        return False

    # ------------------------------------------------------------- utilities
    def loc(self, mod: str, node: ast.AST) -> Tuple[str, int]:
        return (self.mods[mod].rel, getattr(node, "lineno", 0))

    def census(self) -> Dict[str, int]:
        ctl = "_sa_controls"
        return dict(modules=sum(1 for m in self.mods if ctl not in m),
                    classes=sum(1 for c in self.classes if ctl not in c),
                    functions=sum(1 for f in self.funcs if ctl not in f),
                    control_modules=sum(1 for m in self.mods if ctl in m))


def params_of(fn: ast.FunctionDef) -> List[str]:
    a = fn.args
    ps = [x.arg for x in a.posonlyargs + a.args]
    if a.vararg:
        ps.append(a.vararg.arg)
    ps += [x.arg for x in a.kwonlyargs]
    if a.kwarg:
        ps.append(a.kwarg.arg)
    return ps


def walk_no_nested(node: ast.AST):
    """ast.walk that does not descend into nested function/class definitions
    (the root itself may be a function)."""
    stack = [node]
    first = True
    while stack:
        n = stack.pop()
        if not first and isinstance(n, (ast.FunctionDef, ast.AsyncFunctionDef, ast.ClassDef, ast.Lambda)):
            continue
        first = False
        yield n
        stack.extend(ast.iter_child_nodes(n))


def body_without_docstring(fn: ast.FunctionDef) -> List[ast.stmt]:
    b = fn.body
    if b and isinstance(b[0], ast.Expr) and isinstance(b[0].value, ast.Constant) and isinstance(b[0].value.value, str):
        return b[1:]
    return b
