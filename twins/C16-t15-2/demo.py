"""Demonstration for C16 / k=2: HoldList.between.

Exercises ``between`` through the public hold-list classes of every game on a
few hundred generated inputs and prints ONE sha256 digest over a canonical text of
every result (class, columns, dtypes, row labels, cell values with their
python types), every exception type, every warning raised and the state of the
inputs (receiver and argument) after the call.

Run as:  cd <worktree> && PYTHONPATH=<worktree> /venv/bin/python demo.py
"""
import hashlib
import random
import sys
import warnings

import numpy as np
import pandas as pd

import reamber
from reamber.base.lists.TimedList import TimedList
from reamber.base.lists.BpmList import BpmList
from reamber.base.lists.notes.NoteList import NoteList
from reamber.base.lists.notes.HitList import HitList
from reamber.base.lists.notes.HoldList import HoldList
from reamber.osu.lists.OsuBpmList import OsuBpmList
from reamber.osu.lists.OsuSvList import OsuSvList
from reamber.osu.lists.OsuSampleList import OsuSampleList
from reamber.osu.lists.notes.OsuHitList import OsuHitList
from reamber.osu.lists.notes.OsuHoldList import OsuHoldList
from reamber.quaver.lists.QuaBpmList import QuaBpmList
from reamber.quaver.lists.QuaSvList import QuaSvList
from reamber.quaver.lists.notes.QuaHitList import QuaHitList
from reamber.quaver.lists.notes.QuaHoldList import QuaHoldList
from reamber.sm.lists.SMBpmList import SMBpmList
from reamber.sm.lists.SMStopList import SMStopList
from reamber.sm.lists.notes.SMHitList import SMHitList
from reamber.sm.lists.notes.SMHoldList import SMHoldList
from reamber.sm.lists.notes.SMRollList import SMRollList
from reamber.sm.lists.notes.SMMineList import SMMineList
from reamber.bms.lists.BMSBpmList import BMSBpmList
from reamber.bms.lists.notes.BMSHitList import BMSHitList
from reamber.bms.lists.notes.BMSHoldList import BMSHoldList
from reamber.o2jam.lists.O2JBpmList import O2JBpmList
from reamber.o2jam.lists.notes.O2JHitList import O2JHitList
from reamber.o2jam.lists.notes.O2JHoldList import O2JHoldList

print("reamber from:", reamber.__file__, file=sys.stderr)

CLASSES = [
    TimedList, BpmList, NoteList, HitList, HoldList,
    OsuBpmList, OsuSvList, OsuSampleList, OsuHitList, OsuHoldList,
    QuaBpmList, QuaSvList, QuaHitList, QuaHoldList,
    SMBpmList, SMStopList, SMHitList, SMHoldList, SMRollList, SMMineList,
    BMSBpmList, BMSHitList, BMSHoldList,
    O2JBpmList, O2JHitList, O2JHoldList,
]

rng = random.Random(1602)
OUT = []


def emit(*parts):
    OUT.append(" | ".join(str(p) for p in parts))


def cell(v):
    return f"{type(v).__name__}:{v!r}"


def canon_df(df):
    if not isinstance(df, pd.DataFrame):
        return f"<{type(df).__name__}:{df!r}>"
    lines = [
        "cols=" + repr([cell(c) for c in df.columns]),
        "dtypes=" + repr([str(t) for t in df.dtypes]),
        "index=" + type(df.index).__name__ + repr([cell(i) for i in df.index]),
    ]
    for pos in range(len(df)):
        lines.append(repr([cell(df.iloc[pos, j]) for j in range(df.shape[1])]))
    return "\n".join(lines)


def canon(v):
    if isinstance(v, TimedList):
        return f"{type(v).__name__}\n" + canon_df(v.df)
    if isinstance(v, pd.DataFrame):
        return "DataFrame\n" + canon_df(v)
    if isinstance(v, pd.Series):
        return (
            f"pd.Series name={v.name!r} dtype={v.dtype} "
            f"index={[cell(i) for i in v.index]} values={[cell(x) for x in v]}"
        )
    if hasattr(v, "data") and isinstance(getattr(v, "data"), pd.Series):
        return f"{type(v).__name__} item " + canon(v.data)
    if isinstance(v, list):
        return "list[" + ", ".join(canon(x) for x in v) + "]"
    return cell(v)


def rand_offset():
    kind = rng.randrange(6)
    if kind == 0:
        return float(rng.randrange(-3, 4) * 500)  # collisions / duplicates
    if kind == 1:
        return -rng.random() * 1000.0
    if kind == 2:
        return rng.randrange(0, 10) + 0.5
    if kind == 3:
        return 0.0
    return round(rng.uniform(-2000, 8000), 3)


def rand_value(col, dtype):
    if col == "offset":
        return rand_offset()
    if col == "length":
        return rng.choice([0.0, 0.0, 250.0, 0.25, 1000.0, -100.0, rand_offset()])
    if col == "column":
        return rng.randrange(0, 10)  # key counts other than 4
    if col == "keysounds":
        return [rng.randrange(5) for _ in range(rng.randrange(3))]
    if dtype == "bool":
        return bool(rng.randrange(2))
    if dtype.startswith("int"):
        return rng.randrange(0, 100)
    if dtype.startswith("float"):
        return rng.choice([1.0, 4.0, 0.5, 120.0, 222.22, -1.0])
    if col == "sample":
        return rng.choice([b"", b"a.wav", b"kick.ogg"])
    return rng.choice(["", "a.wav", "hit.ogg", "x y.wav"])


def make_list(cls, n):
    """A list of ``cls`` with ``n`` generated rows (declared columns / dtypes)."""
    lst = cls.empty(n)
    df = lst.df
    for col in list(df.columns):
        dtype = str(df[col].dtype)
        vals = [rand_value(col, dtype) for _ in range(n)]
        if dtype == "object":
            df[col] = pd.Series(vals, dtype=object, index=df.index)
        else:
            df[col] = pd.Series(vals, dtype=dtype, index=df.index)
    return cls(df)


def perturb(lst):
    """Brings the list into a 'used' state: unsorted / filtered / re-labelled."""
    kind = rng.randrange(6)
    if kind == 0 or len(lst) == 0:
        return lst
    if kind == 1:
        return lst.sorted(reverse=True)  # row labels permuted
    if kind == 2:
        return lst.after(lst.offset.median(), include_end=True)  # labels with gaps
    if kind == 3:
        return lst.sorted().before(lst.offset.max(), include_end=False)
    if kind == 4:
        return lst[::-2]
    return lst[lst.offset >= lst.offset.min()]


HOLD_CLASSES = [c for c in CLASSES if issubclass(c, HoldList)]
assert len(HOLD_CLASSES) == 7, HOLD_CLASSES

ENDS = [
    True, False, (True, False), (False, True), (True, True), (False, False),
    [True, True], [False, True], (1, 0), (0, 1, 1), (True,), (), None,
    np.True_, np.array([True, False]), "ab", 1, 0, {0: True, 1: False},
]


def pick_bound(lst):
    """Mostly a bound that coincides with a head or a tail of the list."""
    kind = rng.randrange(8)
    if len(lst) and kind <= 2:
        return float(rng.choice(list(lst.offset)))
    if len(lst) and kind <= 4:
        return float(rng.choice(list(lst.offset + lst.length)))
    if kind == 5:
        return rng.choice([float("inf"), float("-inf"), float("nan"), 0, -0.0])
    if kind == 6:
        return rng.randrange(-2000, 8000)  # an int bound
    return rand_offset()


def one_case(case_id, cls, n_rows, ends, style, head, tail, positive_only):
    recv = make_list(cls, n_rows)
    if positive_only:
        recv.df["length"] = recv.df["length"].abs()
    recv = perturb(recv)
    lo, hi = pick_bound(recv), pick_bound(recv)
    if rng.random() < 0.6 and lo == lo and hi == hi and lo > hi:
        lo, hi = hi, lo
    recv_df_id = id(recv.df)
    before_recv, before_ends = canon(recv), repr(ends)
    emit("CASE", case_id, cls.__name__, n_rows, repr(ends), style, head, tail,
         positive_only, cell(lo), cell(hi))
    with warnings.catch_warnings(record=True) as caught:
        warnings.simplefilter("always")
        try:
            if style == "default":
                res = recv.between(lo, hi)
            elif style == "ends_only":
                res = recv.between(lo, hi, ends)
            elif style == "positional":
                res = recv.between(lo, hi, ends, head, tail)
            elif style == "keywords":
                res = recv.between(lower_bound=lo, upper_bound=hi, include_ends=ends,
                                   include_tail=tail, include_head=head)
            else:
                res = recv.between(lo, hi, include_ends=ends, include_tail=tail)
            emit("RESULT", canon(res))
            emit("FRESH", res is not recv)
            emit("LEN", len(res), [canon(x) for x in res][:3])
            if len(res):
                emit("FIRSTLAST", canon(res[0]), canon(res[-1]),
                     cell(res.first_offset()), cell(res.last_offset()))
            # operation sequences: filter the filtered / sorted list again
            res2 = res.sorted(reverse=True).between(lo, hi, ends, head, not tail)
            emit("RESULT2", canon(res2))
            res3 = recv.append(res).between(hi, lo, ends, include_head=not head)
            emit("RESULT3", canon(res3))
        except Exception as e:  # noqa
            emit("EXC", type(e).__name__)
    # in order of emission: a warning of the first trim precedes a later failure
    emit("WARN", [(w.category.__name__, str(w.message)) for w in caught])
    emit("RECV_SAME", canon(recv) == before_recv, id(recv.df) == recv_df_id)
    emit("ENDS_SAME", repr(ends) == before_ends)
    emit("RECV_AFTER", canon(recv))


STYLES = ["default", "ends_only", "positional", "keywords", "mixed"]


def main():
    case_id = 0
    # systematic part: every hold class x every include_ends form
    for ci, cls in enumerate(HOLD_CLASSES):
        for ei, ends in enumerate(ENDS):
            for flags in range(4):
                one_case(case_id, cls, [0, 1, 5, 8][(ci + ei + flags) % 4], ends,
                         STYLES[1 + (ci + ei + flags) % 4], bool(flags & 1),
                         bool(flags & 2), (ci + ei) % 3 != 0)
                case_id += 1
    # random part
    for _ in range(250):
        one_case(case_id, rng.choice(HOLD_CLASSES), rng.randrange(0, 10),
                 rng.choice(ENDS), rng.choice(STYLES), rng.random() < 0.5,
                 rng.random() < 0.5, rng.random() < 0.6)
        case_id += 1
    print("cases:", case_id, "lines:", len(OUT), file=sys.stderr)
    text = "\n".join(OUT)
    print(hashlib.sha256(text.encode("utf-8", "backslashreplace")).hexdigest())


if __name__ == "__main__":
    main()
