"""Exercises reamber.algorithms.utils.dominant_bpm (and its two callers) on a broad,
deterministic set of charts and prints one sha256 digest over everything observed."""
import hashlib
import random
import warnings

import numpy as np
import pandas as pd

from reamber.algorithms.analysis import scroll_speed
from reamber.algorithms.generate import sv_normalize
from reamber.algorithms.utils import dominant_bpm
from reamber.bms import BMSMap, BMSBpm, BMSHit, BMSHold
from reamber.bms.lists import BMSBpmList
from reamber.bms.lists.notes import BMSHitList, BMSHoldList
from reamber.o2jam import O2JMap, O2JBpm, O2JHit, O2JHold
from reamber.o2jam.lists import O2JBpmList
from reamber.o2jam.lists.notes import O2JHitList, O2JHoldList
from reamber.osu import OsuMap, OsuBpm, OsuSv, OsuHit, OsuHold
from reamber.osu.lists import OsuBpmList, OsuSvList
from reamber.osu.lists.notes import OsuHitList, OsuHoldList
from reamber.quaver import QuaMap, QuaBpm, QuaSv, QuaHit, QuaHold
from reamber.quaver.lists import QuaBpmList, QuaSvList
from reamber.quaver.lists.notes import QuaHitList, QuaHoldList
from reamber.sm import SMMap, SMBpm, SMHit, SMHold
from reamber.sm.lists import SMBpmList
from reamber.sm.lists.notes import SMHitList, SMHoldList

random.seed(190019)

GAMES = {
    "osu": (OsuMap, OsuBpm, OsuBpmList, OsuHit, OsuHitList, OsuHold, OsuHoldList, OsuSv, OsuSvList),
    "qua": (QuaMap, QuaBpm, QuaBpmList, QuaHit, QuaHitList, QuaHold, QuaHoldList, QuaSv, QuaSvList),
    "sm": (SMMap, SMBpm, SMBpmList, SMHit, SMHitList, SMHold, SMHoldList, None, None),
    "bms": (BMSMap, BMSBpm, BMSBpmList, BMSHit, BMSHitList, BMSHold, BMSHoldList, None, None),
    "o2j": (O2JMap, O2JBpm, O2JBpmList, O2JHit, O2JHitList, O2JHold, O2JHoldList, None, None),
}


def make(game, bpms, hits, holds=(), svs=(), shuffle_index=False):
    """bpms: [(offset, bpm)], hits: [offset], holds: [(offset, length)], svs: [(offset, mult)]
    Rows are kept in the order given (so unsorted rows stay unsorted)."""
    M, Bpm, BpmL, Hit, HitL, Hold, HoldL, Sv, SvL = GAMES[game]
    kw = dict(keysounds=[]) if game == "qua" else {}
    m = M()
    m.bpms = BpmL([Bpm(o, b) for o, b in bpms])
    m.hits = HitL([Hit(o, i % 4, **kw) for i, o in enumerate(hits)])
    if holds:
        m.holds = HoldL([Hold(o, i % 4, l, **kw) for i, (o, l) in enumerate(holds)])
    if Sv is not None and svs:
        m.svs = SvL([Sv(o, x) for o, x in svs])
    if shuffle_index and len(bpms) > 1:
        # non-default, unsorted row labels (as left behind by filtering / sorting)
        perm = list(range(len(bpms)))
        random.shuffle(perm)
        m.bpms = BpmL(m.bpms.df.iloc[perm])
    return m


def num(x):
    if isinstance(x, (bool, np.bool_)):
        return f"{type(x).__name__}:{bool(x)}"
    if isinstance(x, (float, np.floating)):
        return f"{type(x).__name__}:{float(x).hex()}"
    if isinstance(x, (int, np.integer)):
        return f"{type(x).__name__}:{int(x)}"
    return f"{type(x).__name__}:{x!r}"


def dump_series(s):
    return (
        f"Series name={s.name!r} dtype={s.dtype} index={s.index.dtype}/{s.index.name!r} "
        f"labels=[{','.join(num(i) for i in s.index)}] values=[{','.join(num(v) for v in s)}]"
    )


def dump_df(df):
    out = [f"DataFrame cols={list(df.columns)} labels=[{','.join(num(i) for i in df.index)}]"]
    for c in df.columns:
        out.append(f"  {c}:{df[c].dtype}=[{','.join(num(v) for v in df[c])}]")
    return "\n".join(out)


def dump_map(m):
    return "\n".join(f" {k}:{type(v).__name__}\n{dump_df(v.df)}" for k, v in m.objs.items())


def observe(fn, *a, **k):
    with warnings.catch_warnings(record=True) as w:
        warnings.simplefilter("always")
        try:
            r = fn(*a, **k)
        except Exception as e:  # the exception type is part of the behaviour
            return f"RAISED {type(e).__name__}", None
    cats = sorted({x.category.__name__ for x in w})
    return r, cats


def grid_offset(kind):
    if kind == "int":
        return random.randrange(-2000, 60000)
    if kind == "ms":
        return float(random.randrange(-2000, 60000))
    # fractional milliseconds: the per-bpm totals are then inexact float sums
    return random.uniform(-2000, 60000) + random.random() / 3


def random_chart(game, i):
    kind = random.choice(["int", "ms", "frac", "frac"])
    n_bpm = random.choice([1, 1, 2, 3, 4, 6, 9, 15, 40])
    # few distinct values -> the same bpm is active in several separate stretches
    pool = random.choice(
        [[120, 240], [60.0, 90.5, 181.0], [100, 150, 200, 300, 400], [173.21, 86.605, 140.0, 1e-3, 9999.0]]
    )
    offs = set()
    while len(offs) < n_bpm:  # two tempo points never share a time
        offs.add(grid_offset(kind))
    offs = sorted(offs)
    bpms = [(o, random.choice(pool)) for o in offs]
    first = offs[0]
    n_hit = random.choice([1, 1, 2, 5, 20])
    span = random.choice([1, 500, 30000, 90000])
    hits = [first + (random.randrange(0, span) if kind != "frac" else random.uniform(0, span)) for _ in range(n_hit)]
    if random.random() < 0.2:
        hits[0] = first  # an object exactly on the first tempo point
    if random.random() < 0.2:
        hits.append(offs[-1])  # an object exactly on the last tempo point
    holds = []
    if random.random() < 0.4:
        holds = [(first + random.randrange(0, span), random.choice([1, 250, 4000.5])) for _ in range(random.choice([1, 3]))]
    svs = []
    if game in ("osu", "qua") and random.random() < 0.6:
        for _ in range(random.choice([1, 2, 5, 12])):
            c = random.random()
            if c < 0.3:
                o = random.choice(offs)  # coincides with a tempo point
            elif c < 0.4 and svs:
                o = random.choice(svs)[0]  # coincides with another SV
            else:
                o = grid_offset(kind)
            svs.append((o, random.choice([0.5, 1.0, 2.0, 0.01, 10.0, 1.37])))
    if random.random() < 0.6:  # unsorted rows
        random.shuffle(bpms)
        random.shuffle(hits)
        random.shuffle(svs)
    return make(game, bpms, hits, holds, svs, shuffle_index=random.random() < 0.3)


charts = []
# ---- hand-made edge cases -------------------------------------------------------------
for g in GAMES:
    charts += [
        (f"{g}/single", make(g, [(0, 120)], [0])),
        (f"{g}/single-late-object", make(g, [(-50.5, 120.5)], [1000.25])),
        # exact tie of the totals: 1000 ms each -> the smaller bpm value has to win
        (f"{g}/tie", make(g, [(0, 200), (1000, 100)], [2000])),
        (f"{g}/tie-reversed-rows", make(g, [(1000, 100), (0, 200)], [2000])),
        (f"{g}/three-way-tie", make(g, [(0.0, 300.0), (500.0, 100.0), (1000.0, 200.0)], [250.0, 1500.0])),
        # the same bpm in two separate stretches beats one longer stretch
        (f"{g}/split-stretches", make(g, [(0, 100), (400, 150), (1000, 100), (1300, 150), (1500, 100)], [1600])),
        # last object on the last tempo point: that tempo point is active for 0 ms
        (f"{g}/zero-tail", make(g, [(0, 100), (100, 200), (300, 400)], [0, 300])),
        # tempo points after the last object
        (f"{g}/bpm-after-last-object", make(g, [(0, 100), (100, 200), (5000, 400), (5001, 50)], [10, 150])),
        (f"{g}/all-zero-durations", make(g, [(7, 222)], [7, 7, 7])),
        (f"{g}/negative-times", make(g, [(-3000, 90), (-1000, 180), (-10, 90)], [-10, -5], holds=[(-9, 3)])),
        (f"{g}/float-sums", make(g, [(0.1, 130.0), (0.4, 131.0), (0.7, 130.0), (1.0, 131.0), (1.3, 130.0)], [1.6000000000000001])),
        (f"{g}/int-bpm-float-offset", make(g, [(0.5, 100), (10.5, 300)], [11.5, 30.5])),
        (f"{g}/float-bpm-int-offset", make(g, [(0, 100.5), (10, 300.25)], [11, 30])),
        (f"{g}/int-bpm-float-object", make(g, [(0, 100), (10, 300)], [11.5, 19.5])),
        (f"{g}/relabelled-rows", make(g, [(0, 100), (10, 300), (35, 100), (40, 7)], [55], shuffle_index=True)),
    ]
for g in ("osu", "qua"):
    charts += [
        # an SV is the last thing in the chart
        (f"{g}/sv-last", make(g, [(0, 100), (100, 200)], [150], svs=[(900, 2.0), (100, 0.5), (100, 0.25)])),
        (f"{g}/sv-on-bpm", make(g, [(0, 100), (200, 200), (300, 400)], [50, 1000], svs=[(100, 2.0), (200, 0.5), (0, 3.0)])),
    ]
# ---- generated charts -----------------------------------------------------------------
for i in range(90):
    g = list(GAMES)[i % 5]
    charts.append((f"{g}/random{i}", random_chart(g, i)))

lines = []
for name, m in charts:
    before = dump_map(m)
    lines.append(f"== {name}")
    r, cats = observe(dominant_bpm, m)
    lines.append(f"dominant_bpm -> {r if isinstance(r, str) else num(r)} warnings={cats}")
    for ov in (None, 0, 150, 0.75, r if not isinstance(r, str) else None):
        s, cats = observe(scroll_speed, m, ov)
        lines.append(f"scroll_speed({ov!r}) -> {s if isinstance(s, str) else dump_series(s)} warnings={cats}")
        if hasattr(m, "svs"):
            v, cats = observe(sv_normalize, m, ov)
            lines.append(f"sv_normalize({ov!r}) -> {v if isinstance(v, str) else type(v).__name__ + chr(10) + dump_df(v.df)} warnings={cats}")
    after = dump_map(m)
    lines.append("input " + ("UNCHANGED" if before == after else "MODIFIED"))
    lines.append(after)

# ---- outside the domain, but cheap to pin: no tempo point at all --------------------------
for g in GAMES:
    M = GAMES[g][0]
    m = M()
    m.hits = GAMES[g][4]([GAMES[g][3](5, 0, **(dict(keysounds=[]) if g == "qua" else {}))])
    r, cats = observe(dominant_bpm, m)
    lines.append(f"== {g}/no-bpm -> {r if isinstance(r, str) else num(r)} warnings={cats}")

text = "\n".join(lines)
import os, sys
print(f"charts={len(charts)} lines={len(lines)} chars={len(text)}", file=sys.stderr)
if os.environ.get("DEMO_DUMP"):
    open(os.environ["DEMO_DUMP"], "w").write(text)
print("DIGEST " + hashlib.sha256(text.encode()).hexdigest())
