"""Demo for property C07 (O2Jam reading).

Builds several dozen synthetic .ojn byte strings (plus the two bundled files if
present), reads them with the library, and also calls the individual reader
stages directly (read_meta, read_event_packages, read_events_bpm,
read_events_note, read_pkgs).  Everything observable (values as exact float
hex, python types, dtypes, column order, row labels, exception types, log
records, state of mutable arguments afterwards) is dumped canonically and
hashed.  Prints one line: DIGEST <sha256>.
"""
import hashlib
import logging
import os
import random
import struct
import warnings

warnings.simplefilter("ignore")

import numpy as np  # noqa: E402
import pandas as pd  # noqa: E402

from reamber.o2jam.O2JBpm import O2JBpm  # noqa: E402
from reamber.o2jam.O2JEventPackage import (  # noqa: E402
    O2JEventPackage,
    O2JEventMeasureChange,
)
from reamber.o2jam.O2JHold import O2JHold  # noqa: E402
from reamber.o2jam.O2JMap import O2JMap  # noqa: E402
from reamber.o2jam.O2JMapSet import O2JMapSet  # noqa: E402
from reamber.o2jam.O2JMapSetMeta import O2JMapSetMeta  # noqa: E402

OUT = []


def emit(*parts):
    OUT.append(" ".join(str(p) for p in parts))


# ---------------------------------------------------------------- logging
class _ListHandler(logging.Handler):
    def __init__(self):
        super().__init__(level=logging.DEBUG)
        self.records = []

    def emit(self, record):
        self.records.append(f"{record.name}|{record.levelname}|{record.getMessage()}")


LOG_HANDLER = _ListHandler()
_root = logging.getLogger("reamber")
_root.setLevel(logging.DEBUG)
_root.addHandler(LOG_HANDLER)
_root.propagate = False


def flush_logs(tag):
    h = hashlib.sha256("\n".join(LOG_HANDLER.records).encode()).hexdigest()
    emit("LOGS", tag, len(LOG_HANDLER.records), h)
    LOG_HANDLER.records.clear()


# ---------------------------------------------------------------- canonical
def canon(v):
    if isinstance(v, (bool, np.bool_)):
        return f"{type(v).__name__}:{bool(v)}"
    if isinstance(v, (float, np.floating)):
        return f"{type(v).__name__}:{float(v).hex()}"
    if isinstance(v, (int, np.integer)):
        return f"{type(v).__name__}:{int(v)}"
    if isinstance(v, (list, tuple)):
        return f"{type(v).__name__}[" + ",".join(canon(x) for x in v) + "]"
    if isinstance(v, dict):
        return "dict{" + ",".join(f"{canon(k)}=>{canon(x)}" for k, x in v.items()) + "}"
    if isinstance(v, (bytes, bytearray, str)) or v is None:
        return f"{type(v).__name__}:{v!r}"
    if isinstance(v, pd.Series):
        return (
            f"Series<{v.dtype}>(" + ",".join(f"{k}={canon(x)}" for k, x in v.items()) + ")"
        )
    if isinstance(v, O2JEventMeasureChange):
        return f"MeasureChange({canon(v.frac_length)})"
    if hasattr(v, "data") and isinstance(getattr(v, "data"), pd.Series):
        extra = {
            k: x for k, x in sorted(vars(v).items()) if k != "data"
        }
        return f"{type(v).__name__}(data={canon(v.data)},attrs={canon(extra)})"
    if isinstance(v, O2JEventPackage):
        return f"Pkg(m={canon(v.measure)},c={canon(v.channel)},ev={canon(v.events)})"
    return f"{type(v).__name__}:{v!r}"


def dump_df(tag, df):
    emit(tag, "type", type(df).__name__, "shape", df.shape)
    emit(tag, "columns", list(df.columns))
    emit(tag, "dtypes", [str(t) for t in df.dtypes])
    emit(tag, "index", type(df.index).__name__, str(df.index.dtype), list(df.index))
    for row in df.itertuples(index=True, name=None):
        emit(tag, "row", ",".join(canon(x) for x in row))


def dump_meta(tag, ms):
    for k in (
        "song_id signature encode_version genre bpm level event_count note_count "
        "measure_count package_count old_encode_version old_song_id old_genre bmp_size "
        "old_file_version title artist creator ojm_file cover_size duration note_offset "
        "cover_offset"
    ).split():
        emit(tag, "meta", k, canon(getattr(ms, k)))


def dump_map(tag, m):
    emit(tag, "maptype", type(m).__name__, sorted(m.objs.keys()))
    for name in ("hits", "holds", "bpms"):
        lst = getattr(m, name)
        emit(tag, name, "listtype", type(lst).__name__)
        dump_df(f"{tag}.{name}", lst.df)


def dump_mapset(tag, ms):
    emit(tag, "type", type(ms).__name__, "nmaps", len(ms.maps))
    dump_meta(tag, ms)
    for i, m in enumerate(ms.maps):
        dump_map(f"{tag}.map{i}", m)


def attempt(tag, fn):
    try:
        r = fn()
    except BaseException as e:  # noqa
        emit(tag, "RAISED", type(e).__module__ + "." + type(e).__name__)
        return None
    return r


# ---------------------------------------------------------------- builders
HEADER_FMT = "<i4sfif4h3i3i3i3ihh20sii64s32s32s32si3i3ii"
assert struct.calcsize(HEADER_FMT) == 300


def rand_text(rng, n):
    kind = rng.randrange(4)
    if kind == 0:
        s = bytes(rng.choice(b"abcdefghij KLMNOP!-_") for _ in range(rng.randrange(0, n + 1)))
    elif kind == 1:  # embedded NULs, text after NUL
        s = bytes(rng.choice(b"xyz\x00\x00Q") for _ in range(n))
    elif kind == 2:  # non-ascii bytes (dropped by errors='ignore')
        s = bytes(rng.choice([0x41, 0x80, 0xFF, 0xC3, 0xA9, 0x20, 0x00, 0x7A]) for _ in range(n))
    else:
        s = bytes(rng.randrange(256) for _ in range(n))
    return s


def build_header(rng, bpm, pkg_counts, plain=False):
    ri = lambda: rng.randrange(-(2**31), 2**31)  # noqa: E731
    rs = lambda: rng.randrange(-(2**15), 2**15)  # noqa: E731
    if plain:
        sig, title, artist, creator, ojm = b"ojn\x00", b"Title", b"Artist ", b"Me", b"x.ojm"
    else:
        sig = rng.choice([b"ojn\x00", b"\x00\x00\x00\x00", b"new\xff", b"ab\x00c"])
        title, artist, creator, ojm = (
            rand_text(rng, 64), rand_text(rng, 32), rand_text(rng, 32), rand_text(rng, 32)
        )
    return struct.pack(
        HEADER_FMT,
        ri(), sig, rng.choice([2.9, 0.0, -1.5, 1e30]), rng.randrange(0, 11), bpm,
        rs(), rs(), rs(), rs(),
        ri(), ri(), ri(),
        ri(), ri(), ri(),
        ri(), ri(), ri(),
        pkg_counts[0], pkg_counts[1], pkg_counts[2],
        rs(), rs(), bytes(rng.randrange(256) for _ in range(20)), ri(), ri(),
        title, artist, creator, ojm,
        ri(), ri(), ri(), ri(), ri(), ri(), ri(), ri(),
    )


def pkg_bytes(measure, channel, events, count=None):
    n = len(events) if count is None else count
    return struct.pack("<ihh", measure, channel, n) + b"".join(events)


def note_ev(value, volpan, typ):
    return struct.pack("<hBB", value, volpan, typ)


EMPTY_EV = b"\x00\x00\x00\x00"
SLOT_CHOICES = [1, 2, 3, 4, 4, 4, 5, 6, 7, 8, 8, 12, 16, 24, 48, 192]
BPM_CHOICES = [60.0, 90.5, 120.0, 130.0, 133.33, 150.0, 177.7, 200.0, 222.22, 0.5, 999.0, 1e-3, 3e4]


def gen_column_pkgs(rng, col, n_measures, density, weird, first_measure=0):
    """Packages of one note column in file order, long notes closed."""
    pkgs = []
    holding = False
    measures = sorted(
        rng.sample(range(first_measure, first_measure + n_measures), k=max(0, min(n_measures, int(round(n_measures * density)))))
    )
    if weird and measures and rng.random() < 0.5:
        measures.append(rng.choice(measures))  # duplicate, out of order package
    for m in measures:
        slots = rng.choice(SLOT_CHOICES)
        evs = []
        for _ in range(slots):
            if rng.random() < 0.55:
                evs.append(EMPTY_EV)
                continue
            value = rng.choice([1, 2, 17, 300, -5, 32767, -32768])
            volpan = rng.randrange(256)
            if weird and rng.random() < 0.1:
                evs.append(note_ev(value, volpan, rng.choice([1, 4, 9, 255])))  # ignored type
            elif holding:
                evs.append(note_ev(value, volpan, 3))
                holding = False
            elif rng.random() < 0.35:
                evs.append(note_ev(value, volpan, 2))
                holding = True
            else:
                evs.append(note_ev(value, volpan, 0))
        pkgs.append(pkg_bytes(m, col + 2, evs))
    if holding:
        last = (max(measures) if measures else first_measure) + rng.choice([1, 1, 2, 5])
        slots = rng.choice(SLOT_CHOICES)
        evs = [EMPTY_EV] * slots
        evs[rng.randrange(slots)] = note_ev(1, 0x88, 3)
        pkgs.append(pkg_bytes(last, col + 2, evs))
    return pkgs


def gen_bpm_pkgs(rng, n_pkgs, max_measure, weird, first_measure=0):
    pkgs = []
    for _ in range(n_pkgs):
        m = rng.randrange(first_measure, max_measure + 1)
        slots = rng.choice(SLOT_CHOICES[:12])
        evs = []
        for _ in range(slots):
            r = rng.random()
            if r < 0.6:
                evs.append(struct.pack("<f", rng.choice([0.0, 0.0, -0.0])))
            else:
                v = rng.choice(BPM_CHOICES)
                if weird and rng.random() < 0.2:
                    v = rng.choice([-120.0, 1e-30, 1e30, float("inf"), float("nan")])
                evs.append(struct.pack("<f", v))
        pkgs.append(pkg_bytes(m, 1, evs))
    return pkgs


def gen_other_pkgs(rng, n_pkgs, max_measure):
    pkgs = []
    for _ in range(n_pkgs):
        ch = rng.choice(list(range(9, 23)) + [23, 30, -1, 100])
        slots = rng.choice([0, 1, 2, 4, 8])
        evs = [bytes(rng.randrange(256) for _ in range(4)) for _ in range(slots)]
        pkgs.append(pkg_bytes(rng.randrange(0, max_measure + 1), ch, evs))
    return pkgs


def interleave(rng, lists):
    lists = [list(x) for x in lists if x]
    out = []
    while lists:
        i = rng.randrange(len(lists))
        out.append(lists[i].pop(0))
        if not lists[i]:
            lists.pop(i)
    return out


def gen_level(rng, n_measures, cols, density, n_bpm, bpm_span, n_other, weird=False,
              shuffle_bpm=True, first_measure=0):
    col_lists = [gen_column_pkgs(rng, c, n_measures, density, weird, first_measure) for c in cols]
    bpm_list = gen_bpm_pkgs(rng, n_bpm, first_measure + bpm_span, weird, first_measure)
    if not shuffle_bpm:
        bpm_list.sort(key=lambda b: struct.unpack("<i", b[:4])[0])
    other = gen_other_pkgs(rng, n_other, n_measures + 3)
    return interleave(rng, col_lists + [bpm_list, other])


def build_file(rng, levels, bpm, trailing=0, plain=False, counts=None):
    counts = counts if counts is not None else [len(lv) for lv in levels]
    body = b"".join(b"".join(lv) for lv in levels)
    return build_header(rng, bpm, counts, plain) + body + bytes(
        rng.randrange(256) for _ in range(trailing)
    )


# ---------------------------------------------------------------- scenarios
def run_read(tag, data):
    before = bytes(data)
    ms = attempt(tag, lambda: O2JMapSet.read(data))
    if ms is not None:
        dump_mapset(tag, ms)
    emit(tag, "input-unchanged", bytes(data) == before, hashlib.sha256(before).hexdigest()[:16])
    flush_logs(tag)


def scenario_files():
    rng = random.Random(70707)
    cases = []
    ALL = list(range(7))
    # --- edge cases first
    cases.append(("empty3", build_file(rng, [[], [], []], 120.0)))
    cases.append(("onlybpm", build_file(rng, [gen_level(rng, 0, [], 0, 5, 9, 0), [], gen_level(rng, 0, [], 0, 1, 0, 2)], 150.0)))
    cases.append(("nobpm", build_file(rng, [gen_level(rng, 6, ALL, 0.8, 0, 0, 1) for _ in range(3)], 133.33)))
    # tempo strictly after the last note
    lv = gen_level(rng, 3, ALL, 1.0, 0, 0, 0) + [
        pkg_bytes(40, 1, [struct.pack("<f", 200.0)]),
        pkg_bytes(30, 1, [struct.pack("<f", 0.0), struct.pack("<f", 90.0), struct.pack("<f", 0.0), struct.pack("<f", 45.5)]),
        pkg_bytes(40, 1, [struct.pack("<f", 0.0), struct.pack("<f", 100.0)]),
    ]
    cases.append(("bpm_after_last", build_file(rng, [lv, [], lv[:0]], 100.0)))
    # tempo at measure 0 slot 0 and several tempo packages on the same measure (ties)
    lv = [
        pkg_bytes(0, 1, [struct.pack("<f", 180.0)]),
        pkg_bytes(2, 1, [struct.pack("<f", 60.0), struct.pack("<f", 0.0)]),
        pkg_bytes(2, 1, [struct.pack("<f", 240.0), struct.pack("<f", 75.0)]),
        pkg_bytes(2, 1, [struct.pack("<f", 0.0), struct.pack("<f", 111.0)]),
    ] + [pkg_bytes(m, c + 2, [note_ev(1, 0x47, 0), EMPTY_EV, note_ev(1, 0xF0, 0), EMPTY_EV]) for m in range(0, 5) for c in ALL]
    cases.append(("bpm_ties_chords", build_file(rng, [lv, lv, lv], 120.0)))
    # one long note across many measures with tempo changes inside, per column
    lv = []
    for c in ALL:
        lv.append(pkg_bytes(1, c + 2, [EMPTY_EV] * c + [note_ev(1, 0x80, 2)] + [EMPTY_EV] * (7 - c)))
    for m, v in [(2, 60.0), (3, 240.0), (5, 133.33), (9, 10.0), (12, 400.0)]:
        lv.append(pkg_bytes(m, 1, [struct.pack("<f", 0.0), struct.pack("<f", v), struct.pack("<f", 0.0)]))
    for c in ALL:
        lv.append(pkg_bytes(4 + c, c + 2, [EMPTY_EV] * (c + 1) + [note_ev(9, 0x08, 3)] + [EMPTY_EV] * c))
    cases.append(("ln_span", build_file(rng, [lv, [], []], 175.0)))
    # slot count 1 and 192; event_count 0 packages
    lv = [
        pkg_bytes(0, 2, [note_ev(1, 0, 0)]),
        pkg_bytes(1, 3, [EMPTY_EV] * 191 + [note_ev(1, 0, 0)]),
        pkg_bytes(1, 4, []),
        pkg_bytes(1, 1, []),
        pkg_bytes(2, 1, [struct.pack("<f", 0.0)] * 95 + [struct.pack("<f", 321.0)]),
        pkg_bytes(3, 8, [note_ev(1, 0, 2), note_ev(1, 0, 3)] * 8),
    ]
    cases.append(("slots_1_192_0", build_file(rng, [lv, lv, []], 140.0)))
    # header says fewer / more packages than present
    lvA = gen_level(rng, 4, ALL, 0.6, 2, 5, 0)
    lvB = gen_level(rng, 4, ALL, 0.6, 2, 5, 0)
    cases.append(("count_fewer", build_file(rng, [lvA, lvB, []], 120.0, counts=[len(lvA) - 1, len(lvB) - 1, 2])))
    cases.append(("count_more", build_file(rng, [lvA, lvB, []], 120.0, counts=[len(lvA), len(lvB) + 3, 4])))
    cases.append(("count_more_trailing", build_file(rng, [lvA, lvB, []], 120.0, counts=[len(lvA), len(lvB), 1], trailing=5)))
    cases.append(("count_negative", build_file(rng, [lvA, [], []], 120.0, counts=[-1, len(lvA), 0])))
    # negative event count in a package header
    cases.append(("evcount_negative", build_file(rng, [[pkg_bytes(1, 2, [], count=-3), pkg_bytes(2, 2, [note_ev(1, 0, 0)])], [], []], 120.0)))
    # truncated
    f = build_file(rng, [lvA, lvB, lvA], 120.0)
    cases.append(("truncated_mid_event", f[:-3]))
    cases.append(("truncated_mid_header", f[: 300 + 5]))
    cases.append(("truncated_level", f[: 300 + len(b"".join(lvA))]))
    cases.append(("header_only", f[:300]))
    cases.append(("header_short", f[:299]))
    cases.append(("header_very_short", f[:10]))
    cases.append(("nothing", b""))
    # tail without head, head without tail (carried into the next level)
    cases.append(("tail_no_head", build_file(rng, [[pkg_bytes(0, 2, [note_ev(1, 0, 3)])], [], []], 120.0)))
    lv1 = [pkg_bytes(3, 5, [note_ev(1, 0x12, 2), EMPTY_EV])]
    lv2 = [pkg_bytes(1, 5, [EMPTY_EV, note_ev(1, 0x34, 3)]), pkg_bytes(2, 5, [note_ev(1, 0x56, 0)])]
    cases.append(("head_carried", build_file(rng, [lv1, lv2, []], 120.0)))
    cases.append(("head_rehead", build_file(rng, [[pkg_bytes(0, 2, [note_ev(1, 1, 2), note_ev(1, 2, 2), note_ev(1, 3, 3), EMPTY_EV])], [], []], 120.0)))
    # header tempo edge values
    simple = [pkg_bytes(1, 2, [note_ev(1, 0, 0), note_ev(1, 0, 0)]), pkg_bytes(2, 1, [struct.pack("<f", 90.0)]), pkg_bytes(3, 4, [note_ev(1, 0, 0)])]
    for name, v in [("zero", 0.0), ("negzero", -0.0), ("neg", -120.0), ("inf", float("inf")), ("nan", float("nan")), ("tiny", 1e-38), ("huge", 3e38)]:
        cases.append((f"hdrbpm_{name}", build_file(rng, [simple, [], simple[1:2]], v, plain=True)))
    cases.append(("hdrbpm_zero_bpmfirst", build_file(rng, [[pkg_bytes(0, 1, [struct.pack("<f", 90.0)])] + simple, [], []], 0.0)))
    cases.append(("hdrbpm_zero_onlybpm", build_file(rng, [[pkg_bytes(5, 1, [struct.pack("<f", 90.0)])], [], []], 0.0)))
    cases.append(("hdrbpm_zero_empty", build_file(rng, [[], [], []], 0.0)))
    # outside the quantified domain but must still behave the same
    cases.append(("measure_fraction", build_file(rng, [simple + [pkg_bytes(2, 0, [struct.pack("<f", 0.75)])], [], []], 120.0)))
    cases.append(("measure_fraction_empty", build_file(rng, [[pkg_bytes(2, 0, [])], [], []], 120.0)))
    cases.append(("negative_measures", build_file(rng, [gen_level(rng, 6, ALL, 0.7, 4, 8, 1, first_measure=-4), [], []], 120.0)))
    # --- random well-formed files
    for i in range(28):
        levels = []
        for _ in range(3):
            n_meas = rng.choice([0, 1, 2, 4, 8, 12])
            cols = rng.sample(ALL, k=rng.choice([0, 1, 3, 7, 7]))
            levels.append(
                gen_level(
                    rng, n_meas, cols, rng.choice([0.3, 0.7, 1.0]),
                    rng.choice([0, 1, 2, 5, 12]), rng.choice([0, n_meas, n_meas + 6]),
                    rng.choice([0, 0, 2]), shuffle_bpm=rng.random() < 0.5,
                )
            )
        cases.append((f"rand{i}", build_file(rng, levels, rng.choice(BPM_CHOICES), trailing=rng.choice([0, 0, 7, 64]))))
    # --- random weird files (ignored note types, duplicate packages, odd tempos)
    for i in range(10):
        levels = [
            gen_level(rng, rng.choice([2, 5, 9]), ALL, 0.8, rng.choice([1, 4, 8]), 10, 2, weird=True)
            for _ in range(3)
        ]
        cases.append((f"weird{i}", build_file(rng, levels, rng.choice(BPM_CHOICES + [-60.0]), trailing=3)))
    for name, data in cases:
        run_read(f"FILE[{name}]", data)
    # bytearray input must not be modified
    ba = bytearray(cases[5][1])
    run_read("FILE[bytearray]", ba)
    return cases


def scenario_bundled():
    here = os.path.join(os.getcwd(), "tests", "unit_tests", "o2jam")
    for fn in ("o2ma178.ojn", "o2ma120.ojn"):
        p = os.path.join(here, fn)
        if not os.path.exists(p):
            emit("BUNDLED", fn, "missing")
            continue
        ms = attempt(f"BUNDLED[{fn}]", lambda: O2JMapSet.read_file(p))
        if ms is not None:
            dump_mapset(f"BUNDLED[{fn}]", ms)
        flush_logs(f"BUNDLED[{fn}]")


def scenario_meta():
    rng = random.Random(4242)
    for i in range(30):
        n = rng.choice([300, 300, 300, 300, 301, 400, 299, 296, 150, 4, 0])
        raw = bytes(rng.randrange(256) for _ in range(n))
        if i % 3 == 0 and n >= 300:
            raw = build_header(rng, rng.choice(BPM_CHOICES), [1, 2, 3]) + raw[300:]
        for kind in (bytes, bytearray):
            buf = kind(raw)
            meta = O2JMapSetMeta()
            meta.title = "keep"
            meta.level = [7]
            tag = f"META[{i},{kind.__name__},{n}]"
            r = attempt(tag, lambda: meta.read_meta(buf))
            emit(tag, "ret", canon(r))
            dump_meta(tag, meta)
            emit(tag, "extra-attrs", sorted(k for k in vars(meta)))
            emit(tag, "input-unchanged", bytes(buf) == raw, type(buf).__name__)
    # via the map set class too
    ms = O2JMapSet()
    hdr = build_header(rng, 123.0, [0, 0, 0])
    attempt("META[mapset]", lambda: ms.read_meta(hdr))
    dump_meta("META[mapset]", ms)
    flush_logs("META")


def scenario_events_bpm():
    rng = random.Random(99)
    for i in range(60):
        n = rng.choice([0, 1, 2, 3, 4, 5, 7, 8, 12, 13, 16, 30, 64, 768])
        if rng.random() < 0.5:
            n = n - n % 4
        chunks = bytearray()
        while len(chunks) < n:
            r = rng.random()
            if r < 0.4:
                chunks += struct.pack("<f", rng.choice([0.0, -0.0]))
            elif r < 0.8:
                chunks += struct.pack("<f", rng.choice(BPM_CHOICES + [-3.0, float("inf"), float("nan")]))
            else:
                chunks += bytes(rng.randrange(256) for _ in range(4))
        raw = bytes(chunks[:n])
        measure = rng.choice([0, 1, 7, 100, -2, 3.5, 2**31 - 1])
        for kind in (bytes, bytearray):
            buf = kind(raw)
            tag = f"EVBPM[{i},{kind.__name__},{n},{measure}]"
            r = attempt(tag, lambda: O2JEventPackage.read_events_bpm(buf, measure))
            emit(tag, "ret", canon(r))
            emit(tag, "input-unchanged", bytes(buf) == raw)
    flush_logs("EVBPM")


def scenario_events_note():
    rng = random.Random(1234)
    for i in range(80):
        n_ev = rng.choice([0, 1, 2, 3, 4, 6, 8, 16, 48])
        evs = []
        for _ in range(n_ev):
            r = rng.random()
            if r < 0.35:
                evs.append(struct.pack("<hBB", 0, rng.randrange(256), rng.choice([0, 2, 3, 7])))
            elif r < 0.9:
                evs.append(note_ev(rng.choice([1, -1, 255, 256, -32768]), rng.randrange(256), rng.choice([0, 0, 2, 3, 3, 1, 4])))
            else:
                evs.append(bytes(rng.randrange(256) for _ in range(4)))
        raw = b"".join(evs)
        extra = rng.choice([0, 0, 0, 1, 2, 3])
        raw += bytes(rng.randrange(1, 256) for _ in range(extra))
        column = rng.choice([0, 1, 3, 6, 6])
        measure = rng.choice([0, 1, 9, -1, 2.25])
        for kind in (bytes, bytearray):
            hb = {}
            for c in rng.sample(range(7), k=rng.choice([0, 1, 7])) if kind is bytes else keep_cols:
                h = O2JHold(volume=c, pan=1, column=c, length=-1, offset=0)
                h.measure = 0.5 + c
                hb[c] = h
            if kind is bytes:
                keep_cols = list(hb.keys())
            buf = kind(raw)
            tag = f"EVNOTE[{i},{kind.__name__},{n_ev}+{extra},c{column},m{measure}]"
            r = attempt(tag, lambda: O2JEventPackage.read_events_note(buf, column, hb, measure))
            emit(tag, "ret", canon(r))
            emit(tag, "hold_buffer", canon(hb))
            emit(tag, "input-unchanged", bytes(buf) == raw)
    flush_logs("EVNOTE")


def dump_pkgs(tag, lvls):
    for li, lv in enumerate(lvls):
        for pi, p in enumerate(lv):
            emit(tag, f"lvl{li}.pkg{pi}", canon(p))


def scenario_stages(cases):
    """read_event_packages and read_pkgs called directly, argument state after."""
    rng = random.Random(555)
    picked = [c for c in cases if c[0] in (
        "bpm_after_last", "bpm_ties_chords", "ln_span", "slots_1_192_0", "hdrbpm_zero",
        "hdrbpm_zero_bpmfirst", "hdrbpm_zero_onlybpm", "measure_fraction", "negative_measures",
        "rand0", "rand3", "rand7", "rand11", "rand19", "weird2", "weird5", "empty3", "truncated_level",
    )]
    for name, data in picked:
        body = data[300:]
        counts = list(struct.unpack("<3i", data[64:76]))
        tag = f"STAGE[{name}]"
        counts_before = list(counts)
        lvls = attempt(tag + ".pk", lambda: O2JEventPackage.read_event_packages(body, counts))
        emit(tag, "counts-unchanged", counts == counts_before)
        if lvls is None:
            continue
        dump_pkgs(tag + ".before", lvls)
        for li, lv in enumerate(lvls):
            for init_bpm in (struct.unpack("<f", data[16:20])[0], 0.0, 100, rng.choice(BPM_CHOICES)):
                t = f"{tag}.lvl{li}.init{init_bpm!r}"
                n_before = len(lv)
                m = attempt(t, lambda: O2JMap.read_pkgs(pkgs=lv, init_bpm=init_bpm))
                if m is not None:
                    dump_map(t, m)
                emit(t, "pkgs-len-unchanged", len(lv) == n_before)
                dump_pkgs(t + ".after", [lv])
    # empty package list, package without events
    for init_bpm in (120.0, 0.0, 0):
        t = f"STAGE[nopkgs,{init_bpm!r}]"
        m = attempt(t, lambda: O2JMap.read_pkgs(pkgs=[], init_bpm=init_bpm))
        if m is not None:
            dump_map(t, m)
        m = attempt(t + "b", lambda: O2JMap.read_pkgs(pkgs=[O2JEventPackage(), O2JEventPackage(3, 1)], init_bpm=init_bpm))
        if m is not None:
            dump_map(t + "b", m)
    # hand-made events: unsorted packages, tempo ties, tempo only before/after, int measures
    def mk_bpm(measure, v):
        b = O2JBpm(bpm=v, offset=0)
        b.measure = measure
        return b

    def mk_hold(measure, tail, col):
        h = O2JHold(volume=1, pan=2, column=col, length=-1, offset=0)
        h.measure = measure
        h.tail_measure = tail
        return h

    hand = [
        O2JEventPackage(5, 1, [mk_bpm(5, 200.0), mk_bpm(5.5, 100.0)]),
        O2JEventPackage(1, 2, [mk_hold(1.25, 7.75, 0), mk_hold(1.5, 1.25, 0)]),
        O2JEventPackage(5, 1, [mk_bpm(5, 50.0)]),
        O2JEventPackage(0, 1, [mk_bpm(0, 75.0), mk_bpm(0, 150.0)]),
        O2JEventPackage(9, 1, [mk_bpm(9, 300.0), mk_bpm(8, 30.0)]),
        O2JEventPackage(5, 3, [mk_hold(5, 5.5, 1), mk_hold(5.5, 9, 2), mk_hold(4.999, 5, 3)]),
    ]
    for init_bpm in (120.0, 60, 0.0):
        t = f"STAGE[hand,{init_bpm!r}]"
        m = attempt(t, lambda: O2JMap.read_pkgs(pkgs=hand, init_bpm=init_bpm))
        if m is not None:
            dump_map(t, m)
        dump_pkgs(t + ".after", [hand])
    flush_logs("STAGE")


def main():
    cases = scenario_files()
    scenario_bundled()
    scenario_meta()
    scenario_events_bpm()
    scenario_events_note()
    scenario_stages(cases)
    text = "\n".join(OUT) + "\n"
    if os.environ.get("C07_DUMP"):
        with open(os.environ["C07_DUMP"], "w") as f:
            f.write(text)
    print("DIGEST", hashlib.sha256(text.encode()).hexdigest())


if __name__ == "__main__":
    main()
