"""Demo for refactoring 2: sv_normalize builds its frame with DataFrame.assign.

Runs sv_normalize over generated OsuMap / QuaMap (and one SMMap) inputs:
empty / single / sorted / unsorted / tied / zero / negative / NaN / inf / int bpms,
odd row labels, with and without notes and existing svs, every kind of
override_bpm, real charts from rsc/, once and in sequences.  Hashes
  - every result (class, values, dtypes, column order, row labels),
  - every raised exception type and warning,
  - the whole input map after the call and after the result was changed.
Prints one line: DIGEST <sha256>.
"""
import hashlib
import random
import warnings
from dataclasses import fields
from pathlib import Path

import numpy as np
import pandas as pd

from reamber.algorithms.generate import sv_normalize
from reamber.osu import OsuMap
from reamber.osu.lists import OsuBpmList, OsuSvList
from reamber.osu.lists.notes import OsuHitList, OsuHoldList
from reamber.quaver import QuaMap
from reamber.quaver.lists import QuaBpmList, QuaSvList
from reamber.quaver.lists.notes import QuaHitList, QuaHoldList
from reamber.sm import SMMap
from reamber.sm.lists import SMBpmList
from reamber.sm.lists.notes import SMHitList

random.seed(1402)
np.random.seed(1402)

H = hashlib.sha256()
N_RECORDS = 0
MAPS_DIR = Path("rsc/maps")


def emit(*parts):
    global N_RECORDS
    N_RECORDS += 1
    H.update(("|".join(str(p) for p in parts) + "\n").encode("utf8"))


def dump_df(df: pd.DataFrame) -> str:
    return repr(
        (
            list(map(str, df.columns)),
            [str(t) for t in df.dtypes],
            str(df.index.dtype),
            [repr(i) for i in df.index.tolist()],
            [[repr(v) for v in row] for row in df.itertuples(index=False, name=None)],
        )
    )


def dump_tl(tl) -> str:
    return type(tl).__name__ + ":" + dump_df(tl.df)


def dump_map(m) -> str:
    parts = [type(m).__name__]
    for k, tl in m.objs.items():
        parts.append(k + "=" + dump_tl(tl))
    for f in fields(m):
        if f.name == "objs":
            continue
        v = getattr(m, f.name)
        parts.append(f.name + "=" + (dump_tl(v) if hasattr(v, "df") else repr(v)))
    return "\n".join(parts)


GAMES = {
    "osu": (OsuMap, OsuBpmList, OsuSvList, OsuHitList, OsuHoldList),
    "qua": (QuaMap, QuaBpmList, QuaSvList, QuaHitList, QuaHoldList),
}


def relabel(df: pd.DataFrame, kind: str) -> pd.DataFrame:
    n = len(df)
    if kind == "shuffled":
        labels = list(range(5, 5 + n))
        random.shuffle(labels)
        df.index = labels
    elif kind == "dupes":
        df.index = [random.choice([0, 1]) for _ in range(n)]
    elif kind == "str":
        df.index = [f"b{i}" for i in range(n)][::-1]
    return df


def gen_bpms(BpmList, kind: str, label: str):
    n = {"empty": 0, "single": 1}.get(kind, random.randint(2, 8))
    bl = BpmList.empty(n)
    offsets = np.cumsum(np.random.randint(1, 5000, n)).astype(float)
    bpms = np.random.choice([60.0, 90.0, 120.0, 150.5, 180.0, 222.22, 300.0], n)
    if kind == "unsorted":
        np.random.shuffle(offsets)
    elif kind == "ties":
        offsets = np.random.choice([0.0, 1000.0, 1000.0, 3000.0], n)
        bpms = np.random.choice([100.0, 200.0], n)
    elif kind == "zero":
        bpms[random.randrange(n)] = 0.0
    elif kind == "negative":
        bpms[random.randrange(n)] = -120.0
        offsets = offsets - 4000.0
    elif kind == "nan":
        bpms[random.randrange(n)] = np.nan
    elif kind == "inf":
        bpms[random.randrange(n)] = np.inf
    elif kind == "int":
        bpms = np.random.randint(60, 300, n)
        offsets = offsets.astype(int)
    elif kind == "equal_share":
        offsets = np.arange(n) * 1000.0
        bpms = np.array([100.0 + 50 * (i % 2) for i in range(n)])
    bl.offset = offsets
    bl.bpm = bpms
    if n and random.random() < 0.5:
        bl.metronome = np.random.choice([3, 4, 7], n)
    if "kiai" in bl.df.columns and n:
        bl.kiai = np.random.choice([True, False], n)
        bl.volume = np.random.randint(0, 100, n)
    bl.df = relabel(bl.df, label)
    return bl


BPM_KINDS = [
    "empty", "single", "sorted", "unsorted", "ties", "zero", "negative",
    "nan", "inf", "int", "equal_share",
]  # fmt: skip
LABELS = ["range", "shuffled", "dupes", "str"]


def gen_map(game: str, bpm_kind: str, label: str, notes: str, svs: bool):
    Map_, BpmList, SvList, HitList_, HoldList_ = GAMES[game]
    m = Map_()
    m.bpms = gen_bpms(BpmList, bpm_kind, label)
    if notes != "none":
        n = random.randint(1, 12)
        hits = HitList_.empty(n)
        hits.offset = np.random.uniform(-1000, 30000, n).round(1)
        hits.column = np.random.randint(0, random.choice([4, 7]), n)
        m.hits = hits
    if notes == "both":
        n = random.randint(1, 6)
        holds = HoldList_.empty(n)
        holds.offset = np.random.uniform(0, 25000, n).round(1)
        holds.column = np.random.randint(0, 4, n)
        holds.length = np.random.uniform(0, 2000, n).round(1)
        m.holds = holds
    if svs:
        n = random.randint(1, 5)
        sl = SvList.empty(n)
        sl.offset = np.random.uniform(0, 20000, n).round(0)
        sl.multiplier = np.random.choice([0.5, 1.0, 2.0, 0.0, -1.0], n)
        m.svs = sl
    return m


def mutate_result(res):
    res.multiplier = res.multiplier * 2 + 1
    res.offset += 777
    if len(res.df):
        res.df.iloc[0, 0] = -999.0
        res.df.iat[len(res.df) - 1, 1] = 123.0
    res.df["extra"] = 1


def run(label, m, fn):
    before = dump_map(m)
    with warnings.catch_warnings(record=True) as ws:
        warnings.simplefilter("always")
        try:
            res = fn(m)
            exc = None
        except Exception as e:  # noqa
            res = None
            exc = type(e).__name__
    warns = sorted((w.category.__name__, str(w.message)) for w in ws)
    after = dump_map(m)
    emit(label, "EXC", exc, "WARN", warns)
    emit(label, "INPUT_SAME", before == after, after)
    if res is not None:
        emit(label, "RES", dump_tl(res), "SHARES_DF", res.df is m.bpms.df)
        with warnings.catch_warnings(record=True) as ws:
            warnings.simplefilter("always")
            try:
                mutate_result(res)
            except Exception as e:  # noqa
                emit(label, "MUT_EXC", type(e).__name__)
        emit(label, "MUT_WARN", sorted(w.category.__name__ for w in ws))
        emit(label, "INPUT_AFTER_RESULT_CHANGE", dump_map(m) == before)
    return res


OVERRIDES = [
    None, 0, 0.0, 120, 200.0, -60.0, np.float64(150.0), np.int64(100),
    float("nan"), float("inf"), True, "x", [], [100], np.array([1.0, 2.0]),
]  # fmt: skip

# ---- generated maps ------------------------------------------------------- #
count = 0
for game in GAMES:
    for bpm_kind in BPM_KINDS:
        for notes in ("none", "hits", "both"):
            label = random.choice(LABELS)
            svs = random.random() < 0.5
            m = gen_map(game, bpm_kind, label, notes, svs)
            tag = f"{game}/{bpm_kind}/{label}/{notes}/svs={svs}"
            count += 1
            run(f"{tag}/default", m, lambda x: sv_normalize(x))
            for ov in random.sample(OVERRIDES, 6):
                run(f"{tag}/override={ov!r}", m, lambda x: sv_normalize(x, ov))
                run(f"{tag}/override_kw={ov!r}", m,
                    lambda x: sv_normalize(x, override_bpm=ov))

            # sequences: normalise, append to the map, normalise again
            def seq(x):
                first = sv_normalize(x)
                second = sv_normalize(x, 100)
                y = x.deepcopy()
                y.svs = y.svs.append(first).append(second, sort=True)
                third = sv_normalize(y)
                emit(tag, "SEQ_PARTS", dump_tl(first), dump_tl(second), dump_map(y))
                return third

            run(f"{tag}/sequence", m, seq)
            run(f"{tag}/after_rate", m, lambda x: sv_normalize(x.rate(1.5), 180))

# ---- bpm frame with unusual columns --------------------------------------- #
for game in GAMES:
    m = gen_map(game, "sorted", "range", "hits", False)
    m.bpms.df["multiplier"] = 9.0  # already carries the column that is computed
    run(f"{game}/has_multiplier", m, lambda x: sv_normalize(x))
    run(f"{game}/has_multiplier/ov", m, lambda x: sv_normalize(x, 75))
    m = gen_map(game, "sorted", "shuffled", "hits", True)
    m.bpms.df = m.bpms.df.drop(columns="bpm")
    run(f"{game}/no_bpm_column", m, lambda x: sv_normalize(x, 100))
    run(f"{game}/no_bpm_column/default", m, lambda x: sv_normalize(x))
    m = gen_map(game, "sorted", "str", "both", True)
    m.bpms.df = m.bpms.df.drop(columns="offset")
    run(f"{game}/no_offset_column", m, lambda x: sv_normalize(x, 100))
    m = gen_map(game, "unsorted", "range", "both", True)
    m.bpms.df["bpm"] = m.bpms.df["bpm"].astype(object)
    run(f"{game}/object_bpm", m, lambda x: sv_normalize(x))
    m = gen_map(game, "sorted", "range", "both", True)
    m.bpms.df = m.bpms.df[m.bpms.df.columns[::-1]]  # reversed column order
    run(f"{game}/reversed_columns", m, lambda x: sv_normalize(x))

# ---- a map type without svs ------------------------------------------------ #
sm = SMMap()
bl = SMBpmList.empty(2)
bl.offset = [0.0, 1000.0]
bl.bpm = [120.0, 240.0]
sm.bpms = bl
hl = SMHitList.empty(3)
hl.offset = [0.0, 500.0, 4000.0]
sm.hits = hl
run("sm/no_svs", sm, lambda x: sv_normalize(x))
run("sm/no_svs/ov", sm, lambda x: sv_normalize(x, 100))
run("none", OsuMap(), lambda x: sv_normalize(None))

# ---- real charts ----------------------------------------------------------- #
for name in ["Gravity", "Escapes", "ICFITU", "Caravan", "LNDan14", "Aiae"]:
    m = OsuMap.read_file(MAPS_DIR / "osu" / f"{name}.osu")
    run(f"real/osu/{name}", m, lambda x: sv_normalize(x))
    run(f"real/osu/{name}/ov", m, lambda x: sv_normalize(x, 173.5))
for name in ["CarryMeAway", "NeuroCloud"]:
    m = QuaMap.read_file(MAPS_DIR / "qua" / f"{name}.qua")
    run(f"real/qua/{name}", m, lambda x: sv_normalize(x))
    run(f"real/qua/{name}/ov", m, lambda x: sv_normalize(x, 99))

emit("records", N_RECORDS, "maps", count)
print("DIGEST", H.hexdigest())
