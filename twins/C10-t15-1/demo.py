"""Demonstration for C10 / k=1: bpm_changes_offset_to_snap.

Prints ONE line on stdout: sha256 over a canonical text of every result, its
types / dtypes, exceptions raised (type + message) and the state of the inputs
after each call.  Run as
    cd /tmp/r15/C10 && PYTHONPATH=/tmp/r15/C10 /venv/bin/python demo.py
"""
import copy
import hashlib
import logging
import random
import sys
import warnings
from fractions import Fraction

import numpy as np

import reamber
from reamber.algorithms.timing.TimingMap import TimingMap
from reamber.algorithms.timing.utils.BpmChangeOffset import BpmChangeOffset
from reamber.algorithms.timing.utils.BpmChangeSnap import BpmChangeSnap
from reamber.algorithms.timing.utils.Snapper import Snapper
from reamber.algorithms.timing.utils.bpm_changes_offset_to_snap import (
    bpm_changes_offset_to_snap,
)
from reamber.algorithms.timing.utils.snap import Snap
from reamber.base.Bpm import Bpm
from reamber.base.lists.BpmList import BpmList

print(reamber.__file__, file=sys.stderr)
logging.disable(logging.CRITICAL)
warnings.simplefilter("ignore")

LINES = []


def scal(x):
    if isinstance(x, (np.generic,)):
        return f"{type(x).__name__}[{x.dtype}]:{x.item()!r}"
    return f"{type(x).__name__}:{x!r}"


def canon(x):
    if isinstance(x, Snap):
        return f"Snap({scal(x.measure)},{scal(x.beat)},{scal(x.metronome)})"
    if isinstance(x, BpmChangeSnap):
        return f"BCS({scal(x.bpm)},{scal(x.metronome)},{canon(x.snap)})"
    if isinstance(x, BpmChangeOffset):
        return f"BCO({scal(x.bpm)},{scal(x.metronome)},{scal(x.offset)})"
    if isinstance(x, TimingMap):
        return f"TM({canon(x.bpm_changes_offset)})"
    if isinstance(x, np.ndarray):
        return f"nd[{x.dtype}]{x.shape}(" + ",".join(canon(i) for i in x) + ")"
    if isinstance(x, (list, tuple)):
        return type(x).__name__ + "(" + ",".join(canon(i) for i in x) + ")"
    return scal(x)


def attempt(label, fn):
    try:
        r = fn()
        LINES.append(f"{label} -> OK {canon(r)}")
        return r
    except Exception as e:  # noqa
        LINES.append(f"{label} -> EXC {type(e).__name__}: {e}")
        return None


def state(label, items, originals):
    """State of an argument list after the call: order (by identity) + values"""
    ids = [id(o) for o in originals]
    order = [ids.index(id(o)) if id(o) in ids else -1 for o in items]
    LINES.append(f"{label} state order={order} type={type(items).__name__} {canon(list(items))}")


def run_case(name, bco_s, snapper, queries_ms=(), queries_snap=()):
    originals = list(bco_s)
    # 1. the function itself
    arg = bco_s
    attempt(f"{name}/direct", lambda: bpm_changes_offset_to_snap(arg, snapper))
    state(f"{name}/direct", arg, originals)
    # idempotent second call on the (now sorted) argument
    attempt(f"{name}/direct2", lambda: bpm_changes_offset_to_snap(arg, snapper=snapper))
    state(f"{name}/direct2", arg, originals)

    # 2. through TimingMap (fresh shuffled copy of the inputs)
    fresh = copy.deepcopy(originals)
    tm = attempt(f"{name}/tm", lambda: TimingMap.from_bpm_changes_offset(fresh))
    if tm is None:
        return
    tm.snapper = snapper
    attempt(f"{name}/tm.bcs", tm.bpm_changes_snap)
    q_ms = list(queries_ms)
    q_ms_copy = copy.deepcopy(q_ms)
    attempt(f"{name}/tm.snaps", lambda: tm.snaps(q_ms, snapper))
    attempt(f"{name}/tm.beats", lambda: tm.beats(q_ms, snapper))
    LINES.append(f"{name}/q_ms unchanged={canon(q_ms) == canon(q_ms_copy)} {canon(q_ms)}")
    q_sn = list(queries_snap)
    q_sn_copy = copy.deepcopy(q_sn)
    attempt(f"{name}/tm.offsets", lambda: tm.offsets(q_sn))
    LINES.append(f"{name}/q_sn unchanged={canon(q_sn) == canon(q_sn_copy)} {canon(q_sn)}")
    for q in q_ms[:2]:
        attempt(f"{name}/active_o({q!r})", lambda: tm.get_active_bpm_by_offset(q))
    for q in q_sn[:2]:
        attempt(f"{name}/active_s", lambda: tm.get_active_bpm_by_snap(q))
    attempt(f"{name}/reseat", tm.reseat)
    LINES.append(f"{name}/tm after {canon(tm)}")


def gen_bcos(rng, n, kind):
    """Generate n tempo changes; kind selects how gaps relate to the grid"""
    offset = rng.choice([0, 0.0, -1500, -333.25, 1234.5, 100, rng.uniform(-5000, 5000)])
    out = []
    for i in range(n):
        bpm = rng.choice(
            [60, 120, 150, 175.5, 200, 222.22, 60000, 30, rng.uniform(20, 500)]
        )
        met = rng.randint(1, 8)
        out.append(BpmChangeOffset(bpm, met, offset))
        beat = 60000 / bpm
        if kind == "measure":
            offset = offset + beat * met * rng.randint(1, 6)
        elif kind == "beat":
            offset = offset + beat * rng.randint(1, 13)
        elif kind == "frac":
            offset = offset + beat * (
                rng.randint(0, 9) + rng.choice([0.25, 0.5, 1 / 3, 0.75, 1 / 7, 5 / 96])
            )
        elif kind == "dup" and rng.random() < 0.4:
            offset = offset  # duplicated position
        else:
            offset = offset + rng.uniform(0.5, 4000)
    return out


def gen_queries(rng, bcos, m):
    lo = min(b.offset for b in bcos)
    hi = max(b.offset for b in bcos) + 5000
    q = []
    for _ in range(m):
        r = rng.random()
        if r < 0.25:
            q.append(rng.choice(bcos).offset)
        elif r < 0.4 and q:
            q.append(rng.choice(q))
        elif r < 0.7:
            b = rng.choice(bcos)
            q.append(b.offset + 60000 / b.bpm * rng.randint(0, 12) / rng.choice([1, 2, 3, 4, 8]))
        else:
            q.append(rng.uniform(lo, hi))
    return q


def main():
    rng = random.Random(1510)
    default = Snapper()
    snappers = [default, default, default, Snapper([1, 2, 4]), Snapper((1, 3, 5, 7)), Snapper([1, 2, 3, 4, 6, 8, 12, 16, 24, 48, 192])]
    kinds = ["measure", "beat", "frac", "dup", "free"]

    # --- generated cases -------------------------------------------------
    for i in range(60):
        n = rng.choice([1, 1, 2, 3, 4, 5, 8, 12])
        kind = kinds[i % len(kinds)]
        bcos = gen_bcos(rng, n, kind)
        q_ms = gen_queries(rng, bcos, rng.choice([0, 1, 3, 7, 15]))
        q_sn = [
            Snap(rng.randint(0, 20), Fraction(rng.randint(0, 31), rng.choice([1, 2, 3, 4, 8])), rng.randint(1, 8))
            for _ in range(rng.choice([0, 1, 4, 9]))
        ]
        if q_sn and rng.random() < 0.5:
            q_sn.append(q_sn[0])
        if rng.random() < 0.7:
            rng.shuffle(bcos)  # unsorted input: the in-place sort must be kept
        run_case(f"gen{i}:{kind}:n{n}", bcos, snappers[i % len(snappers)], q_ms, q_sn)

    # --- unusual inputs --------------------------------------------------
    B = BpmChangeOffset
    specials = {
        "empty": [],
        "tuple": (B(120, 4, 0), B(60, 4, 2000)),
        "met_none_first": [B(120, None, 0), B(60, 4, 2000)],
        "met_none_second": [B(120, 4, 0), B(60, None, 2000)],
        "met_zero": [B(120, 0, 0), B(60, 4, 2000)],
        "met_frac": [B(120, 3.5, 0), B(90, Fraction(7, 2), 1750.0), B(60, 4, 5000)],
        "met_Fraction": [B(120, Fraction(3), -10), B(60, Fraction(5, 2), 1490)],
        "bpm_zero": [B(0, 4, 0), B(60, 4, 2000)],
        "bpm_negative": [B(-120, 4, 0), B(60, 4, 2000)],
        "nan_offset": [B(120, 4, 0), B(60, 4, float("nan"))],
        "inf_offset": [B(120, 4, 0), B(60, 4, float("inf"))],
        "all_same_offset": [B(120, 4, 5), B(60, 3, 5), B(240, 7, 5)],
        "np_scalars": [B(np.float64(120), np.int64(4), np.float64(-250.0)), B(np.float32(150), 3, np.int32(1750))],
        "int_everything": [B(60, 4, 0), B(120, 3, 4000), B(240, 5, 5500)],
        "very_close": [B(120, 4, 0), B(121, 4, 1e-9), B(122, 4, 2e-9)],
        "huge_bpm": [B(1e9, 4, 0), B(60, 4, 1)],
        "tiny_bpm": [B(1e-3, 4, 0), B(60, 4, 1)],
        "str_offset": [B(120, 4, "a"), B(60, 4, "b")],
        "mixed_bad": [B(120, 4, 0), "not a bpm change"],
        "reverse_sorted": [B(60, 4, 9000), B(90, 5, 6000), B(120, 6, 3000), B(150, 7, 0)],
    }
    for name, bcos in specials.items():
        run_case(f"special:{name}", bcos, default, [0, 2000, 1000.5, 2000], [Snap(0, 0, 4), Snap(2, 1, 4), Snap(0, 0, 4)])

    # list subclass argument
    class MyList(list):
        pass

    run_case("special:list_subclass", MyList([B(60, 4, 4000), B(120, 2, 0)]), default, [4000, 0, 4500], [Snap(1, 0, 4)])

    # snapper given as something that is not a Snapper
    run_case("special:snapper_none", [B(120, 4, 0), B(60, 4, 2000)], None, [0], [])
    run_case("special:snapper_none_single", [B(120, 4, 0)], None, [0], [])

    # --- through BpmList.to_timing_map ------------------------------------
    for j in range(12):
        n = rng.choice([0, 1, 2, 5, 9])
        bpms = []
        t = rng.choice([0, -700.5, 250])
        for _ in range(n):
            bpm = rng.choice([90, 120, 180, 200.5, rng.uniform(40, 300)])
            met = rng.randint(1, 8)
            bpms.append(Bpm(t, bpm, met))
            t += (60000 / bpm) * met * rng.randint(1, 4) if rng.random() < 0.6 else rng.uniform(1, 3000)
        rng.shuffle(bpms)  # unsorted rows
        bl = BpmList(bpms)
        if n >= 2 and j % 2 == 0:
            bl = bl[bl.offset >= sorted(bl.offset)[1]]  # non-default row labels after a filter
        before = bl.df.to_csv() + str(list(bl.df.index)) + str(bl.df.dtypes.to_dict())

        def via_list():
            tm = bl.to_timing_map()
            return [tm, tm.bpm_changes_snap(), tm]

        attempt(f"bpmlist{j}:n{n}", via_list)
        after = bl.df.to_csv() + str(list(bl.df.index)) + str(bl.df.dtypes.to_dict())
        LINES.append(f"bpmlist{j} unchanged={before == after} {hashlib.sha256(after.encode()).hexdigest()}")

    text = "\n".join(LINES)
    print(f"{len(LINES)} lines", file=sys.stderr)
    print(hashlib.sha256(text.encode()).hexdigest())
    if len(sys.argv) > 1:
        open(sys.argv[1], "w").write(text)


main()
