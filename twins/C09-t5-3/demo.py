# ---------------------------------------------------------------------------
# Shared, deterministic generator of source FILES (osu / qua / sm / bms / ojn)
# and canonical dump helpers.  This block is copied verbatim into every demo.
# ---------------------------------------------------------------------------
import hashlib
import random
import struct
import warnings
import logging

import numpy as np
import pandas as pd

warnings.filterwarnings("ignore")
logging.disable(logging.CRITICAL)

GRID = 16  # rows per measure (a measure is 4 beats, so a row is 1/4 beat)

TITLES = ["Alpha", "beta gamma", "Delta-9", "x", "Song (cut)", "Zeta 7"]
ARTISTS = ["Ann", "B and C", "dj q", "nobody"]
CREATORS = ["mapper", "eve", "K2"]


class Chart:
    """A format neutral chart on a 1/4 beat grid"""

    def __init__(self, keys, n_measures, bpms, hits, holds, t0, meta):
        self.keys = keys
        self.n_measures = n_measures
        self.bpms = bpms  # [(measure, bpm)] first at measure 0
        self.hits = hits  # [(row, col)]
        self.holds = holds  # [(row, col, rows_long)]
        self.t0 = t0  # ms of row 0
        self.meta = meta

    def row_ms(self, row):
        """Time of a grid row in ms (float)"""
        t = float(self.t0)
        changes = self.bpms + [(10**9, None)]
        for (m0, bpm), (m1, _) in zip(changes[:-1], changes[1:]):
            r0, r1 = m0 * GRID, m1 * GRID
            if row <= r0:
                break
            t += (min(row, r1) - r0) * (60000.0 / bpm / 4)
        return t


def gen_chart(rng, keys, n_measures=None, density=0.12, hold_share=0.35,
              n_bpm=None, int_bpm=True, empty=False):
    n_measures = n_measures or rng.randint(1, 4)
    n_bpm = rng.randint(1, 3) if n_bpm is None else n_bpm
    pool = [60, 90, 120, 150, 160, 180, 200, 240] if int_bpm else \
        [87.5, 120.0, 150.25, 175.5, 99.75, 200.0]
    measures = sorted(rng.sample(range(1, max(2, n_measures)), min(n_bpm - 1, max(0, n_measures - 1))))
    bpms = [(0, rng.choice(pool))]
    for m in measures:
        b = rng.choice(pool)
        while b == bpms[-1][1]:
            b = rng.choice(pool)
        bpms.append((m, b))
    hits, holds = [], []
    total = n_measures * GRID
    if not empty:
        for col in range(keys):
            row = 0
            while row < total:
                if rng.random() < density:
                    if rng.random() < hold_share and row + 2 < total:
                        ln = rng.randint(1, min(8, total - row - 1))
                        holds.append((row, col, ln))
                        row += ln + 1
                    else:
                        hits.append((row, col))
                        row += 1
                else:
                    row += 1
        # every column is used, so that the key count is recoverable
        used = {c for _, c in hits} | {c for _, c, _ in holds}
        for col in range(keys):
            if col not in used:
                free = [r for r in range(total)
                        if not any(h[1] == col and h[0] <= r <= h[0] + h[2] for h in holds)
                        and (r, col) not in hits]
                hits.append((rng.choice(free), col))
    hits.sort()
    holds.sort()
    meta = dict(title=rng.choice(TITLES), artist=rng.choice(ARTISTS),
                creator=rng.choice(CREATORS), version=rng.choice(["Easy", "Hard 7", "12"]),
                audio="audio.mp3", bg="bg.jpg", preview=rng.choice([-1, 0, 1500, 32000]))
    t0 = rng.choice([0, 0, 250, 1000, 37])
    return Chart(keys, n_measures, bpms, hits, holds, t0, meta)


# ------------------------------------------------------------------ emitters
def emit_osu(ch, rng, float_times=False, svs=True, shuffle=False):
    def t(row):
        v = ch.row_ms(row)
        return repr(round(v, 3)) if float_times else str(int(round(v)))

    m = ch.meta
    lines = [
        "osu file format v14", "", "[General]",
        f"AudioFilename: {m['audio']}", "AudioLeadIn: 0",
        f"PreviewTime: {m['preview']}", "Countdown: 0", "SampleSet: Soft",
        "StackLeniency: 0.7", "Mode: 3", "LetterboxInBreaks: 0",
        "SpecialStyle: 0", "WidescreenStoryboard: 1", "",
        "[Editor]", "DistanceSpacing: 1.2", "BeatDivisor: 4", "GridSize: 8",
        "TimelineZoom: 1.5", "",
        "[Metadata]", f"Title:{m['title']}", f"TitleUnicode:{m['title']}",
        f"Artist:{m['artist']}", f"ArtistUnicode:{m['artist']}",
        f"Creator:{m['creator']}", f"Version:{m['version']}", "Source:",
        "Tags:gen demo", "BeatmapID:0", "BeatmapSetID:-1", "",
        "[Difficulty]", "HPDrainRate:8", f"CircleSize:{ch.keys}",
        "OverallDifficulty:8", "ApproachRate:5", "SliderMultiplier:1.4",
        "SliderTickRate:1", "",
        "[Events]", "//Background and Video events",
        f'0,0,"{m["bg"]}",0,0', "//Break Periods",
        "//Storyboard Layer 0 (Background)", "//Storyboard Sound Samples", "",
        "[TimingPoints]",
    ]
    tps = []
    for meas, bpm in ch.bpms:
        tps.append(f"{t(meas * GRID)},{60000.0 / bpm!r},4,2,0,40,1,0")
    if svs:
        for _ in range(rng.randint(0, 3)):
            row = rng.randrange(0, ch.n_measures * GRID)
            mult = rng.choice([0.5, 1.0, 2.0, 1.25])
            tps.append(f"{t(row)},{-100.0 / mult!r},4,2,0,40,0,0")
    lines += tps
    lines += ["", "", "[HitObjects]"]
    objs = []
    for row, col in ch.hits:
        x = int((512 * col + 256) // ch.keys)
        objs.append((ch.row_ms(row), f"{x},192,{t(row)},1,0,0:0:0:0:"))
    for row, col, ln in ch.holds:
        x = int((512 * col + 256) // ch.keys)
        objs.append((ch.row_ms(row), f"{x},192,{t(row)},128,0,{t(row + ln)}:0:0:0:0:"))
    if shuffle:
        rng.shuffle(objs)
    else:
        objs.sort(key=lambda o: o[0])
    lines += [o[1] for o in objs]
    lines.append("")
    return "\n".join(lines)


def emit_qua(ch, rng, shuffle=False):
    m = ch.meta
    mode = {4: "Keys4", 7: "Keys7", 8: "Keys8"}.get(ch.keys, "Keys4")
    out = [
        f"AudioFile: {m['audio']}", f"SongPreviewTime: {m['preview']}",
        f"BackgroundFile: {m['bg']}", "MapId: -1", "MapSetId: -1",
        f"Mode: {mode}", f"Title: '{m['title']}'", f"Artist: '{m['artist']}'",
        "Source: ''", "Tags: gen demo", f"Creator: {m['creator']}",
        f"DifficultyName: '{m['version']}'", "Description: generated",
        "EditorLayers: []", "CustomAudioSamples: []", "SoundEffects: []",
        "TimingPoints:",
    ]
    for meas, bpm in ch.bpms:
        out += [f"- StartTime: {int(round(ch.row_ms(meas * GRID)))}", f"  Bpm: {bpm}"]
    n_sv = rng.randint(0, 2)
    if n_sv:
        out.append("SliderVelocities:")
        for _ in range(n_sv):
            row = rng.randrange(0, ch.n_measures * GRID)
            out += [f"- StartTime: {int(round(ch.row_ms(row)))}",
                    f"  Multiplier: {rng.choice([0.5, 2.0, 1.25])}"]
    else:
        out.append("SliderVelocities: []")
    objs = []
    for row, col in ch.hits:
        objs.append((ch.row_ms(row), [f"- StartTime: {int(round(ch.row_ms(row)))}",
                                      f"  Lane: {col + 1}", "  KeySounds: []"]))
    for row, col, ln in ch.holds:
        objs.append((ch.row_ms(row), [f"- StartTime: {int(round(ch.row_ms(row)))}",
                                      f"  Lane: {col + 1}",
                                      f"  EndTime: {int(round(ch.row_ms(row + ln)))}",
                                      "  KeySounds: []"]))
    if shuffle:
        rng.shuffle(objs)
    else:
        objs.sort(key=lambda o: o[0])
    if objs:
        out.append("HitObjects:")
        for _, o in objs:
            out += o
    else:
        out.append("HitObjects: []")
    return "\n".join(out) + "\n"


SM_TYPES = {3: "dance-threepanel", 4: "dance-single", 6: "dance-solo",
            7: "kb7-single", 8: "dance-double"}


def emit_sm(charts, rng):
    """All charts of a set share the tempo of the first"""
    ch0 = charts[0]
    m = ch0.meta
    out = [
        f"#TITLE:{m['title']};", "#SUBTITLE:;", f"#ARTIST:{m['artist']};",
        f"#TITLETRANSLIT:{m['title']};", "#SUBTITLETRANSLIT:;",
        f"#ARTISTTRANSLIT:{m['artist']};", "#GENRE:;", f"#CREDIT:{m['creator']};",
        "#BANNER:;", f"#BACKGROUND:{m['bg']};", "#LYRICSPATH:;", "#CDTITLE:;",
        f"#MUSIC:{m['audio']};", f"#OFFSET:{-ch0.t0 / 1000.0};",
        "#BPMS:" + ",".join(f"{meas * 4}={bpm}" for meas, bpm in ch0.bpms) + ";",
        "#STOPS:;", f"#SAMPLESTART:{max(m['preview'], 0) / 1000.0};",
        "#SAMPLELENGTH:10.0;", "#DISPLAYBPM:;", "#SELECTABLE:YES;",
        "#BGCHANGES:;", "#FGCHANGES:;",
    ]
    for e, ch in enumerate(charts):
        rows = [["0"] * ch.keys for _ in range(ch.n_measures * GRID + 1)]
        for row, col in ch.hits:
            rows[row][col] = "1"
        for row, col, ln in ch.holds:
            rows[row][col] = "2"
            rows[row + ln][col] = "3"
        n_meas = ch.n_measures + (1 if any(c != "0" for c in rows[-1]) else 0)
        rows += [["0"] * ch.keys for _ in range(GRID)]
        measures = []
        for mi in range(n_meas):
            measures.append("\n".join("".join(r) for r in rows[mi * GRID:(mi + 1) * GRID]))
        out += [
            f"//------{SM_TYPES[ch.keys]}------", "#NOTES:",
            f"     {SM_TYPES[ch.keys]}:", f"     {m['creator']}:",
            f"     {['Easy', 'Hard', 'Challenge'][e % 3]}:", f"     {3 + e}:",
            "     0.1,0.2,0.3,0.4,0.5:",
            "\n,\n".join(measures), ";", "",
        ]
    return "\n".join(out)


BME_CHANNEL = {0: "16", 1: "11", 2: "12", 3: "13", 4: "14", 5: "15", 6: "18", 7: "19",
               8: "21", 9: "22", 10: "23", 11: "24", 12: "25", 13: "28", 14: "29", 15: "26"}


def emit_bms(ch, rng, exbpm=False, n_wav=3):
    m = ch.meta
    out = ["", "*---------------------- HEADER FIELD", "#PLAYER 1", "#GENRE gen",
           f"#TITLE {m['title']}", f"#ARTIST {m['artist']}", f"#BPM {ch.bpms[0][1]}",
           f"#PLAYLEVEL {rng.randint(1, 12)}", "#RANK 2", "#LNOBJ ZZ"]
    wavs = ["%02X" % (i + 1) for i in range(n_wav)]
    for w in wavs:
        out.append(f"#WAV{w} s{w}.wav")
    if exbpm:
        for e, (_, bpm) in enumerate(ch.bpms[1:], 1):
            out.append(f"#BPM{e:02d} {bpm}")
    out += ["", "*---------------------- MAIN DATA FIELD", ""]
    total = ch.n_measures * GRID + 1
    per_col = {}
    for row, col in ch.hits:
        per_col.setdefault(col, {})[row] = rng.choice(wavs)
    for row, col, ln in ch.holds:
        per_col.setdefault(col, {})[row] = rng.choice(wavs)
        per_col[col][row + ln] = "ZZ"
    n_meas = ch.n_measures + 1
    for mi in range(n_meas):
        changes = [(meas, bpm) for meas, bpm in ch.bpms[1:] if meas == mi]
        for e, (meas, bpm) in enumerate(ch.bpms[1:], 1):
            if meas == mi:
                if exbpm:
                    out.append(f"#{mi:03d}08:{e:02d}")
                else:
                    out.append(f"#{mi:03d}03:{int(bpm):02X}")
        for col in sorted(per_col):
            seq = [per_col[col].get(mi * GRID + r, "00") for r in range(GRID)]
            if any(s != "00" for s in seq):
                out.append(f"#{mi:03d}{BME_CHANNEL[col]}:" + "".join(seq))
    return "\n".join(out) + "\n"


def _ojn_level(ch):
    """Packages of one level"""
    pkgs = []
    for meas, bpm in ch.bpms[1:]:
        pkgs.append((meas, 1, [struct.pack("<f", float(bpm))]))
    per = {}
    for row, col in ch.hits:
        per.setdefault((row // GRID, col), {})[row % GRID] = b"\x00"
    for row, col, ln in ch.holds:
        per.setdefault((row // GRID, col), {})[row % GRID] = b"\x02"
        per.setdefault(((row + ln) // GRID, col), {})[(row + ln) % GRID] = b"\x03"
    for (meas, col) in sorted(per):
        ev = []
        for r in range(GRID):
            kind = per[(meas, col)].get(r)
            ev.append(b"\x00\x00\x00\x00" if kind is None
                      else struct.pack("<h", 1) + b"\x00" + kind)
        pkgs.append((meas, col + 2, ev))
    pkgs.sort(key=lambda p: (p[0], p[1]))
    b = b""
    for meas, chn, ev in pkgs:
        b += struct.pack("<ihh", meas, chn, len(ev)) + b"".join(ev)
    return len(pkgs), b


def emit_ojn(charts, rng):
    """Up to 3 levels, 7 keys each.  All share the first bpm"""
    assert len(charts) <= 3
    m = charts[0].meta
    lv = [_ojn_level(c) for c in charts] + [(0, b"")] * (3 - len(charts))
    counts = [c for c, _ in lv]

    def s(txt, n):
        return txt.encode("ascii")[:n].ljust(n, b"\x00")

    levels = [rng.randint(1, 40) for _ in range(3)] + [0]
    head = b"".join([
        struct.pack("<i", rng.randint(1, 9999)), b"ojn\x00", struct.pack("<f", 2.9),
        struct.pack("<i", 3), struct.pack("<f", float(charts[0].bpms[0][1])),
        struct.pack("<4h", *levels),
        struct.pack("<3i", 0, 0, 0), struct.pack("<3i", 0, 0, 0),
        struct.pack("<3i", 0, 0, 0), struct.pack("<3i", *counts),
        struct.pack("<h", 29), struct.pack("<h", 0), s("genre", 20),
        struct.pack("<i", 0), struct.pack("<i", 0),
        s(m["title"], 64), s(m["artist"], 32), s(m["creator"], 32), s("x.ojm", 32),
        struct.pack("<i", 0), struct.pack("<3i", 60, 60, 60),
        struct.pack("<3i", 300, 300, 300), struct.pack("<i", 0),
    ])
    assert len(head) == 300, len(head)
    return head + b"".join(b for _, b in lv)


# ------------------------------------------------------------------ dumping
def cell(v):
    if isinstance(v, (float, np.floating)):
        return f"f:{float(v)!r}"
    if isinstance(v, (bool, np.bool_)):
        return f"b:{bool(v)}"
    if isinstance(v, (int, np.integer)):
        return f"i:{int(v)}"
    if isinstance(v, bytes):
        return f"y:{v!r}"
    if isinstance(v, str):
        return f"s:{v!r}"
    if isinstance(v, (list, tuple)):
        return f"{type(v).__name__}:[" + ",".join(cell(i) for i in v) + "]"
    if isinstance(v, dict):
        return "d:{" + ",".join(f"{cell(k)}={cell(x)}" for k, x in v.items()) + "}"
    if v is None:
        return "None"
    return f"{type(v).__name__}:{v!r}"


def dump_df(df):
    out = [f"  columns={list(df.columns)!r}",
           f"  dtypes={[str(t) for t in df.dtypes]!r}",
           f"  index={type(df.index).__name__}:{[cell(i) for i in df.index.tolist()]!r}"]
    for c in df.columns:
        out.append(f"  {c}=" + "|".join(cell(v) for v in df[c].tolist()))
    return "\n".join(out)


def dump_map(m):
    out = [f" {type(m).__name__}"]
    for k in sorted(m.objs):
        out.append(f" .{k} {type(m.objs[k]).__name__}")
        out.append(dump_df(m.objs[k].df))
    for k, v in sorted(vars(m).items()):
        if k == "objs":
            continue
        if hasattr(v, "df"):
            out.append(f" meta.{k} {type(v).__name__}")
            out.append(dump_df(v.df))
        else:
            out.append(f" meta.{k}={cell(v)}")
    return "\n".join(out)


def dump_any(x):
    from reamber.base.Map import Map
    from reamber.base.MapSet import MapSet
    if isinstance(x, MapSet):
        out = [f"{type(x).__name__} with {len(x.maps)} maps"]
        for k, v in sorted(vars(x).items()):
            if k != "maps":
                out.append(f" setmeta.{k}={cell(v)}")
        for mp in x.maps:
            out.append(dump_map(mp))
        return "\n".join(out)
    if isinstance(x, Map):
        return dump_map(x)
    if isinstance(x, list):
        return f"list[{len(x)}]\n" + "\n".join(dump_any(i) for i in x)
    return cell(x)


class Log:
    def __init__(self):
        self.parts = []

    def add(self, label, text):
        self.parts.append(f"## {label}\n{text}\n")

    def call(self, label, fn, dumper=None):
        """Runs fn, logs its result or the type of its exception"""
        try:
            r = fn()
        except Exception as e:  # noqa
            self.add(label, f"RAISED {type(e).__name__}")
            return None
        self.add(label, (dumper or dump_any)(r))
        return r

    def digest(self):
        import os
        text = "\n".join(self.parts)
        if os.environ.get("DEMO_DUMP"):  # optional: keep the full dump for diffing
            with open(os.environ["DEMO_DUMP"], "w", encoding="utf8", errors="backslashreplace") as f:
                f.write(text)
        return hashlib.sha256(text.encode("utf8", errors="backslashreplace")).hexdigest()
# --------------------------------------------------------------- end shared


# ------------------------------------------------------------------- corpus
import os
import tempfile

from reamber.algorithms import convert as CONV
from reamber.bms.BMSMap import BMSMap
from reamber.o2jam.O2JMapSet import O2JMapSet
from reamber.osu.OsuMap import OsuMap
from reamber.quaver.QuaMap import QuaMap
from reamber.sm.SMMapSet import SMMapSet

HERE = os.path.dirname(os.path.abspath(__file__))
READERS = dict(Osu=OsuMap.read_file, Qua=QuaMap.read_file, SM=SMMapSet.read_file,
               BMS=BMSMap.read_file, O2J=O2JMapSet.read_file)
EXT = dict(Osu="osu", Qua="qua", SM="sm", BMS="bme", O2J="ojn")
TARGETS = ("Osu", "Qua", "SM", "BMS")


def build_corpus(rng, tmp):
    """Writes the generated source files, returns [(label, kind, path)]"""
    files = []

    def put(label, kind, content):
        path = os.path.join(tmp, f"{len(files):03d}_{label}.{EXT[kind]}")
        mode, kw = ("wb", {}) if isinstance(content, bytes) else \
            ("w", dict(encoding="shift_jis" if kind == "BMS" else "utf8", newline="\n"))
        with open(path, mode, **kw) as f:
            f.write(content)
        files.append((label, kind, path))

    # osu: many key counts, integer and float times, rows in and out of order
    for keys in (1, 4, 4, 5, 6, 7, 7, 8, 9, 10):
        ch = gen_chart(rng, keys, int_bpm=rng.random() < 0.6)
        put(f"osu{keys}k", "Osu", emit_osu(ch, rng, float_times=rng.random() < 0.3,
                                           shuffle=rng.random() < 0.4))
    put("osu4k_empty", "Osu", emit_osu(gen_chart(rng, 4, empty=True), rng, svs=False))
    put("osu7k_dense", "Osu", emit_osu(gen_chart(rng, 7, n_measures=4, density=0.5), rng))
    put("osu4k_1bpm", "Osu", emit_osu(gen_chart(rng, 4, n_bpm=1, hold_share=0.0), rng))
    put("osu4k_lns", "Osu", emit_osu(gen_chart(rng, 4, n_bpm=3, n_measures=4, hold_share=1.0), rng))
    # quaver
    for keys in (4, 4, 7, 7, 8):
        ch = gen_chart(rng, keys, int_bpm=rng.random() < 0.6)
        put(f"qua{keys}k", "Qua", emit_qua(ch, rng, shuffle=rng.random() < 0.4))
    put("qua4k_empty", "Qua", emit_qua(gen_chart(rng, 4, empty=True), rng))
    put("qua7k_lns", "Qua", emit_qua(gen_chart(rng, 7, hold_share=1.0, n_measures=3), rng))
    # stepmania: one or more charts per set
    for keys in (3, 4, 4, 6, 7, 8):
        n = rng.randint(1, 3)
        ch0 = gen_chart(rng, keys, n_measures=rng.randint(1, 4))
        charts = [ch0]
        for _ in range(n - 1):
            c = gen_chart(rng, keys, n_measures=ch0.n_measures)
            c.bpms, c.t0, c.meta = ch0.bpms, ch0.t0, ch0.meta
            charts.append(c)
        put(f"sm{keys}k_x{n}", "SM", emit_sm(charts, rng))
    put("sm4k_nohold", "SM", emit_sm([gen_chart(rng, 4, hold_share=0.0)], rng))
    # bms: plain (integer) and extended (float) tempo changes
    for keys in (5, 7, 7, 8, 8, 4):
        ex = rng.random() < 0.5
        ch = gen_chart(rng, keys, int_bpm=not ex)
        put(f"bms{keys}k" + ("_ex" if ex else ""), "BMS", emit_bms(ch, rng, exbpm=ex))
    put("bms7k_1bpm", "BMS", emit_bms(gen_chart(rng, 7, n_bpm=1), rng, n_wav=1))
    put("bms8k_lns", "BMS", emit_bms(gen_chart(rng, 8, hold_share=1.0, n_measures=3), rng))
    put("bms4k_empty", "BMS", emit_bms(gen_chart(rng, 4, empty=True), rng))
    # o2jam: one to three levels of 7 keys
    for n in (1, 2, 3, 3):
        ch0 = gen_chart(rng, 7, int_bpm=rng.random() < 0.5)
        charts = [ch0]
        for _ in range(n - 1):
            c = gen_chart(rng, 7)
            c.bpms = [ch0.bpms[0]] + c.bpms[1:]
            c.meta = ch0.meta
            charts.append(c)
        put(f"o2j_x{n}", "O2J", emit_ojn(charts, rng))
    return files


def converted(kind, path, target, **kwargs):
    """read_file -> convert, always as a list of target maps / sets"""
    src = READERS[kind](path)
    out = getattr(CONV, f"{kind}To{target}").convert(src, **kwargs)
    return src, (out if isinstance(out, list) else [out])


def write_and_slurp(obj, path):
    obj.write_file(path)
    with open(path, "rb") as f:
        return f.read()
# --------------------------------------------------------------- end corpus


# ===================================================================== demo 3
# All 16 source -> target pairs: read_file, convert (every converter goes
# through ConvertBase.cast, the refactored code), write_file.  Then cast itself
# on edge cases.
import copy

from reamber.algorithms.convert.ConvertBase import ConvertBase
from reamber.bms.lists.BMSBpmList import BMSBpmList
from reamber.bms.lists.notes.BMSHitList import BMSHitList
from reamber.bms.lists.notes.BMSHoldList import BMSHoldList
from reamber.o2jam.lists.notes.O2JHoldList import O2JHoldList
from reamber.osu.lists.OsuBpmList import OsuBpmList
from reamber.osu.lists.OsuSvList import OsuSvList
from reamber.osu.lists.notes.OsuHitList import OsuHitList
from reamber.osu.lists.notes.OsuHoldList import OsuHoldList
from reamber.quaver.lists.QuaSvList import QuaSvList
from reamber.quaver.lists.notes.QuaHitList import QuaHitList
from reamber.quaver.lists.notes.QuaHoldList import QuaHoldList
from reamber.sm.lists.SMBpmList import SMBpmList
from reamber.sm.lists.notes.SMHitList import SMHitList
from reamber.sm.lists.notes.SMHoldList import SMHoldList


def dump_tl(tl):
    extra = sorted(k for k in vars(tl) if k != "_df")
    head = f" {type(tl).__name__} extra={[(k, cell(getattr(tl, k))) for k in extra]!r}\n"
    if not isinstance(tl.df, pd.DataFrame):
        return head + f"  df is {type(tl.df).__name__}: {[cell(i) for i in np.asarray(tl.df).tolist()]!r}"
    return head + dump_df(tl.df)


def main():
    random.seed(20260903)
    rng = random.Random(20260903)
    log = Log()
    with tempfile.TemporaryDirectory(dir=HERE) as tmp:
        out = os.path.join(tmp, "out.tmp")
        files = build_corpus(rng, tmp)
        lists = {}
        for label, kind, path in files:
            for target in TARGETS:
                if target == kind:
                    continue
                options = [{}]
                if (kind, target) in (("Osu", "SM"), ("Osu", "Qua"), ("SM", "Qua")):
                    options.append(dict(raise_bad_mode=False))
                if (kind, target) in (("Osu", "BMS"), ("O2J", "BMS")):
                    options.append(dict(move_right_by=2))
                for kw in options:
                    tag = f"{label} {kind}->{target} {sorted(kw.items())}"
                    try:
                        src, maps = converted(kind, path, target, **kw)
                    except Exception as e:  # noqa
                        log.add(tag, f"RAISED {type(e).__name__}")
                        continue
                    log.add(f"{tag} converted", dump_any(maps))
                    # converting must leave the source as it was read
                    log.add(f"{tag} source after", dump_any(src))
                    log.add(f"{tag} source as read", dump_any(READERS[kind](path)))
                    for i, m in enumerate(maps):
                        log.call(f"{tag} [{i}] write_file", lambda: write_and_slurp(m, out), cell)
            src = READERS[kind](path)
            for m in (src if kind in ("SM", "O2J") else [src]):
                for name in ("hits", "holds", "bpms"):
                    # the longest list of every kind is kept for the cast cases
                    if len(getattr(m, name)) > len(lists.get((kind, name), [])) or (kind, name) not in lists:
                        lists[(kind, name)] = getattr(m, name)
        osu_svs = OsuMap.read_file(files[0][2]).svs

    # ---- cast itself
    def relabel(tl, labels):
        df = tl.df.copy()
        df.index = labels
        return type(tl)(df)

    def cast(tag, src, target, mapping):
        before = dump_tl(src)
        map_before = repr([(k, cell(v) if not isinstance(v, (pd.Series, np.ndarray)) else
                            (type(v).__name__, str(v.dtype), [cell(i) for i in v.tolist()],
                             [cell(i) for i in getattr(v, "index", [])])) for k, v in mapping.items()])
        log.call(tag, lambda: ConvertBase.cast(src, target, mapping), dump_tl)
        log.add(f"{tag} source unchanged", str(dump_tl(src) == before))
        map_after = repr([(k, cell(v) if not isinstance(v, (pd.Series, np.ndarray)) else
                           (type(v).__name__, str(v.dtype), [cell(i) for i in v.tolist()],
                            [cell(i) for i in getattr(v, "index", [])])) for k, v in mapping.items()])
        log.add(f"{tag} mapping unchanged", str(map_after == map_before) + " " + map_after)

    hit_map = dict(offset="offset", column="column")
    hold_map = dict(offset="offset", column="column", length="length")
    bpm_map = dict(offset="offset", bpm="bpm")
    hit_targets = (OsuHitList, QuaHitList, SMHitList, BMSHitList)
    hold_targets = (OsuHoldList, QuaHoldList, SMHoldList, BMSHoldList)
    bpm_targets = (OsuBpmList, SMBpmList, BMSBpmList)
    for (kind, name), tl in sorted(lists.items()):
        targets, mapping = dict(hits=(hit_targets, hit_map), holds=(hold_targets, hold_map),
                                bpms=(bpm_targets, bpm_map))[name]
        n = len(tl)
        shapes = {
            "as read": tl,
            "empty": tl[:0] if n else tl,
            "one row": type(tl)(tl.df.iloc[:1]),
            "reversed": type(tl)(tl.df.iloc[::-1]),
            "labels high": relabel(tl, [1000 + 7 * i for i in range(n)]),
            "labels dup": relabel(tl, [3] * n),
            "labels str": relabel(tl, [f"r{i}" for i in range(n)][::-1]),
            "shuffled": type(tl)(tl.df.sample(frac=1.0, random_state=7)),
            "filtered": type(tl)(tl.df[tl.df.offset > tl.df.offset.median()]) if n else tl,
        }
        for shape, src in shapes.items():
            for target in targets:
                cast(f"cast {kind}.{name} [{shape}] -> {target.__name__}", src, target, dict(mapping))

    # values instead of names, and names that do not resolve
    base = lists[("Osu", "hits")]
    n = len(base)
    weird = relabel(base, [50 - i for i in range(n)])
    cases = {
        "scalar int": dict(offset="offset", column=3),
        "scalar float": dict(offset=12.5, column="column"),
        "none": dict(offset="offset", column=None),
        "numpy": dict(offset=np.arange(n) * 10.0, column="column"),
        "numpy int": dict(offset="offset", column=np.arange(n) % 4),
        "list": dict(offset=[float(i) for i in range(n)], column="column"),
        "tuple": dict(offset=tuple(range(n)), column="column"),
        "series own labels": dict(offset=pd.Series(np.arange(n) * 2.0, index=range(n, 2 * n)), column="column"),
        "series of source": dict(offset=weird.offset * 2, column=weird.column.astype(int)),
        "series str values": dict(offset="offset", column="column",
                                  hitsound_file=pd.Series([f"f{i}.wav" for i in range(n)], index=weird.df.index)),
        "series short": dict(offset=pd.Series([1.0, 2.0]), column="column"),
        "list short": dict(offset=[1.0, 2.0], column="column"),
        "numpy long": dict(offset=np.zeros(n + 3), column="column"),
        "no such name": dict(offset="offset", column="lane"),
        "no such name first": dict(offset="nope", column="lane"),
        "empty name": dict(offset="", column="column"),
        "dunder name": dict(offset="offset", column="__class__"),
        "method name": dict(offset="offset", column="deepcopy"),
        "frame name": dict(offset="offset", column="df"),
        "private name": dict(offset="offset", column="_df"),
        "unknown target": dict(offset="offset", column="column", lane="column"),
        "unknown target value": dict(offset="offset", zzz=5),
        "target df": dict(offset="offset", df="column"),
        "empty mapping": dict(),
        "only offset": dict(offset="offset"),
        "swapped": dict(offset="column", column="offset"),
        "bytes is not a name": dict(offset="offset", column=b"column"),
        "non string key": {"offset": "offset", 5: "column"},
        "str subclass": dict(offset=type("S", (str,), {})("offset"), column="column"),
    }
    for name, mapping in cases.items():
        for src_name, src in (("weird labels", weird), ("empty", base[:0])):
            for target in (QuaHitList, BMSHitList, OsuHoldList):
                cast(f"cast case {name} / {src_name} -> {target.__name__}", src, target, mapping)
    cast("cast svs", osu_svs, QuaSvList, dict(offset="offset", multiplier="multiplier"))
    cast("cast svs empty", osu_svs[:0], QuaSvList, dict(offset="offset", multiplier="multiplier"))
    cast("cast o2j holds", lists[("O2J", "holds")], O2JHoldList, hold_map)

    print("DIGEST", log.digest())


if __name__ == "__main__":
    main()
