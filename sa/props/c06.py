"""C06 — Quaver file and in-memory chart denote the same chart, both directions (DESIGN §5 C06)."""
from __future__ import annotations

import ast
import copy
import json
import pathlib
from typing import Dict, List, Optional, Tuple

from ..model import AnalysisError, NotLiteral, walk_no_nested, params_of
from .. import report as R
from ..report import RuleSpec
from .. import codec as C
from .. import sym
from .. import frameops as FO
from ..flow import subst, ctor_kwargs
from .common import as_dict, as_dict_call, unparse, call_name, strip_calls

QUA = "reamber.quaver"
QUAMAP = f"{QUA}.QuaMap.QuaMap"
QUAMETA = f"{QUA}.QuaMapMeta.QuaMapMeta"
LISTS = {
    "hits": f"{QUA}.lists.notes.QuaHitList.QuaHitList",
    "holds": f"{QUA}.lists.notes.QuaHoldList.QuaHoldList",
    "bpms": f"{QUA}.lists.QuaBpmList.QuaBpmList",
    "svs": f"{QUA}.lists.QuaSvList.QuaSvList",
}
ITEMS = {
    "hits": f"{QUA}.QuaHit.QuaHit",
    "holds": f"{QUA}.QuaHold.QuaHold",
    "bpms": f"{QUA}.QuaBpm.QuaBpm",
    "svs": f"{QUA}.QuaSv.QuaSv",
}
TABLES = pathlib.Path(__file__).resolve().parent.parent / "tables"
# keys the property's domain allows a document to omit (quantifier text), with the format default
OMITTABLE = {"StartTime": 0, "Multiplier": None, "KeySounds": []}
INT_T, FLOAT_T = "int", "float"


def omittable(ctx) -> Dict[str, object]:
    """format default per omittable key; where the format documentation at hand does not state one, the library's own
    declared default of the field is the oracle (an omitted key must not yield a value the item class would not default to)"""
    out = dict(OMITTABLE)
    M = ctx.M
    try:
        d = M.item_fields(ITEMS["svs"])["multiplier"][1]
        out["Multiplier"] = M.lit(M.classes[ITEMS["svs"]].mod, d) if isinstance(d, ast.AST) else d
    except Exception:
        pass
    return out


def fmt():
    return json.loads((TABLES / "qua_format.json").read_text())


# ------------------------------------------------------------------ writer side (A2)
def _item_fields_of_list(ctx, lst: str):
    """declared fields (dtype, default) of the item class of a list class"""
    M = ctx.M
    ic = M.item_class_of_list(lst)
    if ic is None:
        raise AnalysisError(f"item class of {lst} not resolved")
    return M.item_fields(ic)


def _frame_root(v) -> bool:
    """the expression is a method chain rooted in the list's own frame or in a freshly built DataFrame"""
    e = v
    while isinstance(e, ast.Call) and isinstance(e.func, ast.Attribute) and not (e.func.attr == "DataFrame"):
        e = e.func.value
    if isinstance(e, ast.Call) and call_name(e) == "DataFrame":
        return True
    return isinstance(e, ast.Attribute) and e.attr == "df" and isinstance(e.value, ast.Name) and e.value.id == "self"


FRAME_ROLES = (("df", lambda n, v, st: v is not None and _frame_root(v)),)


def _codec_fn(M, q, **kw):
    """to_yaml / from_yaml on the normal form, the frame variable named `df` whatever the source calls it"""
    from ..normal import with_roles
    return with_roles(M.nfn(q, **kw), FRAME_ROLES)



def writer_table(ctx, slot: str):
    """key -> (expression over declared columns, type) emitted by <List>.to_yaml; None if undecided."""
    M = ctx.M
    q = LISTS[slot] + ".to_yaml"
    fn = _codec_fn(M, q, subst="alias")
    cols = M.list_columns(LISTS[slot])
    st: Dict[str, Tuple[ast.AST, Optional[str]]] = {c: (ast.Name(id=c, ctx=ast.Load()), None) for c in cols}
    problems = []
    float_cols = {f for f, (dt, _) in _item_fields_of_list(ctx, LISTS[slot]).items() if str(dt).startswith("float")}

    def cur_env():
        return {c: e for c, (e, _) in st.items()}

    def rewrite(e):
        # df.x / df['x'] -> current expression of x
        class T(ast.NodeTransformer):
            def visit_Attribute(self, n):
                c = FO.col_ref(n, "df")
                if c is not None and c in st:
                    return copy.deepcopy(st[c][0])
                return self.generic_visit(n)

            def visit_Subscript(self, n):
                c = FO.col_ref(n, "df")
                if c is not None and c in st:
                    return copy.deepcopy(st[c][0])
                return self.generic_visit(n)
        return T().visit(copy.deepcopy(e))
    emitted = None
    for op in FO.pipeline(fn.node):
        if op.kind == "root":
            continue
        if op.kind == "?":
            problems.append(f"unrecognised statement {unparse(op.node)[:60]}")
        elif op.kind == "augstore":
            old = st.get(op.name, (ast.Name(id=op.name, ctx=ast.Load()), None))
            st[op.name] = (ast.BinOp(left=old[0], op=op.op, right=rewrite(op.args)), old[1])
        elif op.kind == "store":
            # operands already truncated to int: int(a) + int(b) differs from int(a + b) by up to 1, on top of the
            # truncation of the result — the written time can be 2 ms off
            used = {FO.col_ref(x, "df") for x in ast.walk(op.args)} - {None}
            trunc = sorted(u for u in used if u in st and st[u][1] in ("int", "<class 'int'>") and u in float_cols)
            if len(trunc) >= 2:
                problems.append(f"'{op.name}' is computed from {trunc} after they were truncated to int: the error of the written "
                                f"value can reach 2 ms (the format's resolution is 1 ms; cast last)")
            # a column assigned from a freshly built Series (RangeIndex 0..n-1) is aligned on ROW LABELS, not positions: after
            # sorted() / a filter the list's labels are not 0..n-1, so values land on other rows or become NaN
            for x in ast.walk(op.args):
                if isinstance(x, ast.Call) and isinstance(x.func, ast.Attribute) and x.func.attr == "Series" and x.args and \
                        isinstance(x.args[0], (ast.List, ast.ListComp)) and not any(k.arg == "index" for k in x.keywords):
                    problems.append(f"'{op.name}' is assigned from a new Series without index=: pandas aligns it with the frame on row "
                                    f"labels; for a list whose labels are not 0..n-1 (after sorted(), after(), between() ...) the values go "
                                    f"to the wrong notes or are written as '.nan'")
            st[op.name] = (rewrite(op.args), None)
        elif op.kind == "call":
            c = op.args
            if op.name == "copy":
                pass
            elif op.name == "assign" and not c.args and all(k.arg for k in c.keywords):
                # df.assign(a=<expr>, b=<expr>): every expression is evaluated on the frame as it is before the call
                new_vals = {k.arg: rewrite(k.value) for k in c.keywords}
                for k_, v_ in new_vals.items():
                    st[k_] = (v_, None)
            elif op.name == "astype":
                d = FO.dict_arg(c, lambda x: M.lit(fn.mod, x))
                if d is None:
                    problems.append("astype argument not a literal map")
                else:
                    for k, t in d.items():
                        if k in st:
                            st[k] = (st[k][0], str(t))
                        else:
                            problems.append(f"astype names a column '{k}' the frame does not have")
            elif op.name == "rename" and FO.axis_is_columns(c):
                d = FO.dict_arg(c, lambda x: M.lit(fn.mod, x))
                if d is None:
                    problems.append("rename argument not a literal map")
                else:
                    st = {d.get(k, k): v for k, v in st.items()}
            elif op.name == "drop" and FO.axis_is_columns(c):
                arg0 = c.args[0] if c.args else next((k.value for k in c.keywords if k.arg in ("labels", "columns")), None)
                try:
                    names = M.lit(fn.mod, arg0) if arg0 is not None else None
                except NotLiteral:
                    names = None
                if names is None:
                    problems.append("drop argument not a literal")
                for nm in ([names] if isinstance(names, str) else names or []):
                    if nm in st:
                        del st[nm]
                    else:
                        problems.append(f"drop('{nm}') names a column the frame does not have (KeyError)")
            elif op.name == "to_dict":
                ok = c.args and isinstance(c.args[0], ast.Constant) and c.args[0].value == "records"
                if not ok:
                    problems.append("to_dict orientation is not 'records'")
                emitted = dict(st)
            else:
                problems.append(f"unmodelled frame method {op.name}")
    return emitted, problems, fn


# ------------------------------------------------------------------ reader side
class ColState:
    def __init__(self, expr, present, filled, default=None):
        self.expr, self.present, self.filled, self.default = expr, present, filled, default


def K(key: str) -> ast.AST:
    return ast.Name(id=f"K_{key}", ctx=ast.Load())


def reader_frame_table(ctx, slot: str, assume_present=("Lane", "EndTime")):
    """<List>.from_yaml: column -> ColState, plus issues [(node, message)]."""
    M = ctx.M
    q = LISTS[slot] + ".from_yaml"
    fn = _codec_fn(M, q)
    st: Dict[str, ColState] = {}
    renames: Dict[str, str] = {}      # new name -> raw key (for columns first touched after the rename)
    issues = []
    undec = []
    built = None

    def get(col, node, reading=True) -> ColState:
        if col not in st:
            raw = renames.get(col, col)
            st[col] = ColState(K(raw), raw in assume_present, raw in assume_present)
        cs = st[col]
        if reading and not (cs.present and cs.filled):
            raw = renames.get(col, col)
            what = "may be absent from every object (KeyError/AttributeError)" if not cs.present else \
                "is NaN for the objects that omit it"
            issues.append((node, f"'{col}' is read in arithmetic before its default for omitted keys is applied: the column {what}", col))
        return cs

    def rewrite(e, node):
        class T(ast.NodeTransformer):
            def visit_Attribute(self, n):
                c = FO.col_ref(n, "df")
                if c is not None:
                    return copy.deepcopy(get(c, node).expr)
                return self.generic_visit(n)

            def visit_Subscript(self, n):
                c = FO.col_ref(n, "df")
                if c is not None:
                    return copy.deepcopy(get(c, node).expr)
                return self.generic_visit(n)
        return T().visit(copy.deepcopy(e))
    for op in FO.pipeline(fn.node):
        if op.kind == "root":
            continue
        if op.kind == "?" and isinstance(op.node, ast.Expr) and isinstance(op.node.value, ast.Call) and isinstance(op.node.value.func, ast.Attribute) and \
                FO.unchain(op.node.value)[0] is not None and isinstance(FO.unchain(op.node.value)[0], ast.Name) and FO.unchain(op.node.value)[0].id == "df" and \
                op.node.value.func.attr in ("fillna", "rename", "reindex", "astype", "drop", "sort_values", "reset_index", "assign", "replace") and \
                not any(k.arg == "inplace" and isinstance(k.value, ast.Constant) and k.value.value is True for k in op.node.value.keywords):
            # `df.fillna(...)` as a statement: these methods return a new frame, the result is thrown away
            issues.append((op.node, f"'{unparse(op.node)[:70]}' has no effect: {op.node.value.func.attr}() returns a new frame and the result is discarded "
                                    f"(the defaults it was meant to apply are never applied)", op.node.value.func.attr))
        elif op.kind == "?":
            undec.append(f"unrecognised statement {unparse(op.node)[:60]}")
        elif op.kind == "augstore":
            cs = get(op.name, op.node)
            cs.expr = ast.BinOp(left=cs.expr, op=op.op, right=rewrite(op.args, op.node))
        elif op.kind == "store":
            # normalising self-assignment: df.c = df.c.fillna(x) / .apply(...) / .where(...)
            root, calls = FO.unchain(op.args)
            if FO.col_ref(root, "df") == op.name and calls and calls[0].func.attr in ("fillna", "apply", "map", "where", "mask"):
                cs = get(op.name, op.node, reading=False)
                if not cs.present:
                    issues.append((op.node, f"'{op.name}' is normalised before it is guaranteed to exist (absent from every object -> AttributeError/KeyError)", op.name))
                cs.filled = True
                if calls[0].func.attr == "fillna" and calls[0].args:
                    try:
                        cs.default = M.lit(fn.mod, calls[0].args[0])
                    except NotLiteral:
                        cs.default = unparse(calls[0].args[0])
                else:
                    cs.default = unparse(op.args)
            else:
                e = rewrite(op.args, op.node)
                st[op.name] = ColState(e, True, True)
        elif op.kind == "call":
            c = op.args
            if op.name == "rename" and FO.axis_is_columns(c):
                d = FO.dict_arg(c, lambda x: M.lit(fn.mod, x))
                if d is None:
                    undec.append("rename argument not a literal map")
                else:
                    st = {d.get(k, k): v for k, v in st.items()}
                    for old, new in d.items():
                        renames[new] = renames.get(old, old)
            elif op.name == "reindex":
                names = None
                for n in ast.walk(c):
                    if isinstance(n, ast.Call) and call_name(n) == "union" and n.args:
                        try:
                            names = M.lit(fn.mod, n.args[0])
                        except NotLiteral:
                            pass
                exact = False
                if names is None and c.args:
                    try:      # reindex([...], axis=1): exactly these columns (others are dropped, missing ones are added as NaN)
                        names = M.lit(fn.mod, c.args[0])
                        exact = isinstance(names, (list, tuple)) and all(isinstance(x, str) for x in names)
                        names = names if exact else None
                    except NotLiteral:
                        names = None
                if names is None or not FO.axis_is_columns(c):
                    undec.append("reindex target not recognised")
                else:
                    for nm in names:
                        cs = get(nm, op.node, reading=False)
                        cs.present = True
                    if exact:
                        for nm in [k for k in st if k not in names]:
                            del st[nm]
            elif op.name in ("copy", "reset_index"):
                pass
            elif op.name == "fillna" and len(c.args) == 1 and not [k for k in c.keywords if k.arg not in ("value",)]:
                # frame-level fill with one default per column: df.fillna({"a": 0, "b": 1}) is df.a = df.a.fillna(0); df.b = df.b.fillna(1)
                d = FO.dict_arg(c, lambda x: M.lit(fn.mod, x))
                if d is None:
                    undec.append("fillna argument is not a literal map of column -> default")
                else:
                    for col_, dv in d.items():
                        cs = get(col_, op.node, reading=False)
                        if not cs.present:
                            issues.append((op.node, f"'{col_}' is normalised before it is guaranteed to exist (absent from every object -> the fill does nothing)", col_))
                        cs.filled = True
                        cs.default = dv
            else:
                undec.append(f"unmodelled frame method {op.name}")
        elif op.kind == "construct":
            built = (op.name, op.node)
    return st, issues, undec, built, fn, renames


def get_calls_table(ctx, fn, elt: ast.AST, dvar: str):
    """item constructor / dict(...) whose values are d.get('Key', default) expressions ->
    field -> (expr over K_ symbols, {key: default}, [keys read without default])"""
    M = ctx.M
    kw = ctor_kwargs(elt) or {}
    out = {}
    for f, e in kw.items():
        if f.startswith("#"):
            continue
        defaults, hard = {}, []

        class T(ast.NodeTransformer):
            def visit_Call(self, n):
                if call_name(n) == "get" and isinstance(n.func.value, ast.Name) and n.func.value.id == dvar and n.args and \
                        isinstance(n.args[0], ast.Constant):
                    k = n.args[0].value
                    if len(n.args) > 1:
                        try:
                            defaults[k] = M.lit(fn.mod, n.args[1])
                        except NotLiteral:
                            defaults[k] = unparse(n.args[1])
                    else:
                        defaults[k] = None
                    return K(k)
                return self.generic_visit(n)

            def visit_Subscript(self, n):
                if isinstance(n.value, ast.Name) and n.value.id == dvar and isinstance(n.slice, ast.Constant):
                    hard.append(n.slice.value)
                    return K(n.slice.value)
                return self.generic_visit(n)
        out[f] = (T().visit(copy.deepcopy(e)), defaults, hard)
    return out


def chart_reader_table(ctx, slot: str):
    """QuaMap._read_bpms / _read_svs: [Item(field=d.get('Key', default), ...) for d in arg]"""
    M = ctx.M
    fn = M.fn(f"{QUAMAP}._read_{slot}")
    for n in walk_no_nested(fn.node):
        if isinstance(n, ast.ListComp) and len(n.generators) == 1 and isinstance(n.generators[0].target, ast.Name):
            return get_calls_table(ctx, fn, n.elt, n.generators[0].target.id), fn, n
    # routed through the vectorised list reader: <List>.from_yaml(arg)
    for n in walk_no_nested(fn.node):
        if isinstance(n, ast.Call) and call_name(n) == "from_yaml" and unparse(n.func.value) == LISTS[slot].rsplit(".", 1)[1]:
            st, issues, und, built, rfn, renames = reader_frame_table(ctx, slot)
            if und:
                return None, fn, None
            tab = {}
            for c, cs in st.items():
                raw = renames.get(c, c)
                tab[c] = (cs.expr, {raw: cs.default if cs.filled else None}, [] if cs.present else [raw])
            return tab, fn, n
    return None, fn, None


def item_tables(ctx, slot: str):
    M = ctx.M
    cls = ITEMS[slot]
    w = M.fn(cls + ".to_yaml")
    r = M.fn(cls + ".from_yaml")
    wt = {}
    for n in walk_no_nested(w.node):
        if isinstance(n, ast.Return) and n.value is not None:
            kw = ctor_kwargs(n.value) if isinstance(n.value, ast.Call) else None
            if as_dict(n.value) is not None:
                kw = {C.const_str(k): v for k, v in zip(as_dict(n.value).keys, as_dict(n.value).values)}
            for k, e in (kw or {}).items():
                ty = call_name(e) if isinstance(e, ast.Call) and call_name(e) in ("int", "float") else None
                wt[k] = (e, ty)
    dvar = [p for p in params_of(r.node)][0]
    rt = None
    for n in walk_no_nested(r.node):
        c_ = as_dict_call(n)
        if c_ is not None and c_.keywords and any(isinstance(x, ast.Call) and call_name(x) == "get" for x in ast.walk(n)):
            rt = get_calls_table(ctx, r, c_, dvar)
            break
    return wt, rt, w, r


# --------------------------------------------------------------------------- R1

def _blind_reader(fn_node) -> Optional[ast.AST]:
    """a store whose field name is computed (`setattr(self, <name>, ..)` with a non-constant name, `self.__dict__[..] = ..`): which
    fields the reader fills is then not read off its statements"""
    for n in ast.walk(fn_node):
        if isinstance(n, ast.Call) and isinstance(n.func, ast.Name) and n.func.id == "setattr" and len(n.args) == 3 and \
                isinstance(n.args[0], ast.Name) and n.args[0].id == "self" and not isinstance(n.args[1], ast.Constant):
            return n
        if isinstance(n, ast.Call) and isinstance(n.func, ast.Attribute) and n.func.attr == "__setattr__" and n.args and not isinstance(n.args[0], ast.Constant):
            return n
    return None


def rule_r1(ctx) -> List[R.Inst]:
    M = ctx.M
    rid = "C06.R1"
    rd = M.fn(QUAMETA + "._read_metadata")
    wr = M.fn(QUAMETA + "._write_meta")
    file = M.mods[rd.mod].rel
    dvar = [p for p in params_of(rd.node) if p != "self"][0]
    rt = {}
    for n in walk_no_nested(rd.node):
        if isinstance(n, ast.Assign) and C.self_attr(n.targets[0]):
            gets = [c for c in ast.walk(n.value) if isinstance(c, ast.Call) and call_name(c) == "get" and
                    isinstance(c.func.value, ast.Name) and c.func.value.id == dvar and c.args and C.const_str(c.args[0])]
            if len(gets) == 1:
                g = gets[0]
                ops = []
                if g is not n.value:
                    ops.append("split-filter" if any(isinstance(x, ast.Call) and call_name(x) == "split" for x in ast.walk(n.value))
                               else "?" + unparse(n.value)[:40])
                rt[C.const_str(g.args[0])] = (C.self_attr(n.targets[0]), ops, g, n)
    wt = {}
    ret = [n for n in walk_no_nested(wr.node) if isinstance(n, ast.Return) and as_dict(n.value) is not None]
    if len(ret) != 1:
        return [R.undec(rid, "meta-writer", file, wr.node.lineno, "_write_meta does not return one dict literal")]
    dup = []
    for k, v in zip(as_dict(ret[0].value).keys, as_dict(ret[0].value).values):
        ks = C.const_str(k)
        if ks in wt:
            dup.append(ks)
        fields = [C.self_attr(x) for x in ast.walk(v) if C.self_attr(x)]
        ops = [] if C.self_attr(v) else (["join"] if isinstance(v, ast.Call) and call_name(v) == "join" else ["?" + unparse(v)[:40]])
        wt[ks] = (fields[0] if len(fields) == 1 else None, ops, v)
    insts = []
    for k in sorted(set(rt) | set(wt)):
        key = f"meta:{k}"
        if k not in wt:
            insts.append(R.viol(rid, key, file, rt[k][3].lineno, f"'{k}' is read but never written", construct=f"read-only {k}"))
        elif k not in rt and _blind_reader(rd.node) is not None:
            insts.append(R.undec(rid, key, file, _blind_reader(rd.node).lineno,
                                 f"'{k}' has no reading statement of its own, but the reader stores fields under computed names "
                                 f"('{unparse(_blind_reader(rd.node))[:60]}'): not decided"))
        elif k not in rt:
            insts.append(R.viol(rid, key, file, wt[k][2].lineno, f"'{k}' is written but never read back", construct=f"write-only {k}"))
        elif k in dup:
            insts.append(R.viol(rid, key, file, wt[k][2].lineno, f"'{k}' appears twice in the written dict", construct=f"duplicate {k}"))
        elif rt[k][0] != wt[k][0]:
            insts.append(R.viol(rid, key, file, wt[k][2].lineno,
                                f"'{k}' is read into '{rt[k][0]}' but written from '{wt[k][0]}'", construct=f"{k}: {rt[k][0]} != {wt[k][0]}"))
        else:
            ro, wo = rt[k][1], wt[k][1]
            g = rt[k][2]
            dflt = g.args[1] if len(g.args) > 1 else None
            if ro == [] and wo == []:
                # omitted key keeps the field's default
                if dflt is not None and C.self_attr(dflt) not in (rt[k][0], None):
                    insts.append(R.viol(rid, key, file, g.lineno,
                                        f"an omitted '{k}' takes its default from another field ({unparse(dflt)})", construct=unparse(g)))
                else:
                    insts.append(R.ok(rid, key, file, g.lineno, idiom=f"{k} <-> self.{rt[k][0]}"))
            elif ro == ["split-filter"] and wo == ["join"]:
                sp = [x for x in ast.walk(rt[k][3].value) if isinstance(x, ast.Call) and call_name(x) == "split"][0]
                sep_r = sp.args[0].value if sp.args and isinstance(sp.args[0], ast.Constant) else None
                sep_w = wt[k][2].func.value.value if isinstance(wt[k][2].func.value, ast.Constant) else None
                if sep_r == sep_w and sep_r is not None:
                    insts.append(R.ok(rid, key, file, g.lineno, idiom=f"split({sep_r!r})+filter <-> {sep_w!r}.join"))
                else:
                    insts.append(R.viol(rid, key, file, g.lineno,
                                        f"'{k}' is split on {sep_r!r} but joined with {sep_w!r}", construct=f"{k}: {sep_r!r} vs {sep_w!r}"))
            else:
                insts.append(R.undec(rid, key, file, g.lineno, f"transforms not recognised: reader {ro} writer {wo}"))
    return insts


# --------------------------------------------------------------------------- R2
def _compose_check(col_exprs: Dict[str, ast.AST], key_exprs: Dict[str, ast.AST]) -> Dict[str, Tuple[str, str]]:
    """reader col expr (over K_key) with K_key := writer key expr (over columns) must be the identity."""
    out = {}
    TR = ("float", "int")

    def wleaf(n):
        if isinstance(n, ast.Attribute) and isinstance(n.value, ast.Name) and n.value.id == "self":
            return "tail" if n.attr == "tail_offset" else n.attr
        return None
    kr = {}
    for k, e in key_exprs.items():
        r = sym.canon(e, wleaf, TR)
        # tail_offset = offset + length (HoldList / Hold property, checked by C16/C01 elsewhere)
        kr[k] = r
    tail = sym.parse("offset + length")

    def subst_tail(r: sym.RF) -> sym.RF:
        if "tail" not in r.symbols():
            return r
        # re-canonicalise with tail expanded
        return None
    for col, e in col_exprs.items():
        def leaf(n, col=col):
            if isinstance(n, ast.Name) and n.id.startswith("K_"):
                k = n.id[2:]
                if k in key_exprs:
                    def wl(m):
                        if isinstance(m, ast.Attribute) and isinstance(m.value, ast.Name) and m.value.id == "self":
                            if m.attr == "tail_offset":
                                return tail
                            return m.attr
                        return None
                    return sym.canon(key_exprs[k], wl, TR)
                return f"MISSING_{k}"
            return None
        r = sym.canon(e, leaf, TR)
        miss = sorted(s for s in r.symbols() if s.startswith("MISSING_"))
        if miss:
            out[col] = ("viol", f"reads key(s) {[m[8:] for m in miss]} that the writer never emits")
        elif r.same(sym.parse(col)):
            out[col] = ("ok", f"{col} -> file -> {col} is the identity")
        elif r.symbols() <= set(col_exprs) | {"offset", "length", "column", "bpm", "multiplier", "keysounds"}:
            out[col] = ("viol", f"writing then reading '{col}' gives {sym.text(e, leaf)} instead of {col}")
        else:
            out[col] = ("undec", f"composition not in modelled arithmetic: {sorted(r.symbols())}")
    return out


def rule_r2(ctx) -> List[R.Inst]:
    M = ctx.M
    rid = "C06.R2"
    insts = []
    for slot in ("hits", "holds", "bpms", "svs"):
        em, probs, wfn = writer_table(ctx, slot)
        file = M.mods[wfn.mod].rel
        if em is None or probs:
            insts.append(R.undec(rid, f"{slot}:list-writer", file, wfn.node.lineno, "; ".join(probs) or "no to_dict('records')"))
            continue
        keyx = {k: e for k, (e, _) in em.items()}
        # (a) list reader
        st, issues, und, built, rfn, _ = reader_frame_table(ctx, slot)
        cols = M.list_columns(LISTS[slot])
        wcols = [c for c in cols if any(isinstance(n, ast.Name) and n.id == c for e in keyx.values() for n in ast.walk(e))]
        if und:
            insts.append(R.undec(rid, f"{slot}:list-reader", M.mods[rfn.mod].rel, rfn.node.lineno, "; ".join(und)))
        else:
            colx = {c: st[c].expr for c in wcols if c in st}
            res = _compose_check(colx, keyx)
            for c in wcols:
                key = f"{slot}:list:{c}"
                f2 = M.mods[rfn.mod].rel
                if c not in st:
                    insts.append(R.viol(rid, key, f2, rfn.node.lineno,
                                        f"{rfn.name} never produces the declared column '{c}' the writer emits",
                                        construct=f"{slot}.from_yaml lacks {c}"))
                    continue
                stt, why = res[c]
                insts.append(R.Inst(rid, key, {"ok": R.OK, "viol": R.VIOL, "undec": R.UNDEC}[stt], f2, rfn.node.lineno,
                                    why, construct=f"{slot}.{c}: {why}" if stt != "ok" else "", idiom=why if stt == "ok" else ""))
        # (b) chart-level reader for bpms / svs
        if slot in ("bpms", "svs"):
            tab, cfn, node = chart_reader_table(ctx, slot)
            f3 = M.mods[cfn.mod].rel
            if tab is None:
                insts.append(R.undec(rid, f"{slot}:chart-reader", f3, cfn.node.lineno, "item comprehension not found"))
            else:
                res = _compose_check({c: t[0] for c, t in tab.items()}, keyx)
                for c, (stt, why) in sorted(res.items()):
                    insts.append(R.Inst(rid, f"{slot}:chart:{c}", {"ok": R.OK, "viol": R.VIOL, "undec": R.UNDEC}[stt], f3,
                                        node.lineno, why, construct=f"QuaMap._read_{slot}.{c}: {why}" if stt != "ok" else "",
                                        idiom=why if stt == "ok" else ""))
        # (c) item-level pair
        wt, rt, w, r = item_tables(ctx, slot)
        f4 = M.mods[w.mod].rel
        if not wt or rt is None:
            insts.append(R.undec(rid, f"{slot}:item", f4, w.node.lineno, "item to_yaml/from_yaml tables not recognised"))
        else:
            res = _compose_check({c: t[0] for c, t in rt.items()}, {k: e for k, (e, _) in wt.items()})
            for c, (stt, why) in sorted(res.items()):
                insts.append(R.Inst(rid, f"{slot}:item:{c}", {"ok": R.OK, "viol": R.VIOL, "undec": R.UNDEC}[stt], f4,
                                    r.node.lineno, why, construct=f"{ITEMS[slot].rsplit('.', 1)[1]}.{c}: {why}" if stt != "ok" else "",
                                    idiom=why if stt == "ok" else ""))
            # list writer and item writer emit the same keys
            if set(wt) != set(keyx):
                insts.append(R.viol(rid, f"{slot}:item-keys", f4, w.node.lineno,
                                    f"item writer emits {sorted(wt)} but the list writer emits {sorted(keyx)}",
                                    construct=f"{slot}: {sorted(wt)} vs {sorted(keyx)}"))
            else:
                insts.append(R.ok(rid, f"{slot}:item-keys", f4, w.node.lineno, idiom=f"both emit {sorted(wt)}"))
    return insts


# --------------------------------------------------------------------------- R3
def rule_r3(ctx) -> List[R.Inst]:
    M = ctx.M
    rid = "C06.R3"
    F = fmt()
    section = {"hits": "HitObjects", "holds": "HitObjects", "bpms": "TimingPoints", "svs": "SliderVelocities"}
    consumed = {"hits": {"StartTime", "Lane", "KeySounds"}, "holds": {"StartTime", "Lane", "KeySounds", "EndTime"},
                "bpms": {"StartTime", "Bpm"}, "svs": {"StartTime", "Multiplier"}}
    insts = []
    for slot in ("hits", "holds", "bpms", "svs"):
        em, probs, wfn = writer_table(ctx, slot)
        file = M.mods[wfn.mod].rel
        key = f"{slot}:keys"
        if em is None or probs:
            insts.append((R.viol if any("KeyError" in p or "does not have" in p or "truncated to int" in p or "row labels" in p for p in probs) else R.undec)(
                rid, key, file, wfn.node.lineno, "; ".join(probs) or "to_dict('records') not found",
                construct="; ".join(probs)))
            continue
        allowed = F["sections"][section[slot]]
        extra = sorted(set(em) - set(allowed))
        missing = sorted(consumed[slot] - set(em))
        probs = []
        if extra:
            probs.append(f"emits key(s) {extra} the format does not define for {section[slot]}")
        if missing:
            probs.append(f"does not emit {missing}, which the reader consumes")
        for k, (e, ty) in sorted(em.items()):
            want = allowed.get(k)
            if want and set(want.split("|")) <= {INT_T, FLOAT_T} and ty not in want.split("|"):
                probs.append(f"'{k}' must be written as {want} (astype gives {ty or 'no conversion'})")
        # keys the format types as a list: the column is written as is, so every cell must be a list — in particular the
        # declared default of the field, which fills the rows of charts built by conversion or from items
        fields = _item_fields_of_list(ctx, LISTS[slot])
        for k, (e, ty) in sorted(em.items()):
            if allowed.get(k) == "list" and isinstance(e, ast.Name) and e.id in fields:
                dflt = fields[e.id][1]
                if not isinstance(dflt, list):
                    probs.append(f"'{k}' is a list in the format, but the declared default of field '{e.id}' is {dflt!r}: "
                                 f"rows filled with the default are written as '{k}: {'null' if dflt is None else dflt}'")
        if probs:
            insts.append(R.viol(rid, key, file, wfn.node.lineno, "; ".join(probs), construct=f"{slot}: " + "; ".join(probs)))
        else:
            insts.append(R.ok(rid, key, file, wfn.node.lineno,
                              idiom=f"emits {sorted(em)} ⊆ format keys of {section[slot]}, numeric keys typed"))
    return insts


# --------------------------------------------------------------------------- R4
def rule_r4(ctx) -> List[R.Inst]:
    M = ctx.M
    rid = "C06.R4"
    from .. import seqexpr as SE
    fn = M.nfn(QUAMAP + "._read_notes", comps=True)      # (an if/else-append loop reads as two filtered comprehensions)
    file = M.mods[fn.mod].rel
    insts = []
    env = SE.Env(fn.node)
    src = [p for p in params_of(fn.node) if p != "self"][0]

    def classify(flt: str) -> Optional[Tuple[str, str]]:
        """(key, 'present' | 'absent' | 'truthy' | 'falsy' | 'is-none' | 'not-none') of a filter on the object `_`"""
        try:
            t = ast.parse(flt, mode="eval").body
        except SyntaxError:
            return None
        pol = True
        while isinstance(t, ast.UnaryOp) and isinstance(t.op, ast.Not):
            t, pol = t.operand, not pol
        if isinstance(t, ast.Compare) and len(t.ops) == 1 and isinstance(t.ops[0], (ast.In, ast.NotIn)) and isinstance(t.left, ast.Constant) and \
                unparse(t.comparators[0]) in ("_", "_.keys()"):
            present = isinstance(t.ops[0], ast.In) == pol
            return (t.left.value, "present" if present else "absent")
        g = [c for c in ast.walk(t) if isinstance(c, ast.Call) and call_name(c) == "get" and unparse(c.func.value) == "_" and c.args and C.const_str(c.args[0])]
        if len(g) == 1:
            k = C.const_str(g[0].args[0])
            if isinstance(t, ast.Compare) and len(t.ops) == 1 and isinstance(t.ops[0], (ast.Is, ast.IsNot)) and \
                    isinstance(t.comparators[0], ast.Constant) and t.comparators[0].value is None and t.left is g[0] and len(g[0].args) == 1:
                none = isinstance(t.ops[0], ast.Is) == pol
                return (k, "absent" if none else "present")      # n.get(k) is None: absent (or an explicit null, which has no end either)
            if t is g[0]:
                return (k, "truthy" if pol else "falsy")
        return None
    routes = {}          # slot -> (key, kind, node)
    und = None
    for n in walk_no_nested(fn.node):
        if isinstance(n, ast.Assign) and C.self_attr(n.targets[0]) in ("hits", "holds"):
            slot = C.self_attr(n.targets[0])
            fy = [c for c in ast.walk(n.value) if isinstance(c, ast.Call) and call_name(c) == "from_yaml"]
            want_cls = LISTS[slot].rsplit(".", 1)[1]
            if fy and unparse(fy[0].func.value) != want_cls:
                insts.append(R.viol(rid, f"route:{slot}-class", file, n.lineno,
                                    f"self.{slot} is built by {unparse(fy[0].func.value)}.from_yaml, not {want_cls}",
                                    construct=unparse(n)[:120]))
            arg = fy[0].args[0] if fy and fy[0].args else None
            alts = SE.describe(arg, env.at.get(id(n), env.final)) if arg is not None else None
            if not alts or len(alts) != 1:
                und = f"the objects handed to {slot} are not a recognised sequence expression"
                continue
            sq = next(iter(alts))
            if sq.base != src or sq.elt != "_" or len(sq.filters) != 1:
                und = f"{slot} is fed from '{sq}'"
                continue
            c = classify(sq.filters[0])
            if c is None:
                und = f"the routing test '{sq.filters[0]}' is not a test on a key of the object"
                continue
            routes[slot] = (c[0], c[1], n)
    if und is not None or set(routes) != {"hits", "holds"}:
        insts.append(R.undec(rid, "route", file, fn.node.lineno, und or "routing test on a key's presence not found"))
    else:
        (kh, ch, nh), (ko, co, no) = routes["hits"], routes["holds"]
        if {ch, co} & {"truthy", "falsy"}:
            insts.append(R.viol(rid, "route", file, nh.lineno,
                                "objects are routed on the truth value of EndTime: a hold whose EndTime is 0 (a hold ending at "
                                "time 0) is read as a hit; the format routes on the key's presence", construct=f"hits: {ch}, holds: {co}"))
        elif kh == ko == "EndTime" and ch == "absent" and co == "present":
            insts.append(R.ok(rid, "route", file, nh.lineno, idiom="object without EndTime -> hits, with EndTime -> holds"))
        else:
            insts.append(R.viol(rid, "route", file, nh.lineno,
                                f"objects are routed on '{kh}'/'{ko}': hits <- {ch}, holds <- {co}; "
                                f"the format says an object with an EndTime is a hold (and every object is one of the two)",
                                construct=f"hits <- {kh} {ch}; holds <- {ko} {co}"))
    for slot, must in (("hits", False), ("holds", True)):
        em, probs, wfn = writer_table(ctx, slot)
        f2 = M.mods[wfn.mod].rel
        key = f"writer:{slot}"
        if em is None:
            insts.append(R.undec(rid, key, f2, wfn.node.lineno, "writer not modelled"))
        elif ("EndTime" in em) == must:
            insts.append(R.ok(rid, key, f2, wfn.node.lineno, idiom=f"{slot} writer {'always' if must else 'never'} emits EndTime"))
        else:
            insts.append(R.viol(rid, key, f2, wfn.node.lineno,
                                f"the {slot} writer {'does not emit' if must else 'emits'} EndTime: the objects are read back as "
                                f"{'hits' if must else 'holds'}", construct=f"{slot} writer EndTime={'EndTime' in em}"))
    return insts


# --------------------------------------------------------------------------- R5
def rule_r5(ctx) -> List[R.Inst]:
    M = ctx.M
    rid = "C06.R5"
    rd = M.nfn(QUAMAP + ".read")       # (a loop over a literal (section, reader) table is unrolled: sa/normal.py)
    wr = M.nfn(QUAMAP + ".write")
    file = M.mods[rd.mod].rel
    want = {"HitObjects": ("_read_notes", {"hits", "holds"}), "TimingPoints": ("_read_bpms", {"bpms"}),
            "SliderVelocities": ("_read_svs", {"svs"})}
    popped = {}
    for n in walk_no_nested(rd.node):
        if isinstance(n, ast.Call) and isinstance(n.func, ast.Attribute) and n.func.attr.startswith("_read_") and n.args:
            a = n.args[0]
            if isinstance(a, ast.BoolOp) and isinstance(a.op, ast.Or):      # file.pop(k, None) or []
                a = a.values[0]
            if isinstance(a, ast.Call) and call_name(a) in ("pop", "get") and a.args and C.const_str(a.args[0]):
                popped[C.const_str(a.args[0])] = (n.func.attr, n)
            elif isinstance(a, ast.Subscript) and C.const_str(a.slice):
                popped[C.const_str(a.slice)] = (n.func.attr, n)
    written = {}
    for n in walk_no_nested(wr.node):
        if isinstance(n, ast.Assign) and isinstance(n.targets[0], ast.Subscript) and C.const_str(n.targets[0].slice):
            slots = {C.self_attr(x.func.value) for x in ast.walk(n.value) if isinstance(x, ast.Call) and call_name(x) == "to_yaml"}
            written[C.const_str(n.targets[0].slice)] = (slots, n)
        # ... or as keywords / a display handed to <document>.update(..)
        if isinstance(n, ast.Expr) and isinstance(n.value, ast.Call) and isinstance(n.value.func, ast.Attribute) and n.value.func.attr == "update":
            u_ = n.value
            ents = [(k.arg, k.value) for k in u_.keywords if k.arg]
            if len(u_.args) == 1 and as_dict(u_.args[0]) is not None:
                ents += [(C.const_str(k_), v_) for k_, v_ in zip(as_dict(u_.args[0]).keys, as_dict(u_.args[0]).values) if k_ is not None and C.const_str(k_)]
            for k_, v_ in ents:
                slots = {C.self_attr(x.func.value) for x in ast.walk(v_) if isinstance(x, ast.Call) and call_name(x) == "to_yaml"}
                if slots:
                    written.setdefault(k_, (slots, v_))
        # ... or as entries of the dict display the document is built as: {**meta, "TimingPoints": ..., ...}
        if as_dict(n) is not None:
            for k_, v_ in zip(as_dict(n).keys, as_dict(n).values):
                if k_ is not None and C.const_str(k_) is not None:
                    slots = {C.self_attr(x.func.value) for x in ast.walk(v_) if isinstance(x, ast.Call) and call_name(x) == "to_yaml"}
                    if slots:
                        written.setdefault(C.const_str(k_), (slots, v_))
    insts = []
    for sec, (meth, slots) in want.items():
        key = f"section:{sec}"
        if sec not in popped:
            insts.append(R.viol(rid, key, file, rd.node.lineno, f"section '{sec}' is not handed to a reader", construct=f"{sec} unread"))
        elif popped[sec][0] != meth:
            insts.append(R.viol(rid, key, file, popped[sec][1].lineno,
                                f"section '{sec}' is read by {popped[sec][0]} instead of {meth}", construct=unparse(popped[sec][1])))
        elif sec not in written:
            insts.append(R.viol(rid, key, file, wr.node.lineno, f"section '{sec}' is never written", construct=f"{sec} unwritten"))
        elif written[sec][0] != slots:
            insts.append(R.viol(rid, key, file, written[sec][1].lineno,
                                f"section '{sec}' is written from {sorted(x for x in written[sec][0] if x)} instead of {sorted(slots)}",
                                construct=unparse(written[sec][1])))
        else:
            insts.append(R.ok(rid, key, file, popped[sec][1].lineno, idiom=f"{sec}: {meth} <-> {sorted(slots)}.to_yaml()"))
    # a section the document omits (or leaves empty: YAML null) is an empty section, not an error
    for sec, (meth, call) in sorted(popped.items()):
        if sec not in want:
            continue
        a = call.args[0]
        null_ok = isinstance(a, ast.BoolOp) and isinstance(a.op, ast.Or) and isinstance(a.values[-1], (ast.List, ast.Tuple))
        b = a.values[0] if isinstance(a, ast.BoolOp) else a
        has_default = isinstance(b, ast.Call) and call_name(b) in ("pop", "get") and (len(b.args) >= 2 or any(k.arg == "default" for k in b.keywords))
        key = f"section:{sec}:omitted"
        if has_default and (null_ok or (len(b.args) >= 2 and isinstance(b.args[1], (ast.List, ast.Tuple)))):
            insts.append(R.ok(rid, key, file, call.lineno, idiom="omitted section -> empty list"))
        else:
            insts.append(R.viol(rid, key, file, call.lineno,
                                f"the '{sec}' section is taken with '{unparse(a)}': a document that omits the section raises KeyError "
                                f"(every other omitted key has a default; an omitted section is an empty one)",
                                construct=f"{sec}: {unparse(a)}"))
    return insts


# --------------------------------------------------------------------------- R6
def rule_r6(ctx) -> List[R.Inst]:
    """defaults for omitted keys (the property's domain: omitted StartTime / Multiplier / KeySounds)"""
    M = ctx.M
    rid = "C06.R6"
    insts = []
    OMITTABLE = omittable(ctx)
    for slot in ("hits", "holds"):
        st, issues, und, built, fn, renames = reader_frame_table(ctx, slot)
        file = M.mods[fn.mod].rel
        if und or built is None:
            insts.append(R.undec(rid, f"{slot}:defaults", file, fn.node.lineno, "; ".join(und) or "constructor call not found"))
            continue
        seen = set()
        for node, msg, col in issues:
            if (col, msg) in seen:
                continue
            seen.add((col, msg))
            insts.append(R.viol(rid, f"{slot}:use-before-default:{col}", file, node.lineno, msg,
                                construct=f"{slot}.from_yaml: {unparse(node)[:80]}"))
        for c in M.list_columns(LISTS[slot]):
            key = f"{slot}:default:{c}"
            raw = renames.get(c, c)
            cs = st.get(c)
            if cs is None:
                insts.append(R.viol(rid, key, file, fn.node.lineno, f"declared column '{c}' is never produced",
                                    construct=f"{slot}.from_yaml lacks {c}"))
            elif raw not in OMITTABLE:
                insts.append(R.ok(rid, key, file, fn.node.lineno, idiom=f"'{raw}' is outside the omittable keys of the domain"))
            elif not cs.present:
                insts.append(R.viol(rid, key, file, fn.node.lineno,
                                    f"column '{c}' does not exist when every object omits '{raw}'", construct=f"{slot}.{c} may be absent"))
            elif not cs.filled:
                insts.append(R.viol(rid, key, file, built[1].lineno,
                                    f"objects that omit '{raw}' get NaN in '{c}' (no default is applied): the format's default is "
                                    f"{OMITTABLE[raw]!r}, and NaN is written back as '.nan'", construct=f"{slot}.{c} has no default"))
            elif OMITTABLE[raw] is not None and cs.default not in (OMITTABLE[raw],) and not isinstance(cs.default, str):
                insts.append(R.viol(rid, key, file, built[1].lineno,
                                    f"omitted '{raw}' defaults to {cs.default!r}; the format's default is {OMITTABLE[raw]!r}",
                                    construct=f"{slot}.{c} default {cs.default!r}"))
            else:
                insts.append(R.ok(rid, key, file, built[1].lineno, idiom=f"omitted '{raw}' -> default {cs.default!r}"))
    for slot in ("bpms", "svs"):
        tab, fn, node = chart_reader_table(ctx, slot)
        file = M.mods[fn.mod].rel
        if tab is None:
            insts.append(R.undec(rid, f"{slot}:defaults", file, fn.node.lineno, "item comprehension not found"))
            continue
        for c, (e, dfl, hard) in sorted(tab.items()):
            for k in hard:
                if k in OMITTABLE:
                    insts.append(R.viol(rid, f"{slot}:default:{c}", file, node.lineno,
                                        f"'{k}' is indexed without a default: a document that omits it raises KeyError",
                                        construct=f"{slot}.{c} <- d['{k}']"))
            for k, d in dfl.items():
                key = f"{slot}:default:{c}"
                if k in OMITTABLE and d is None:
                    insts.append(R.viol(rid, key, file, node.lineno, f"omitted '{k}' becomes None", construct=f"{slot}.{c} <- get('{k}')"))
                elif k in OMITTABLE and OMITTABLE[k] is not None and d != OMITTABLE[k]:
                    insts.append(R.viol(rid, key, file, node.lineno,
                                        f"omitted '{k}' defaults to {d!r}; the format's default is {OMITTABLE[k]!r}",
                                        construct=f"{slot}.{c} default {d!r}"))
                else:
                    insts.append(R.ok(rid, key, file, node.lineno, idiom=f"'{k}' -> get(..., {d!r})"))
    # advisory: sibling readers disagree on the default of an omitted Multiplier
    ds = {}
    tab, fn, node = chart_reader_table(ctx, "svs")
    if tab and "multiplier" in tab:
        ds["QuaMap._read_svs"] = tab["multiplier"][1].get("Multiplier")
    _, rt, _, r = item_tables(ctx, "svs")
    if rt and "multiplier" in rt:
        ds["QuaSv.from_yaml"] = rt["multiplier"][1].get("Multiplier")
    st, *_ = reader_frame_table(ctx, "svs")
    if "multiplier" in st:
        ds["QuaSvList.from_yaml"] = st["multiplier"].default
    if len(set(map(repr, ds.values()))) > 1:
        insts.append(R.adv(rid, "svs:sibling-defaults", M.mods[fn.mod].rel, node.lineno if node else 0,
                           f"sibling readers disagree on the default of an omitted Multiplier: {ds} (only QuaMap._read_svs is reachable from QuaMap.read)"))
    return insts


def rule_r7(ctx) -> List[R.Inst]:
    """read_file hands read() the text without doubling line breaks; write_file writes what write() returns"""
    M = ctx.M
    rid = "C06.R7"
    rf = M.fn(QUAMAP + ".read_file")
    rd = M.fn(QUAMAP + ".read")
    file = M.mods[rf.mod].rel
    joins_nl = any(isinstance(n, ast.Call) and call_name(n) == "join" and isinstance(n.func.value, ast.Constant) and
                   n.func.value.value == "\n" for n in ast.walk(rd.node))
    src = None
    for n in walk_no_nested(rf.node):
        if isinstance(n, ast.Assign) and isinstance(n.targets[0], ast.Name):
            src = n
    insts = []
    if src is None:
        return [R.undec(rid, "read_file", file, rf.node.lineno, "source of the lines not found")]
    t = unparse(src.value)
    # what read() actually receives: the argument of the read(..) call, locals bound once put back (text = …; read(text.split("\n")))
    rc_ = [n for n in walk_no_nested(rf.node) if isinstance(n, ast.Call) and call_name(n) == "read" and isinstance(n.func, ast.Attribute) and
           isinstance(n.func.value, ast.Name) and n.args]
    if len(rc_) == 1:
        import copy as _copy

        def _res(e, depth=0):
            class T(ast.NodeTransformer):
                def visit_Name(self, n):
                    ds = [x.value for x in walk_no_nested(rf.node) if isinstance(x, ast.Assign) and len(x.targets) == 1 and
                          isinstance(x.targets[0], ast.Name) and x.targets[0].id == n.id]
                    if isinstance(n.ctx, ast.Load) and len(ds) == 1 and depth < 4:
                        return _res(ds[0], depth + 1)
                    return n
            return T().visit(_copy.deepcopy(e))
        t = unparse(_res(rc_[0].args[0]))
    keeps_terminators = ".readlines()" in t or t.startswith("list(f") or t in ("[line for line in f]", "[l for l in f]")
    if keeps_terminators and joins_nl:
        insts.append(R.viol(rid, "read_file", file, src.lineno,
                            f"'{t}' keeps the line terminators and read() joins the lines with another '\\n': every line break is "
                            f"doubled, which turns a folded (wrapped) YAML scalar into one with literal newlines",
                            construct=f"read_file: {t}"))
    elif ".splitlines()" in t and joins_nl:
        insts.append(R.viol(rid, "read_file", file, src.lineno,
                            f"'{t}' cuts the text at every line boundary str.splitlines knows (\\r, \\x0b, \\x0c, \\x1c-\\x1e, \\x85, U+2028, U+2029), "
                            f"and read() joins the pieces with '\\n': a quoted title that contains one of these characters comes back "
                            f"with a line break (folded to a space by YAML) in its place — split at '\\n' only",
                            construct=f"read_file: {t}"))
    elif ".read()" in t or ".read_text(" in t or "rstrip" in t or "strip(" in t:
        insts.append(R.ok(rid, "read_file", file, src.lineno, idiom=f"{t}: text or terminator-free lines"))
    else:
        insts.append(R.undec(rid, "read_file", file, src.lineno, f"line source '{t}' not recognised"))
    wf = M.fn(QUAMAP + ".write_file")
    ok_w = any(isinstance(n, ast.Call) and call_name(n) == "write" and n.args and unparse(n.args[0]) == "self.write()"
               for n in ast.walk(wf.node))
    insts.append(R.ok(rid, "write_file", file, wf.node.lineno, idiom="f.write(self.write())") if ok_w else
                 R.viol(rid, "write_file", file, wf.node.lineno, "write_file does not write the text write() returns",
                        construct="QuaMap.write_file"))
    return insts


def rule_r8(ctx) -> List[R.Inst]:
    """writing denotes the same chart: the writers leave the chart they serialise untouched (effect analysis)"""
    M, E = ctx.M, ctx.E
    rid = "C06.R8"
    insts = []
    qs = [LISTS[s] + ".to_yaml" for s in ("hits", "holds", "bpms", "svs")] + [QUAMAP + ".write", QUAMETA + "._write_meta"]
    for q in qs:
        fn = M.fn(q)
        file = M.mods[fn.mod].rel
        s = E.summary(q)
        key = ".".join(q.rsplit(".", 2)[-2:])
        if s.mut:
            (p, f), sites = sorted(s.mut.items())[0]
            insts.append(R.viol(rid, key, file, sites[0].line,
                                f"{key} modifies the chart it writes ('{sites[0].text}'): the first document is right, but the in-memory "
                                f"chart changes on every write, so a second write (or any later use) denotes a different chart",
                                construct=f"{key}: {sites[0].text}"))
        else:
            insts.append(R.ok(rid, key, file, fn.node.lineno, idiom="Mut = {} (works on a copy / fresh frames)"))
    return insts


def rule_r9(ctx) -> List[R.Inst]:
    """charts that reach the writer from library code: to_yaml serialises *every* column of a list's frame, so the library
    functions that build lists from frames must hand over the declared columns only (rule code of C19.R3 'projection' for
    sv_normalize and of C08.R7 for the converters' empty() buffers)"""
    from . import c19, c08
    out = []
    for i in c19.rule_r3(ctx):
        if i.key == "projection":
            i.rule, i.key = "C06.R9", "sv_normalize:" + i.key
            if i.status == "violation":
                i.msg += " — QuaSvList.to_yaml writes every column of the frame, so the extra columns become keys of SliderVelocities"
            out.append(i)
    for i in c08.rule_r7(ctx):
        if "Qua" in i.key or i.status != "ok":
            i.rule, i.key = "C06.R9", "empty:" + i.key
            out.append(i)
    return out


def rule_r10(ctx) -> List[R.Inst]:
    """reader frames: `pd.DataFrame(dicts)` has one column per key that occurs in ANY object of the document; the frame handed to
    the list class must be projected onto the declared fields, or format keys the model has no field for (HitSound, EditorLayer,
    ...) become columns that are NaN on the objects lacking them and are written back as `.nan`"""
    M = ctx.M
    rid = "C06.R10"
    insts = []
    from .deps import _closure
    reach = _closure(ctx, [QUAMAP + ".read"])
    for slot in ("hits", "holds", "bpms", "svs"):
        q = LISTS[slot] + ".from_yaml"
        fn = _codec_fn(M, q)
        file = M.mods[fn.mod].rel
        declared = set(M.list_columns(LISTS[slot]))
        key = f"{slot}:reader-projection"
        frames = [n for n in walk_no_nested(fn.node) if isinstance(n, ast.Call) and call_name(n) == "DataFrame" and n.args and
                  isinstance(n.args[0], ast.Name)]
        if not frames:
            insts.append(R.ok(rid, key, file, fn.node.lineno, idiom="no frame is built from the raw objects"))
            continue
        # the last statement that fixes the column set before the constructor call
        proj = None
        in_order = [x for st_ in fn.node.body for x in sorted((y for y in ast.walk(st_) if hasattr(y, "lineno")),
                                                              key=lambda y: (y.lineno, y.col_offset))]   # statement order (helpers are inlined)
        for n in in_order:
            if isinstance(n, ast.Call) and isinstance(n.func, ast.Attribute) and n.func.attr == "reindex":
                cols = n.args[0] if n.args else next((k.value for k in n.keywords if k.arg in ("columns", "labels")), None)
                if cols is None:
                    continue
                try:
                    lit_ = M.lit(fn.mod, cols)
                except Exception:
                    lit_ = None
                proj = (n, lit_, unparse(cols))
            if isinstance(n, ast.Subscript) and isinstance(n.slice, ast.List) and isinstance(n.ctx, ast.Load):
                try:
                    lit_ = M.lit(fn.mod, n.slice)
                except Exception:
                    lit_ = None
                if lit_ and all(isinstance(x, str) for x in lit_):
                    proj = (n, lit_, unparse(n.slice))
        if proj is None:
            insts.append(R.viol(rid, key, file, frames[0].lineno,
                                "the frame built from the document's objects reaches the list with whatever keys the objects carry",
                                construct=f"{slot}: DataFrame(dicts) unprojected"))
        elif proj[1] is None or "union" in proj[2]:
            insts.append(R.viol(rid, key, file, proj[0].lineno,
                                f"the column set is '{proj[2][:70]}', i.e. the declared fields PLUS every other key that occurs in the "
                                f"document: a key the model has no field for (HitSound, EditorLayer, ...) becomes a column that is NaN on "
                                f"the objects lacking it and is written back as '.nan' (and ints as floats)",
                                construct=f"{slot}: columns = {proj[2][:80]}"))
        elif set(proj[1]) - declared - {"StartTime", "EndTime", "Lane", "KeySounds", "Bpm", "Multiplier"}:
            extra = sorted(set(proj[1]) - declared)
            insts.append(R.viol(rid, key, file, proj[0].lineno, f"the frame is projected onto {sorted(proj[1])}, which has undeclared {extra}",
                                construct=f"{slot}: projection {sorted(proj[1])}"))
        else:
            insts.append(R.ok(rid, key, file, proj[0].lineno, idiom=f"projected onto {sorted(proj[1])}"))
        if insts and insts[-1].status == R.VIOL and q not in reach:
            # a public sibling reader that QuaMap.read does not use: same defect class, not observable at the property's entry points
            insts[-1].status = R.ADV
            insts[-1].msg = f"({slot}.from_yaml is not reached from QuaMap.read) " + insts[-1].msg
    return insts


def rule_r11(ctx) -> List[R.Inst]:
    """metadata values are YAML scalars of whatever type the text happens to have (`Tags: 2020` is an int, `Tags:` is null):
    a str method applied to one needs a str() / `or ""` normalisation first"""
    M = ctx.M
    rid = "C06.R11"
    fn = M.fn(QUAMETA + "._read_metadata")
    file = M.mods[fn.mod].rel
    insts = []
    dparam = [a.arg for a in fn.node.args.args if a.arg != "self"][0]
    for n in ast.walk(fn.node):
        if isinstance(n, ast.Call) and isinstance(n.func, ast.Attribute) and n.func.attr in (
                "split", "strip", "lower", "upper", "replace", "startswith", "endswith", "join", "encode", "rstrip", "lstrip"):
            recv = n.func.value
            if isinstance(recv, ast.Call) and call_name(recv) == "get" and isinstance(recv.func, ast.Attribute) and \
                    isinstance(recv.func.value, ast.Name) and recv.func.value.id == dparam and recv.args:
                k = C.const_str(recv.args[0]) or unparse(recv.args[0])
                insts.append(R.viol(rid, f"meta:{k}:raw-scalar", file, n.lineno,
                                    f"'.{n.func.attr}' is called on the raw YAML value of '{k}': a value that YAML reads as a number, a bool or "
                                    f"null ('{k}: 2020', '{k}:') raises AttributeError", construct=unparse(n)[:100]))
            elif isinstance(recv, ast.Call) and isinstance(recv.func, ast.Name) and recv.func.id == "str" and any(
                    isinstance(x, ast.Call) and call_name(x) == "get" for x in ast.walk(recv)):
                g = next(x for x in ast.walk(recv) if isinstance(x, ast.Call) and call_name(x) == "get")
                k = C.const_str(g.args[0]) if g.args else "?"
                # str(None) == 'None': a null must be replaced before
                nullsafe = any(isinstance(x, ast.BoolOp) and isinstance(x.op, ast.Or) for x in ast.walk(recv)) or \
                    (len(g.args) > 1 and not (isinstance(g.args[1], ast.Constant) and g.args[1].value is None))
                if any(isinstance(x, ast.BoolOp) and isinstance(x.op, ast.Or) for x in ast.walk(recv)):
                    insts.append(R.ok(rid, f"meta:{k}:raw-scalar", file, n.lineno, idiom="str(value or '') before the str method"))
                else:
                    insts.append(R.viol(rid, f"meta:{k}:raw-scalar", file, n.lineno,
                                        f"'{k}:' (YAML null) becomes the text 'None' through str(): normalise null to '' first",
                                        construct=unparse(n)[:100]))
    if not insts:
        insts.append(R.ok(rid, "meta:raw-scalars", file, fn.node.lineno, idiom="no str method on a raw YAML value"))
    return insts


def rule_r12(ctx) -> List[R.Inst]:
    """metadata defaults have the type the field declares (and the format defines)"""
    from .common import dataclass_default_insts
    return dataclass_default_insts(ctx, QUAMETA, "C06.R12")


def rule_dep(ctx):
    """obligations inherited from shared code reached through the call graph (sa/props/deps.py)"""
    from .deps import dep_insts
    return dep_insts(ctx, "C06", ["reamber.quaver.QuaMap.QuaMap.read", "reamber.quaver.QuaMap.QuaMap.write"], skip_groups=())


SPECS = [
    RuleSpec("C06.R1", rule_r1, 21, "A1", "metadata key table: same key, same field, inverse transform, own default"),
    RuleSpec("C06.R2", rule_r2, 30, "A1", "object codecs compose to the identity: list, item and chart-level readers against the list/item writers"),
    RuleSpec("C06.R3", rule_r3, 4, "A2", "emitted keys ⊆ format keys ⊇ consumed keys, numeric keys typed"),
    RuleSpec("C06.R4", rule_r4, 3, "A1", "EndTime presence <=> hold, on both sides"),
    RuleSpec("C06.R5", rule_r5, 3, "A1", "three sections: popped by read, set by write, bound to the same lists"),
    RuleSpec("C06.R8", rule_r8, 6, "A3", "the writers do not modify the chart they serialise"),
    RuleSpec("C06.R7", rule_r7, 2, "A1", "read_file / write_file pass the text through unchanged (no doubled line breaks)"),
    RuleSpec("C06.R6", rule_r6, 11, "A8", "defaults for omitted keys are applied before use and leave no NaN"),
    RuleSpec("C06.R9", rule_r9, 3, "A7", "library producers of Quaver lists (sv_normalize, converters' empty buffers) hand the writer declared columns only"),
    RuleSpec("C06.R10", rule_r10, 2, "A2", "reader frames are projected onto the declared fields (no data-dependent columns)"),
    RuleSpec("C06.R11", rule_r11, 1, "A8", "no str method on a raw YAML scalar"),
    RuleSpec("C06.R12", rule_r12, 12, "A2", "scalar metadata defaults have the declared type"),
    RuleSpec("C06.D", rule_dep, 1, "M0", "rules of the shared code (timing engine, list classes, stacker) that the operations of this property reach"),
]

META = dict(
    explanation=(
        "Quaver codec: the 21-key metadata table (same key, same field, split/join inverse, an omitted key keeps the "
        "field's own default); the object codecs are interpreted abstractly as straight-line DataFrame pipelines "
        "(rename / drop / astype / column arithmetic / reindex / fillna) and as item-level dict tables, and every "
        "reader composed with its writer must be the identity on each declared column in rational-function canonical "
        "form (Lane = column + 1 against column = Lane - 1, EndTime = offset + length against length = EndTime - "
        "StartTime); the key set each list writer emits is a subset of the format's keys for its section (frozen in "
        "sa/tables/qua_format.json), a superset of what the reader consumes, with int/float types; EndTime presence "
        "routes holds on both sides; the three sections bind to the same lists; and each key the domain allows a "
        "document to omit receives its default before it is used and never leaves NaN. Keys the format types as a list have list-valued declared defaults; library producers of Quaver lists (sv_normalize, the converters' empty buffers) hand the writer declared columns only, because to_yaml serialises every column (R9); no emitted time is computed from operands that were already truncated to int."),
    not_decided="YAML quoting (PyYAML trusted), the <1 ms int() truncation bound, authoritative default of an omitted Multiplier/Bpm",
)
