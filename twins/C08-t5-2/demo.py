"""Differential demo for property C08 (conversions preserve chart content).

Runs every shipped converter (16 + O2JToSM.convert_merge), ConvertBase.cast
itself and the Map stacker on a broad, deterministic set of source charts and
source histories, and prints one line ``DIGEST <sha256>`` over a canonical
text dump of everything observable: result classes, column order, dtypes,
row labels, values, metadata, raised exception types, and the source charts
after the call (to pin down "does not modify its input").

Run:  cd /tmp/wt6/C08 && PYTHONPATH=/tmp/wt6/C08 /venv/bin/python demo.py
"""
import hashlib
import random
import sys
import warnings
from copy import deepcopy
from pathlib import Path

import numpy as np
import pandas as pd

warnings.filterwarnings("ignore")

import reamber
from reamber.algorithms.convert import *  # noqa
from reamber.algorithms.convert.ConvertBase import ConvertBase
from reamber.base.Map import Map
from reamber.base.lists.TimedList import TimedList
from reamber.base.lists.notes.NoteList import NoteList
from reamber.base.lists.notes.HitList import HitList
from reamber.base.lists.notes.HoldList import HoldList
from reamber.base.lists.BpmList import BpmList
from reamber.bms import BMSMap, BMSHit, BMSHold, BMSBpm
from reamber.bms.lists.BMSBpmList import BMSBpmList
from reamber.bms.lists.notes.BMSHitList import BMSHitList
from reamber.bms.lists.notes.BMSHoldList import BMSHoldList
from reamber.o2jam import O2JMapSet, O2JMap, O2JHit, O2JHold, O2JBpm
from reamber.o2jam.lists.O2JBpmList import O2JBpmList
from reamber.o2jam.lists.notes.O2JHitList import O2JHitList
from reamber.o2jam.lists.notes.O2JHoldList import O2JHoldList
from reamber.osu import OsuMap, OsuHit, OsuHold, OsuBpm, OsuSv
from reamber.osu.lists.OsuBpmList import OsuBpmList
from reamber.osu.lists.OsuSvList import OsuSvList
from reamber.osu.lists.notes.OsuHitList import OsuHitList
from reamber.osu.lists.notes.OsuHoldList import OsuHoldList
from reamber.quaver import QuaMap, QuaHit, QuaHold, QuaBpm, QuaSv
from reamber.quaver.lists.QuaBpmList import QuaBpmList
from reamber.quaver.lists.QuaSvList import QuaSvList
from reamber.quaver.lists.notes.QuaHitList import QuaHitList
from reamber.quaver.lists.notes.QuaHoldList import QuaHoldList
from reamber.sm import SMMapSet, SMMap, SMHit, SMHold, SMBpm
from reamber.sm.lists.SMBpmList import SMBpmList
from reamber.sm.lists.notes.SMHitList import SMHitList
from reamber.sm.lists.notes.SMHoldList import SMHoldList

assert Path(reamber.__file__).resolve().as_posix().startswith("/tmp/wt6/C08/"), (
    "reamber must resolve to the worktree",
    reamber.__file__,
)

MAPS_DIR = Path("/tmp/wt6/C08/rsc/maps")

import os

DEBUG = bool(os.environ.get("C08_DEBUG"))
H = hashlib.sha256()
N_LINES = [0]


def emit(*parts):
    line = " | ".join(str(p) for p in parts)
    H.update(line.encode("utf8", "backslashreplace"))
    H.update(b"\n")
    N_LINES[0] += 1
    if DEBUG and "RAISED" in line:
        print(line[:200], file=sys.stderr)


# --------------------------------------------------------------------------- #
# canonical dumps
# --------------------------------------------------------------------------- #
def dump_df(tag, df):
    emit(tag, "shape", df.shape)
    emit(tag, "columns", list(df.columns))
    emit(tag, "dtypes", [str(d) for d in df.dtypes])
    emit(tag, "index", type(df.index).__name__, str(df.index.dtype), df.index.tolist())
    for c in df.columns:
        col = df[c]
        emit(tag, "col", c, str(col.dtype), [(type(v).__name__, repr(v)) for v in col.tolist()]
             if col.dtype == object else repr(col.tolist()))


def dump_val(tag, v):
    if isinstance(v, pd.DataFrame):
        dump_df(tag, v)
    elif isinstance(v, TimedList):
        emit(tag, "timedlist", type(v).__name__)
        dump_df(tag, v.df)
    else:
        emit(tag, type(v).__name__, repr(v))


def dump_map(tag, m):
    emit(tag, "class", type(m).__module__, type(m).__name__)
    emit(tag, "objs-keys", list(m.objs.keys()))
    for k, v in m.objs.items():
        emit(tag, "obj", k, type(v).__name__)
        dump_df(f"{tag}.{k}", v.df)
    for k, v in vars(m).items():
        if k == "objs":
            continue
        dump_val(f"{tag}.meta.{k}", v)


def dump_any(tag, r):
    """Dumps a Map, a MapSet or a list of them."""
    if isinstance(r, list):
        emit(tag, "list", len(r))
        for i, x in enumerate(r):
            dump_any(f"{tag}[{i}]", x)
    elif isinstance(r, Map):
        dump_map(tag, r)
    elif hasattr(r, "maps"):
        emit(tag, "set-class", type(r).__module__, type(r).__name__, len(r.maps))
        for k, v in vars(r).items():
            if k == "maps":
                continue
            dump_val(f"{tag}.setmeta.{k}", v)
        for i, m in enumerate(r.maps):
            dump_map(f"{tag}.maps[{i}]", m)
    else:
        dump_val(tag, r)


def attempt(tag, fn):
    try:
        r = fn()
    except Exception as e:  # noqa
        emit(tag, "RAISED", type(e).__name__, str(e))
        if DEBUG:
            print("   ", repr(e)[:200], file=sys.stderr)
        return None
    dump_any(tag, r)
    return r


# --------------------------------------------------------------------------- #
# source generators ("built from objects")
# --------------------------------------------------------------------------- #
def _offsets(rng, n, style):
    if style == "sorted":
        return sorted(rng.uniform(0, 60000) for _ in range(n))
    if style == "ties":
        return [float(rng.choice([0, 0, 250, 500, 500, 1000])) for _ in range(n)]
    if style == "negative":
        return [rng.uniform(-5000, 5000) for _ in range(n)]
    return [rng.uniform(0, 60000) for _ in range(n)]  # unsorted


def gen_lists(rng, keys, n_hits, n_holds, n_bpms, n_svs, style):
    hits = [(o, rng.randrange(keys)) for o in _offsets(rng, n_hits, style)]
    holds = [
        (o, rng.randrange(keys), rng.choice([0.0, 1.0, rng.uniform(10, 3000)]))
        for o in _offsets(rng, n_holds, style)
    ]
    bpms = [
        (o, rng.choice([120.0, 0.0, -60.0, rng.uniform(30, 400)]))
        for o in _offsets(rng, n_bpms, style)
    ]
    svs = [(o, rng.choice([1.0, 0.0, -1.0, rng.uniform(0.1, 10)])) for o in
           _offsets(rng, n_svs, style)]
    return hits, holds, bpms, svs


def build_osu(rng, keys, n, style):
    hits, holds, bpms, svs = gen_lists(rng, keys, *n, style)
    m = OsuMap()
    m.hits = OsuHitList([OsuHit(o, c, volume=rng.randrange(100), hitsound_file=rng.choice(["", "a.wav"])) for o, c in hits])
    m.holds = OsuHoldList([OsuHold(o, c, l) for o, c, l in holds])
    m.bpms = OsuBpmList([OsuBpm(o, b, kiai=rng.random() < .5) for o, b in bpms])
    m.svs = OsuSvList([OsuSv(o, s) for o, s in svs])
    m.title, m.title_unicode = "Ti tle", "タイトル"
    m.artist, m.artist_unicode = "Art", "アート"
    m.creator, m.version = "me", f"{keys}K diff"
    m.circle_size = float(keys)
    m.tags = ["a", "b"]
    m.audio_file_name, m.background_file_name = "audio.mp3", "bg.png"
    m.preview_time = rng.choice([-1, 0, 12345])
    return m


def build_qua(rng, keys, n, style):
    hits, holds, bpms, svs = gen_lists(rng, keys, *n, style)
    m = QuaMap()
    m.hits = QuaHitList([QuaHit(o, c, keysounds=[]) for o, c in hits])
    m.holds = QuaHoldList([QuaHold(o, c, l, keysounds=[]) for o, c, l in holds])
    m.bpms = QuaBpmList([QuaBpm(o, b) for o, b in bpms])
    m.svs = QuaSvList([QuaSv(o, s) for o, s in svs])
    m.title, m.artist, m.creator, m.difficulty_name = "QT", "QA", "QC", f"q{keys}"
    m.mode = {4: "Keys4", 7: "Keys7"}.get(keys, "Keys4")
    m.tags = ["x"]
    m.audio_file, m.background_file = "q.mp3", "q.png"
    m.song_preview_time = rng.choice([0, 999])
    return m


def build_sm_map(rng, keys, n, style):
    hits, holds, bpms, _ = gen_lists(rng, keys, *n, style)
    m = SMMap()
    m.hits = SMHitList([SMHit(o, c) for o, c in hits])
    m.holds = SMHoldList([SMHold(o, c, l) for o, c, l in holds])
    m.bpms = SMBpmList([SMBpm(o, b) for o, b in bpms])
    m.chart_type = {4: "dance-single", 7: "kb7-single", 6: "dance-solo", 8: "dance-double"}.get(keys, "dance-single")
    m.difficulty, m.difficulty_val = rng.choice(["Easy", "Hard"]), rng.randrange(1, 20)
    m.description = "desc"
    return m


def build_sm(rng, keys, n, style, n_maps=2):
    s = SMMapSet()
    s.maps = [build_sm_map(rng, keys, n, style) for _ in range(n_maps)]
    s.title, s.title_translit, s.artist, s.artist_translit = "ST", "STt", "SA", "SAt"
    s.credit, s.music, s.background = "SC", "s.ogg", "s.png"
    s.offset = 0.0
    s.sample_start = rng.choice([0.0, 1234.0])
    return s


def build_bms(rng, keys, n, style):
    hits, holds, bpms, _ = gen_lists(rng, keys, *n, style)
    m = BMSMap()
    m.hits = BMSHitList([BMSHit(o, c, sample=rng.choice([b"", b"01.wav"])) for o, c in hits])
    m.holds = BMSHoldList([BMSHold(o, c, l, sample=b"h.wav") for o, c, l in holds])
    m.bpms = BMSBpmList([BMSBpm(o, b) for o, b in bpms])
    m.title, m.artist, m.version = "題名".encode("sjis"), b"BA", b"BV"
    return m


def build_o2j_map(rng, keys, n, style):
    hits, holds, bpms, _ = gen_lists(rng, keys, *n, style)
    m = O2JMap()
    m.hits = O2JHitList([O2JHit(o, c, volume=rng.randrange(16)) for o, c in hits])
    m.holds = O2JHoldList([O2JHold(o, c, l) for o, c, l in holds])
    m.bpms = O2JBpmList([O2JBpm(o, b) for o, b in bpms])
    return m


def build_o2j(rng, keys, n, style, n_maps=3, levels=(3, 11, 27)):
    s = O2JMapSet()
    s.maps = [build_o2j_map(rng, keys, n, style) for _ in range(n_maps)]
    s.level = list(levels)
    s.title, s.artist, s.creator = "OT", "OA", "OC"
    s.bpm = 150.0
    return s


# --------------------------------------------------------------------------- #
# histories
# --------------------------------------------------------------------------- #
def _maps_of(src):
    return list(src.maps) if hasattr(src, "maps") else [src]


def h_fresh(src, rng):
    return src


def h_deepcopy(src, rng):
    return src.deepcopy()


def h_filter(src, rng):
    """Keep about half the rows of every list: the row labels get gaps."""
    src = src.deepcopy()
    for m in _maps_of(src):
        for k, tl in m.objs.items():
            mask = np.array([rng.random() < 0.6 for _ in range(len(tl))], dtype=bool)
            tl.df = tl.df[mask]
    return src


def h_filter_api(src, rng):
    """Filter through the TimedList API (after / before / between)."""
    src = src.deepcopy()
    for m in _maps_of(src):
        m.hits = m.hits.after(500, include_end=True)
        m.holds = m.holds.between(0, 40000)
        m.bpms = m.bpms.before(50000)
    return src


def h_sort(src, rng):
    src = src.deepcopy()
    for m in _maps_of(src):
        m.hits = m.hits.sorted(reverse=True)
        m.holds = m.holds.sorted()
        m.bpms = m.bpms.sorted(reverse=True)
    return src


def h_append(src, rng):
    src = src.deepcopy()
    for m in _maps_of(src):
        item = m.hits._item_class()
        kw = dict(keysounds=[]) if item is QuaHit else {}
        m.hits = m.hits.append(item(offset=777.0, column=1, **kw))
        m.hits = m.hits.append(m.hits[:2], sort=True)
        bitem = m.bpms._item_class()
        m.bpms = m.bpms.append(bitem(offset=-10.0, bpm=99.5))
    return src


def h_stack(src, rng):
    """Modify through the stacker (labels become a slice of the stacked frame)."""
    src = src.deepcopy()
    for m in _maps_of(src):
        s = m.stack()
        s.offset += 100
        s.offset *= 1.5
        s.loc[s.offset > 20000, "offset"] -= 3
        try:
            s.length = s.length + 1
        except Exception:
            pass
    return src


def h_stack_notes_only(src, rng):
    src = src.deepcopy()
    for m in _maps_of(src):
        s = m.stack((NoteList,))
        s.offset -= 250
    return src


def h_rate(src, rng):
    return src.rate(1.25)


def h_rate_slow_filter_stack(src, rng):
    src = h_filter(src.rate(0.5), rng)
    return h_stack(src, rng)


def h_sort_filter(src, rng):
    return h_filter(h_sort(src, rng), rng)


def h_empty_holds(src, rng):
    src = src.deepcopy()
    for m in _maps_of(src):
        m.holds = m.holds[:0]
    return src


HISTORIES = [
    h_fresh, h_deepcopy, h_filter, h_filter_api, h_sort, h_append, h_stack,
    h_stack_notes_only, h_rate, h_rate_slow_filter_stack, h_sort_filter,
    h_empty_holds,
]

# --------------------------------------------------------------------------- #
# converters
# --------------------------------------------------------------------------- #
CONVERTERS = {
    "osu": [
        ("OsuToBMS", lambda s: OsuToBMS.convert(s)),
        ("OsuToBMS+1", lambda s: OsuToBMS.convert(s, move_right_by=1)),
        ("OsuToQua", lambda s: OsuToQua.convert(s)),
        ("OsuToQua-noraise", lambda s: OsuToQua.convert(s, raise_bad_mode=False)),
        ("OsuToSM", lambda s: OsuToSM.convert(s)),
        ("OsuToSM-noraise", lambda s: OsuToSM.convert(s, False)),
    ],
    "qua": [
        ("QuaToBMS", lambda s: QuaToBMS.convert(s)),
        ("QuaToBMS+2", lambda s: QuaToBMS.convert(s, 2)),
        ("QuaToOsu", lambda s: QuaToOsu.convert(s)),
        ("QuaToSM", lambda s: QuaToSM.convert(s)),
    ],
    "sm": [
        ("SMToBMS", lambda s: SMToBMS.convert(s)),
        ("SMToOsu", lambda s: SMToOsu.convert(s)),
        ("SMToQua", lambda s: SMToQua.convert(s)),
        ("SMToQua-noraise", lambda s: SMToQua.convert(s, raise_bad_mode=False)),
    ],
    "bms": [
        ("BMSToOsu", lambda s: BMSToOsu.convert(s)),
        ("BMSToQua", lambda s: BMSToQua.convert(s)),
        ("BMSToQua-noraise", lambda s: BMSToQua.convert(s, raise_bad_mode=False)),
        ("BMSToSM", lambda s: BMSToSM.convert(s)),
    ],
    "o2j": [
        ("O2JToBMS", lambda s: O2JToBMS.convert(s)),
        ("O2JToBMS+0", lambda s: O2JToBMS.convert(s, move_right_by=0)),
        ("O2JToOsu", lambda s: O2JToOsu.convert(s)),
        ("O2JToQua", lambda s: O2JToQua.convert(s)),
        ("O2JToSM", lambda s: O2JToSM.convert(s)),
        ("O2JToSM-merge", lambda s: O2JToSM.convert_merge(s)),
        # instance call style, as used by the test-suite
        ("O2JToSM()-inst", lambda s: O2JToSM().convert(s)),
        ("O2JToSM()-inst-merge", lambda s: O2JToSM().convert_merge(s)),
    ],
}


def run_converters(tag, game, src):
    before = hashlib.sha256()
    for name, fn in CONVERTERS[game]:
        r = attempt(f"{tag}>{name}", lambda: fn(src))
        # one target chart per source chart
        if r is not None:
            n_src = len(_maps_of(src))
            if isinstance(r, list):
                n_out = sum(len(_maps_of(x)) for x in r)
            else:
                n_out = len(_maps_of(r))
            emit(f"{tag}>{name}", "n_src", n_src, "n_out", n_out)
        # the source afterwards
        dump_any(f"{tag}>{name}>SRC-AFTER", src)


# --------------------------------------------------------------------------- #
# part A: ConvertBase.cast directly
# --------------------------------------------------------------------------- #
def part_cast(rng):
    srcs = []
    for style in ["sorted", "unsorted", "ties", "negative"]:
        for n in [0, 1, 2, 7]:
            hits, holds, bpms, svs = gen_lists(rng, 7, n, n, n, n, style)
            srcs.append(OsuHoldList([OsuHold(o, c, l) for o, c, l in holds]))
            srcs.append(BMSHitList([BMSHit(o, c, sample=b"s") for o, c in hits]))
            srcs.append(QuaSvList([QuaSv(o, s) for o, s in svs]))
            srcs.append(SMBpmList([SMBpm(o, b) for o, b in bpms]))
    # odd row labels
    relabelled = []
    for s in srcs:
        s2 = s.deepcopy()
        if len(s2):
            labels = list(range(100, 100 + len(s2)))
            rng.shuffle(labels)
            s2.df = s2.df.set_axis(labels, axis=0)
        relabelled.append(s2)
        s3 = s.deepcopy()
        if len(s3):
            s3.df = s3.df.set_axis([5] * len(s3), axis=0)  # duplicate labels
        relabelled.append(s3)
        s4 = s.deepcopy()
        s4.df = s4.df.iloc[::-1]
        relabelled.append(s4)
    targets = [
        (OsuHitList, dict(offset="offset")),
        (QuaHoldList, dict(offset="offset", length=5.0)),
        (BMSBpmList, dict(offset="offset", bpm=7)),
        (O2JHitList, dict(offset="offset", volume=3)),
        (SMHoldList, dict()),
        (OsuSvList, dict(multiplier="offset", offset="offset")),
    ]
    for i, s in enumerate(srcs + relabelled):
        for tcls, mapping in targets:
            mapping = dict(mapping)
            if "column" in s.df.columns and "column" in tcls([]).df.columns:
                mapping["column"] = "column"
            if "length" in s.df.columns and "length" in tcls([]).df.columns and "length" not in mapping:
                mapping["length"] = "length"
            tag = f"cast[{i}:{type(s).__name__}->{tcls.__name__}]"
            before = s.df.copy(deep=True)
            mp_before = dict(mapping)
            attempt(tag, lambda: ConvertBase.cast(s, tcls, mapping))
            dump_df(tag + ".SRC-AFTER", s.df)
            emit(tag, "src-unchanged", before.equals(s.df), "mapping-unchanged",
                 list(mapping.items()) == list(mp_before.items()))
        # Series-valued mapping entries (as BMSToOsu does), index of the series
        # differs from 0..n-1
        if "offset" in s.df.columns:
            ser = s.offset.apply(lambda v: f"f{v}")
            attempt(f"cast-series[{i}]", lambda: ConvertBase.cast(
                s, OsuHitList, dict(offset="offset", hitsound_file=ser)))
            arr = np.arange(len(s))
            attempt(f"cast-array[{i}]", lambda: ConvertBase.cast(
                s, OsuHitList, dict(offset="offset", column=arr)))
        # errors: unknown source attribute, non-property target name,
        # wrong-length series
        attempt(f"cast-bad-src[{i}]", lambda: ConvertBase.cast(
            s, OsuHitList, dict(offset="does_not_exist")))
        attempt(f"cast-bad-len[{i}]", lambda: ConvertBase.cast(
            s, OsuHitList, dict(offset=pd.Series([1.0, 2.0, 3.0]))))
        r = attempt(f"cast-extra-attr[{i}]", lambda: ConvertBase.cast(
            s, OsuHitList, dict(offset="offset", not_a_prop="offset")))
        if r is not None:
            emit(f"cast-extra-attr[{i}]", type(getattr(r, "not_a_prop")).__name__,
                 repr(np.asarray(getattr(r, "not_a_prop")).tolist()))
        # via a subclass / an instance (cast is a staticmethod)
        attempt(f"cast-inst[{i}]", lambda: OsuToQua().cast(
            s, QuaHitList, dict(offset="offset")))


# --------------------------------------------------------------------------- #
# part C: the stacker
# --------------------------------------------------------------------------- #
def part_stacker(rng):
    cases = []
    for keys, n, style in [
        (4, (0, 0, 0, 0), "sorted"),
        (4, (3, 0, 1, 0), "ties"),
        (7, (0, 4, 0, 2), "negative"),
        (7, (6, 5, 3, 2), "unsorted"),
        (5, (1, 1, 1, 1), "sorted"),
    ]:
        cases.append(("osu", build_osu(rng, keys, n, style)))
        cases.append(("qua", build_qua(rng, keys, n, style)))
        cases.append(("sm", build_sm_map(rng, keys, n, style)))
        cases.append(("bms", build_bms(rng, keys, n, style)))
        cases.append(("o2j", build_o2j_map(rng, keys, n, style)))
    for i, (g, m) in enumerate(cases):
        for hist in [h_fresh, h_filter, h_sort]:
            mm = hist(m, rng) if hist is not h_fresh else m.deepcopy()
            tag = f"stack[{i}:{g}:{hist.__name__}]"
            for inc_name, inc in [
                ("None", None),
                ("notes", (NoteList,)),
                ("hits", (HitList,)),
                ("holds+bpms", (HoldList, BpmList)),
                ("bpmlist-type", BpmList),
                ("nothing", (dict,)),
            ]:
                try:
                    s = mm.stack(inc)
                except Exception as e:  # noqa
                    emit(tag, inc_name, "RAISED", type(e).__name__)
                    continue
                emit(tag, inc_name, "ixs", type(s._ixs).__name__,
                     [(type(x).__name__, x) for x in s._ixs])
                emit(tag, inc_name, "unstacked",
                     [type(u).__name__ for u in s._unstacked],
                     [u is o for u, o in zip(s._unstacked, [v for v in mm.objs.values()
                                                           if inc is None or isinstance(v, inc)])])
                dump_df(f"{tag}.{inc_name}.stacked", s._stacked)
                try:
                    s.offset += 10
                    s.loc[s.offset > 1000, "offset"] *= 2
                    emit(tag, inc_name, "col-max", repr(s.column.max()))
                except Exception as e:  # noqa
                    emit(tag, inc_name, "OP-RAISED", type(e).__name__)
                dump_map(f"{tag}.{inc_name}.map-after", mm)
            s_default = mm.stack()
            emit(tag, "default-call", s_default._ixs)


# --------------------------------------------------------------------------- #
# part B: converters x sources x histories
# --------------------------------------------------------------------------- #
def part_converters(rng):
    sources = []
    # freshly read
    sources.append(("osu", "fresh-osu", OsuMap.read_file((MAPS_DIR / "osu/Gravity.osu").as_posix())))
    sources.append(("qua", "fresh-qua", QuaMap.read_file((MAPS_DIR / "qua/CarryMeAway.qua").as_posix())))
    sources.append(("sm", "fresh-sm", SMMapSet.read_file((MAPS_DIR / "sm/Escapes.sm").as_posix())))
    sources.append(("o2j", "fresh-o2j", O2JMapSet.read_file((MAPS_DIR / "o2jam/o2ma178.ojn").as_posix())))
    sources.append(("bms", "fresh-bms", BMSMap.read_file(MAPS_DIR / "bms/coldBreath.bme")))
    # built from objects
    shapes = [
        (4, (0, 0, 0, 0), "sorted"),      # completely empty chart
        (4, (5, 0, 1, 0), "sorted"),      # no holds, no svs
        (4, (0, 3, 1, 1), "ties"),        # no hits
        (7, (12, 6, 3, 4), "unsorted"),
        (7, (8, 8, 2, 2), "negative"),
        (1, (3, 2, 1, 1), "ties"),        # 1K: unsupported mode everywhere
        (5, (6, 3, 2, 0), "unsorted"),    # 5K
        (8, (9, 4, 1, 2), "sorted"),      # 8K
        (10, (10, 5, 2, 1), "unsorted"),  # 10K
        (4, (4, 4, 0, 0), "sorted"),      # no bpm at all
    ]
    for j, (keys, n, style) in enumerate(shapes):
        sources.append(("osu", f"obj-osu{j}", build_osu(rng, keys, n, style)))
        sources.append(("qua", f"obj-qua{j}", build_qua(rng, keys, n, style)))
        sources.append(("sm", f"obj-sm{j}", build_sm(rng, keys, n, style)))
        sources.append(("bms", f"obj-bms{j}", build_bms(rng, keys, n, style)))
        sources.append(("o2j", f"obj-o2j{j}", build_o2j(rng, keys, n, style)))
    # map sets of other sizes, and an O2J set whose level table is too short
    sources.append(("sm", "obj-sm-empty-set", build_sm(rng, 4, (3, 1, 1, 0), "sorted", n_maps=0)))
    sources.append(("sm", "obj-sm-1", build_sm(rng, 4, (3, 1, 1, 0), "sorted", n_maps=1)))
    sources.append(("sm", "obj-sm-4", build_sm(rng, 7, (3, 1, 1, 0), "ties", n_maps=4)))
    sources.append(("o2j", "obj-o2j-empty-set", build_o2j(rng, 7, (3, 1, 1, 0), "sorted", n_maps=0)))
    sources.append(("o2j", "obj-o2j-1", build_o2j(rng, 7, (3, 1, 1, 0), "sorted", n_maps=1)))
    sources.append(("o2j", "obj-o2j-short-level", build_o2j(rng, 7, (3, 1, 1, 0), "sorted", n_maps=3, levels=(5,))))
    # the same map object twice in one set
    twice = build_o2j(rng, 7, (4, 2, 1, 0), "unsorted", n_maps=2)
    twice.maps = [twice.maps[0], twice.maps[0], twice.maps[1]]
    sources.append(("o2j", "obj-o2j-dup-map", twice))

    for game, name, src in sources:
        big = name.startswith("fresh")
        for hist in HISTORIES:
            # the large fixtures get a thinner set of histories to bound runtime
            if big and hist in (h_filter_api, h_stack_notes_only, h_sort_filter, h_empty_holds):
                continue
            tag = f"{name}:{hist.__name__}"
            try:
                s = hist(src, rng)
            except Exception as e:  # noqa
                emit(tag, "HISTORY-RAISED", type(e).__name__)
                continue
            run_converters(tag, game, s)
        # the original must be untouched by everything above
        dump_any(f"{name}:ORIGINAL-AT-END", src)


def main():
    random.seed(80808)
    np.random.seed(80808)
    rng = random.Random(80808)
    part_cast(rng)
    part_stacker(rng)
    part_converters(rng)
    print(f"lines {N_LINES[0]}", file=sys.stderr)
    print("DIGEST " + H.hexdigest())


if __name__ == "__main__":
    main()
