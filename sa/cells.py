"""Object cells: `DataFrame.copy()`, `astype`, `rename`, `to_dict("records")`, `itertuples` ... copy the frame, the rows and
the dicts — never the Python objects stored *in* object-typed cells (key-sound lists, file names kept as lists ...).  A
function that takes such a copy of a chart's frame, walks down to a cell and edits the object it finds there edits the
chart it was given.  The effect analysis (A3, 1-limited access paths) treats the copy as fresh and cannot see this; this
module follows the descent explicitly.

Levels on the way down from a frame rooted at `self.df` / `<parameter>.df` / a frame parameter:

    frame  --to_dict("records") / itertuples / iterrows / values / to_numpy-->  rows
    frame  --[col] / .col-->  column          column --tolist / values--> column
    rows / column  --iteration / [i]-->  row (a dict / tuple of cells)   or, for a column, a cell
    row  --[key] / .attr / .get(key) / iteration / .values() / .items()-->  cell
    cell --anything-->  cell   (inside the stored object)

A sink is an in-place edit whose receiver is at level `cell`: `del c[k]`, `c[k] = v`, `c.attr = v`, `c op= v`,
`c.append/extend/insert/pop/remove/clear/update/setdefault/sort/reverse/popitem/add/discard(...)`.  Passing a tracked
value to a repository function continues the walk in the callee (two levels deep).  Provenance through `deepcopy`
stops the tracking (cells are copied there).
"""
from __future__ import annotations

import ast
from typing import Dict, List, Optional, Tuple

FRAME, ROWS, COLUMN, ROW, CELL = "frame", "rows", "column", "row", "cell"
FRAME_KEEP = {"copy", "astype", "rename", "drop", "reset_index", "sort_values", "set_index", "reindex", "assign", "fillna",
              "loc", "iloc", "head", "tail", "dropna", "drop_duplicates", "infer_objects", "convert_dtypes", "sort_index"}
TO_ROWS = {"to_dict", "itertuples", "iterrows", "to_numpy", "to_records", "values"}
MUTATORS = {"append", "extend", "insert", "pop", "remove", "clear", "update", "setdefault", "sort", "reverse", "popitem", "add",
            "discard", "__setitem__", "__delitem__"}


class Hit:
    def __init__(self, line, text, chain):
        self.line, self.text, self.chain = line, text, chain


class CellWalk:
    def __init__(self, M, depth=2):
        self.M = M
        self.depth = depth

    # ------------------------------------------------------------------ seeds
    def seed_params(self, fn: ast.FunctionDef) -> Dict[str, Tuple[str, str]]:
        env = {}
        for a in fn.args.args + fn.args.kwonlyargs:
            ann = ast.unparse(a.annotation) if a.annotation is not None else ""
            if "DataFrame" in ann:
                env[a.arg] = (FRAME, a.arg)
        return env

    def level(self, e: ast.AST, env) -> Optional[Tuple[str, str]]:
        """(level, provenance) of an expression, or None if it is not derived from a chart frame"""
        if isinstance(e, ast.Name):
            return env.get(e.id)
        if isinstance(e, ast.Attribute):
            if e.attr in ("df", "_df") and not isinstance(e.value, ast.Call):
                root = e.value
                while isinstance(root, ast.Attribute):
                    root = root.value
                if isinstance(root, ast.Name) and (root.id == "self" or root.id in env.get("@params", ())):
                    return (FRAME, ast.unparse(e))
                return None
            b = self.level(e.value, env)
            if b is None:
                return None
            if b[0] == FRAME:
                if e.attr in ("values",):
                    return (ROWS, b[1])
                if e.attr in FRAME_KEEP or e.attr in ("T",):
                    return b
                return (COLUMN, b[1])
            if b[0] == COLUMN:
                return b if e.attr in ("values", "array", "iloc", "loc", "str") else None
            if b[0] == ROWS:
                return None
            if b[0] == ROW:
                return (CELL, b[1])
            return b   # cell
        if isinstance(e, ast.Subscript):
            b = self.level(e.value, env)
            if b is None:
                return None
            if b[0] == FRAME:
                sl = e.slice
                if isinstance(sl, ast.Tuple) and len(sl.elts) == 2 and not any(isinstance(x, ast.Slice) for x in sl.elts):
                    return (CELL, b[1])          # df.loc[i, col]
                if isinstance(sl, (ast.List, ast.Slice)) or (isinstance(sl, ast.Tuple)):
                    return b
                return (COLUMN, b[1])
            if b[0] == ROWS:
                return (ROW, b[1])
            if b[0] == COLUMN:
                return b if isinstance(e.slice, ast.Slice) else (CELL, b[1])
            if b[0] == ROW:
                return (CELL, b[1])
            return b
        if isinstance(e, ast.Call):
            f = e.func
            if isinstance(f, ast.Name) and f.id in ("list", "tuple", "iter", "reversed", "sorted"):
                return self.level(e.args[0], env) if e.args else None
            if isinstance(f, ast.Name) and f.id in ("enumerate", "zip"):
                return None
            if isinstance(f, ast.Attribute):
                if f.attr in ("deepcopy",):
                    return None
                b = self.level(f.value, env)
                if b is None:
                    return None
                if b[0] == FRAME:
                    if f.attr in TO_ROWS:
                        return (ROWS, b[1])
                    if f.attr in FRAME_KEEP:
                        return b
                    return None
                if b[0] == COLUMN:
                    if f.attr in ("tolist", "to_list", "to_numpy", "copy", "astype", "reset_index", "sort_values", "dropna"):
                        return b
                    return None
                if b[0] == ROWS:
                    return b if f.attr in ("copy", "tolist") else None
                if b[0] == ROW:
                    if f.attr in ("get", "values", "items", "pop", "_asdict"):
                        return (CELL, b[1]) if f.attr != "_asdict" else b
                    return None
                if b[0] == CELL:
                    if f.attr in ("copy", "deepcopy"):
                        return None if f.attr == "deepcopy" else b   # a shallow copy of a cell still shares its elements
                    return b
            return None
        if isinstance(e, ast.IfExp):
            return self.level(e.body, env) or self.level(e.orelse, env)
        if isinstance(e, ast.Starred):
            return self.level(e.value, env)
        return None

    def elem(self, lv):
        if lv is None:
            return None
        return {FRAME: (COLUMN, lv[1]), ROWS: (ROW, lv[1]), COLUMN: (CELL, lv[1]), ROW: (CELL, lv[1]), CELL: (CELL, lv[1])}[lv[0]]

    def bind_target(self, t, lv, env):
        if lv is None:
            if isinstance(t, ast.Name):
                env.pop(t.id, None)
            return
        if isinstance(t, ast.Name):
            env[t.id] = lv
        elif isinstance(t, (ast.Tuple, ast.List)):
            # `for i, row in frame.iterrows()`, `for k, v in row.items()`: every component may be the tracked one
            for x in t.elts:
                self.bind_target(x, lv, env)

    # ------------------------------------------------------------------ walk
    def run(self, qual: str, env: Optional[dict] = None, depth: Optional[int] = None, chain=()) -> List[Hit]:
        fn = self.M.funcs.get(qual)
        if fn is None:
            return []
        node = fn.node
        depth = self.depth if depth is None else depth
        if env is None:
            env = self.seed_params(node)
            env["@params"] = tuple(a.arg for a in node.args.args if a.arg not in ("self", "cls"))
        hits: List[Hit] = []
        self._block(node.body, env, hits, fn, depth, chain + (qual,))
        return hits

    def _block(self, body, env, hits, fn, depth, chain):
        for st in body:
            self._stmt(st, env, hits, fn, depth, chain)

    def _sink(self, base, env) -> Optional[Tuple[str, str]]:
        lv = self.level(base, env)
        return lv if lv is not None and lv[0] == CELL else None

    def _stmt(self, st, env, hits, fn, depth, chain):
        if isinstance(st, (ast.FunctionDef, ast.AsyncFunctionDef, ast.ClassDef)):
            return
        for n in ast.walk(st) if not isinstance(st, (ast.For, ast.While, ast.If, ast.With, ast.Try)) else [st]:
            pass
        if isinstance(st, ast.Assign):
            self._calls(st.value, env, hits, fn, depth, chain)
            lv = self.level(st.value, env)
            for t in st.targets:
                if isinstance(t, (ast.Subscript, ast.Attribute)):
                    s_ = self._sink(t.value, env)
                    if s_:
                        hits.append(Hit(st.lineno, ast.unparse(st)[:100], chain))
                else:
                    self.bind_target(t, lv, env)
            return
        if isinstance(st, ast.AugAssign):
            t = st.target
            base = t.value if isinstance(t, (ast.Subscript, ast.Attribute)) else t
            s_ = self._sink(base, env)
            if s_:
                hits.append(Hit(st.lineno, ast.unparse(st)[:100], chain))
            return
        if isinstance(st, ast.Delete):
            for t in st.targets:
                if isinstance(t, (ast.Subscript, ast.Attribute)) and self._sink(t.value, env):
                    hits.append(Hit(st.lineno, ast.unparse(st)[:100], chain))
            return
        if isinstance(st, ast.For):
            self._calls(st.iter, env, hits, fn, depth, chain)
            it = st.iter
            lv = None
            if isinstance(it, ast.Call) and isinstance(it.func, ast.Name) and it.func.id in ("enumerate", "zip"):
                for a in it.args:
                    lv = lv or self.elem(self.level(a, env))
            elif isinstance(it, ast.Call) and isinstance(it.func, ast.Attribute) and it.func.attr in ("items", "values") and \
                    self.level(it.func.value, env) is not None and self.level(it.func.value, env)[0] in (ROW, CELL):
                lv = (CELL, self.level(it.func.value, env)[1])
            else:
                lv = self.elem(self.level(it, env))
            self.bind_target(st.target, lv, env)
            self._block(st.body, env, hits, fn, depth, chain)
            self._block(st.body, env, hits, fn, depth, chain) if False else None
            self._block(st.orelse, env, hits, fn, depth, chain)
            return
        if isinstance(st, (ast.If, ast.While)):
            self._calls(st.test, env, hits, fn, depth, chain)
            e1 = dict(env)
            self._block(st.body, e1, hits, fn, depth, chain)
            e2 = dict(env)
            self._block(st.orelse, e2, hits, fn, depth, chain)
            for k in set(e1) | set(e2):
                v = e1.get(k) or e2.get(k)
                if v is not None:
                    env[k] = v
            return
        if isinstance(st, ast.With):
            self._block(st.body, env, hits, fn, depth, chain)
            return
        if isinstance(st, ast.Try):
            self._block(st.body, env, hits, fn, depth, chain)
            for h in st.handlers:
                self._block(h.body, env, hits, fn, depth, chain)
            self._block(st.orelse, env, hits, fn, depth, chain)
            self._block(st.finalbody, env, hits, fn, depth, chain)
            return
        if isinstance(st, (ast.Expr, ast.Return)):
            if st.value is not None:
                self._calls(st.value, env, hits, fn, depth, chain)
            return
        if isinstance(st, ast.AnnAssign) and st.value is not None:
            self._calls(st.value, env, hits, fn, depth, chain)
            self.bind_target(st.target, self.level(st.value, env), env)

    def _calls(self, e, env, hits, fn, depth, chain):
        """mutating method calls on cells; tracked values passed to repository functions; comprehensions"""
        for n in ast.walk(e):
            if isinstance(n, (ast.ListComp, ast.SetComp, ast.GeneratorExp, ast.DictComp)):
                e2 = dict(env)
                for g in n.generators:
                    self.bind_target(g.target, self.elem(self.level(g.iter, e2)), e2)
                inner = [n.elt] if not isinstance(n, ast.DictComp) else [n.key, n.value]
                for x in inner:
                    self._calls(x, e2, hits, fn, depth, chain)
            if not isinstance(n, ast.Call):
                continue
            f = n.func
            if isinstance(f, ast.Attribute) and f.attr in MUTATORS and self._sink(f.value, env):
                # row.pop(key) on a ROW is a read of a fresh dict; only receivers at cell level count
                hits.append(Hit(n.lineno, ast.unparse(n)[:100], chain))
                continue
            if depth <= 0:
                continue
            tracked = [(i, self.level(a, env)) for i, a in enumerate(n.args)]
            tracked = [(i, lv) for i, lv in tracked if lv is not None]
            kw = [(k.arg, self.level(k.value, env)) for k in n.keywords if k.arg]
            kw = [(k, lv) for k, lv in kw if lv is not None]
            if not tracked and not kw:
                continue
            callee = self._resolve(n, fn)
            if callee is None:
                continue
            cn = self.M.funcs[callee].node
            params = [a.arg for a in cn.args.args]
            if params and params[0] in ("self", "cls") and not self.M.funcs[callee].is_static:
                params = params[1:]
            cenv = {"@params": tuple(params)}
            for i, lv in tracked:
                if i < len(params):
                    cenv[params[i]] = lv
            for k, lv in kw:
                if k in params:
                    cenv[k] = lv
            hits.extend(self.run(callee, cenv, depth - 1, chain))

    def _resolve(self, call: ast.Call, fn) -> Optional[str]:
        f = call.func
        M = self.M
        if isinstance(f, ast.Attribute) and isinstance(f.value, ast.Name) and f.value.id in ("self", "cls") and fn.cls:
            return M.method(fn.cls, f.attr)
        if isinstance(f, ast.Attribute) and isinstance(f.value, ast.Name):
            r = M.resolve(fn.mod, f.value.id)
            if r and r[0] == "class":
                c = r[1] if isinstance(r[1], str) else getattr(r[1], "qual", None)
                return M.method(c, f.attr) if c else None
        if isinstance(f, ast.Name):
            r = M.resolve(fn.mod, f.id)
            if r and r[0] == "func":
                q = r[1] if isinstance(r[1], str) else getattr(r[1], "qual", None)
                return q if q in M.funcs else None
        return None


CONTROL_SRC = '''
class L:
    def to_yaml(self):
        df = self.df.copy()
        recs = df.astype(dict(offset=int)).rename(dict(offset="StartTime"), axis=1).to_dict("records")
        for r in recs:
            r["x"] = 1                      # a fresh dict: fine
            for ks in r["KeySounds"]:
                if ks.get("Volume") == 100:
                    del ks["Volume"]        # the chart's own cell object
        return recs
'''


def control() -> bool:
    """positive control: the walk flags the nested delete and nothing else"""
    import types
    tree = ast.parse(CONTROL_SRC)
    fn = tree.body[0].body[0]
    M = types.SimpleNamespace(funcs={"ctl.L.to_yaml": types.SimpleNamespace(node=fn, cls="ctl.L", mod="ctl", is_static=False)},
                              method=lambda c, n: None, resolve=lambda m, n: None)
    hits = CellWalk(M).run("ctl.L.to_yaml")
    return len(hits) == 1 and "del ks" in hits[0].text
