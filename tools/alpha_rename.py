#!/usr/bin/env python3
"""alpha_rename.py [Cxx ...] — robustness probe: rename every local variable of every function a check consults.

For each property, the functions its rules ask the model for (Model.fn / Model.nfn, recorded during one run on the unmodified
tree) are rewritten one at a time, IN MEMORY, with every local name `x` (not a parameter, not a global / nonlocal / imported name)
renamed to `x_r` throughout the function — a behaviour-preserving edit by construction.  The property's rules are re-evaluated on
the overlay; a new violation or a new analysis error is reported.  Nothing is executed, /repo is not touched.

    python3-vt tools/alpha_rename.py C17        ->  one line per (function) with an alarm, and a summary
"""
import ast, os, sys, pathlib
from concurrent.futures import ProcessPoolExecutor
sys.path.insert(0, str(pathlib.Path(__file__).resolve().parent.parent))
ROOT = os.environ.get("REPO", "/repo")
ALL = "C01 C02 C03 C04 C05 C06 C07 C08 C09 C10 C12 C13 C14 C15 C16 C17 C18 C19 C20".split()


def consulted(pid):
    from sa.check import Ctx, prop_module
    from sa import report as R
    from sa.model import Model
    seen = []
    of, onf = Model.fn, Model.nfn

    def fn(self, q):
        seen.append(q)
        return of(self, q)

    def nfn(self, q, *a, **k):
        seen.append(q)
        return onf(self, q, *a, **k)
    Model.fn, Model.nfn = fn, nfn
    try:
        ctx = Ctx(ROOT)
        mod = prop_module(pid)
        specs = [s for s in mod.SPECS if not s.rid.endswith(".D")]       # own rules only: inherited ones are probed at their home
        out = R.evaluate(pid, "quick", specs, ctx, R.load_known())
    finally:
        Model.fn, Model.nfn = of, onf
    base = (sorted({(i.rule, i.key) for i in out.violations}), sorted(out.errors))
    quals = []
    for q in seen:
        if q in ctx.M.funcs and q not in quals and ctx.M.funcs[q].outer_fn is None and "Property" not in q:
            quals.append(q)
    return quals, base, {q: (ctx.M.mods[ctx.M.funcs[q].mod].rel, ctx.M.funcs[q].node.lineno, ctx.M.funcs[q].node.name) for q in quals}


def rename_locals(src: str, lineno: int, name: str):
    tree = ast.parse(src)
    target = None
    for n in ast.walk(tree):
        if isinstance(n, (ast.FunctionDef, ast.AsyncFunctionDef)) and n.lineno == lineno and n.name == name:
            target = n
    if target is None:
        return None
    params = {a.arg for a in target.args.posonlyargs + target.args.args + target.args.kwonlyargs}
    if target.args.vararg:
        params.add(target.args.vararg.arg)
    if target.args.kwarg:
        params.add(target.args.kwarg.arg)
    skip = set(params)
    for n in ast.walk(target):
        if isinstance(n, (ast.Global, ast.Nonlocal)):
            skip |= set(n.names)
        if isinstance(n, (ast.FunctionDef, ast.ClassDef)) and n is not target:
            skip.add(n.name)
            if isinstance(n, ast.FunctionDef):
                skip |= {a.arg for a in n.args.posonlyargs + n.args.args + n.args.kwonlyargs}
        if isinstance(n, ast.Lambda):
            skip |= {a.arg for a in n.args.args}
        if isinstance(n, (ast.Import, ast.ImportFrom)):
            skip |= {(a.asname or a.name).split(".")[0] for a in n.names}
    stored = {n.id for n in ast.walk(target) if isinstance(n, ast.Name) and isinstance(n.ctx, (ast.Store, ast.Del))} - skip - {"_"}
    if not stored:
        return None
    # rewrite by position so that formatting / comments stay
    edits = []
    for n in ast.walk(target):
        if isinstance(n, ast.Name) and n.id in stored:
            edits.append((n.lineno, n.col_offset, n.end_col_offset, n.id))
    lines = src.split("\n")
    for ln, c0, c1, nm in sorted(set(edits), reverse=True):
        line = lines[ln - 1]
        # col offsets are in UTF-8 bytes
        b = line.encode("utf8")
        if b[c0:c1].decode("utf8") != nm:
            return None
        lines[ln - 1] = (b[:c0] + (nm + "_r").encode() + b[c1:]).decode("utf8")
    out = "\n".join(lines)
    try:
        compile(out, "x", "exec")
    except SyntaxError:
        return None
    return out, sorted(stored)


def job(args):
    pid, q, rel, lineno, name, base = args
    from sa.check import Ctx, prop_module
    from sa import report as R
    src = (pathlib.Path(ROOT) / rel).read_text(encoding="utf8")
    r = rename_locals(src, lineno, name)
    if r is None:
        return q, "skipped", ""
    new_src, names = r
    mod = prop_module(pid)
    specs = [s for s in mod.SPECS if not s.rid.endswith(".D")]
    try:
        ctx = Ctx(ROOT, overlay={rel: new_src})
        out = R.evaluate(pid, "quick", specs, ctx, R.load_known())
        viol = sorted({(i.rule, i.key) for i in out.violations})
        err = sorted(out.errors)
    except Exception as e:
        viol, err = [], [f"{type(e).__name__}: {e}"]
    nv = [v for v in viol if v not in base[0]]
    ne = [e for e in err if e not in base[1]]
    if nv:
        return q, "VIOLATION", f"{nv[:2]} (renamed {names[:6]})"
    if ne:
        return q, "undecided", f"{ne[0][:160]} (renamed {names[:6]})"
    return q, "silent", ""


def main():
    pids = sys.argv[1:] or ALL
    tot = dict(silent=0, VIOLATION=0, undecided=0, skipped=0)
    for pid in pids:
        quals, base, info = consulted(pid)
        jobs = [(pid, q, *info[q], base) for q in quals]
        with ProcessPoolExecutor(max_workers=min(16, max(1, len(jobs)))) as ex:
            res = list(ex.map(job, jobs))
        c = dict(silent=0, VIOLATION=0, undecided=0, skipped=0)
        for q, st, what in res:
            c[st] += 1
            tot[st] += 1
            if st in ("VIOLATION", "undecided"):
                print(f"{pid} {st:9} {q.replace('reamber.', '')}: {what[:230]}")
        print(f"== {pid}: functions consulted {len(quals)}: {c}")
    print("TOTAL", tot)
    return 1 if tot["VIOLATION"] or tot["undecided"] else 0


if __name__ == "__main__":
    sys.exit(main())
