"""Maintenance helper for /verif/known_findings.json (never used by a check run).

  python3-vt -m sa.known known <finding> <props,comma> <fid> <what fails> [-- why recorded]
  python3-vt -m sa.known fixed <finding> <props,comma> <commit> <rule> <what failed>
"""
import json, sys, pathlib
P = pathlib.Path(__file__).resolve().parent.parent / "known_findings.json"


def main(a):
    d = json.loads(P.read_text())
    if a[0] == "known":
        finding, props, fid, what = a[1], a[2].split(","), a[3], a[4]
        why = a[5] if len(a) > 5 else ""
        d["known"] = [e for e in d["known"] if e["fid"] != fid]
        d["known"].append(dict(finding=finding, properties=props, fid=fid, what=what, why_recorded=why))
    elif a[0] == "fixed":
        finding, props, commit, rule, what = a[1], a[2].split(","), a[3], a[4], a[5]
        d["fixed"] = [e for e in d["fixed"] if e.get("finding") != finding]
        for p in props:
            pass
        d["fixed"].append(dict(entry="; ".join(f"fixed: property={p} {commit} {what}" for p in props),
                               finding=finding, properties=props, commit=commit, rule=rule))
    d["known"].sort(key=lambda e: e["finding"])
    d["fixed"].sort(key=lambda e: e["finding"])
    P.write_text(json.dumps(d, indent=1) + "\n")


if __name__ == "__main__":
    main(sys.argv[1:])
