"""Demo for change 1: OsuMap.read / OsuMap.write (section table + one list display)."""
import dataclasses
import hashlib
import os
import random
import tempfile

import numpy as np
import pandas as pd

from reamber.osu.OsuMap import OsuMap
from reamber.osu.OsuHit import OsuHit
from reamber.osu.OsuHold import OsuHold
from reamber.osu.OsuBpm import OsuBpm
from reamber.osu.OsuSv import OsuSv
from reamber.osu.OsuSample import OsuSample
from reamber.osu.lists.OsuBpmList import OsuBpmList
from reamber.osu.lists.OsuSvList import OsuSvList
from reamber.osu.lists.OsuSampleList import OsuSampleList
from reamber.osu.lists.notes.OsuHitList import OsuHitList
from reamber.osu.lists.notes.OsuHoldList import OsuHoldList

random.seed(20261001)
OUT = []


def emit(*a):
    OUT.append(" | ".join(str(x) for x in a))


def dump_df(tag, df):
    emit(tag, "cols", list(df.columns))
    emit(tag, "dtypes", [str(t) for t in df.dtypes])
    emit(tag, "index", type(df.index).__name__, list(df.index))
    for row in df.itertuples(index=False):
        emit(tag, "row", [(type(v).__name__, repr(v)) for v in row])


def dump_map(tag, m):
    for name in ("hits", "holds", "bpms", "svs", "samples"):
        lst = getattr(m, name)
        emit(tag, name, type(lst).__name__)
        dump_df(tag + "." + name, lst.df)
    for f in dataclasses.fields(m):
        if f.name in ("objs", "samples"):
            continue
        v = getattr(m, f.name)
        emit(tag, "meta", f.name, type(v).__name__, repr(v))
    emit(tag, "objs-keys", list(m.objs.keys()))


def attempt(tag, fn):
    try:
        return fn()
    except BaseException as e:  # noqa
        emit(tag, "RAISED", type(e).__name__, repr(e.args),
             "ctx=" + type(e.__context__).__name__,
             "cause=" + type(e.__cause__).__name__)
        return None


TITLES = ["Plain", "Re:Start: again", "夜に駆ける", "Ünïcödé: ß", "a:b:c", "  padded  ", ""]
FILES = ["", "hit.wav", "soft-hitclap2.ogg", "音.wav", "a b.wav"]


def rand_time():
    r = random.random()
    if r < 0.15:
        return random.randint(-5000, -1)
    if r < 0.3:
        return random.randint(10**7, 2 * 10**9)
    return random.randint(0, 300000)


def gen_text(keys, n_hit, n_hold, n_bpm, n_sv, n_sample, pad=False, crlf=False):
    L = ["osu file format v14", "", "[General]",
         "AudioFilename: " + random.choice(["audio.mp3", "曲: a.mp3", "x:y.ogg"]),
         "AudioLeadIn: %d" % random.choice([0, 500]),
         "PreviewTime: %d" % random.choice([-1, 0, 12345]),
         "Countdown: %d" % random.randint(0, 1),
         "SampleSet: " + random.choice(["Normal", "Soft", "Drum", "None"]),
         "StackLeniency: 0.7", "Mode: 3",
         "LetterboxInBreaks: %d" % random.randint(0, 1),
         "SpecialStyle: %d" % random.randint(0, 1),
         "WidescreenStoryboard: %d" % random.randint(0, 1),
         "", "[Editor]", "DistanceSpacing: 1.2", "BeatDivisor: %d" % random.choice([1, 4, 16]),
         "GridSize: 4", "TimelineZoom: 2.5", "", "[Metadata]",
         "Title:" + random.choice(TITLES), "TitleUnicode:" + random.choice(TITLES),
         "Artist:" + random.choice(TITLES), "ArtistUnicode:" + random.choice(TITLES),
         "Creator:" + random.choice(TITLES), "Version:" + random.choice(TITLES),
         "Source:" + random.choice(TITLES),
         "Tags:" + random.choice(["", "a b c", "tag:one  two", "東方 vs"]),
         "BeatmapID:%d" % random.randint(0, 999999), "BeatmapSetID:%d" % random.choice([-1, 5]),
         "", "[Difficulty]", "HPDrainRate:%g" % random.choice([0, 7.5, 10]),
         "CircleSize:%d" % keys, "OverallDifficulty:8", "ApproachRate:5",
         "SliderMultiplier:1.4", "SliderTickRate:1", "", "[Events]",
         "//Background and Video events", '0,0,"%s",0,0' % random.choice(["bg.jpg", "背景: 1.png", ""]),
         "//Break Periods", "//Storyboard Layer 0 (Background)",
         "//Storyboard Sound Samples"]
    for _ in range(n_sample):
        if random.random() < 0.5:
            L.append('Sample,%d,0,"%s",%d' % (rand_time(), random.choice(FILES), random.randint(0, 100)))
        else:
            L.append('Sample,%d,0,"%s"' % (rand_time(), random.choice(FILES)))
    L += ["", "[TimingPoints]"]
    tps = []
    for _ in range(n_bpm):
        code = random.choice([500, 333.333333333333, 0.5, 1e6, 428.571428571429, -250])
        t = random.choice([rand_time(), rand_time() + 0.5, rand_time() + 0.125])
        tps.append("%r,%r,%d,%d,%d,%d,1,%d" % (t, code, random.choice([3, 4, 7]),
                   random.randint(0, 3), random.randint(0, 9), random.randint(0, 100),
                   random.choice([0, 1, 8, 9])))
    for _ in range(n_sv):
        code = random.choice([-100, -50, -200, -33.3333333333333, -1000, -10, 25])
        t = random.choice([rand_time(), rand_time() + 0.25])
        tps.append("%r,%r,4,%d,%d,%d,0,%d" % (t, code, random.randint(0, 3),
                   random.randint(0, 9), random.randint(0, 100), random.choice([0, 1, 8, 9])))
    random.shuffle(tps)
    L += tps
    L += ["", "", "[HitObjects]"]
    hos = []
    shared = [rand_time() for _ in range(3)]
    for _ in range(n_hit):
        col = random.randrange(keys)
        lo, hi = -(-512 * col // keys), (512 * (col + 1) - 1) // keys
        x = random.choice([lo, hi, random.randint(lo, hi)])
        t = random.choice(shared + [rand_time()] * 3)
        hos.append("%d,192,%d,%d,%d,%d:%d:%d:%d:%s" % (
            x, t, random.choice([1, 5]), random.choice([0, 2, 4, 8, 14]),
            random.randint(0, 3), random.randint(0, 3), random.randint(0, 9),
            random.randint(0, 100), random.choice(FILES)))
    for _ in range(n_hold):
        col = random.randrange(keys)
        lo, hi = -(-512 * col // keys), (512 * (col + 1) - 1) // keys
        x = random.choice([lo, hi, random.randint(lo, hi)])
        t = random.choice(shared + [rand_time()] * 3)
        hos.append("%d,192,%d,128,%d,%d:%d:%d:%d:%d:%s" % (
            x, t, random.choice([0, 2, 4, 8, 14]), t + random.choice([0, 1, 250, 100000]),
            random.randint(0, 3), random.randint(0, 3), random.randint(0, 9),
            random.randint(0, 100), random.choice(FILES)))
    random.shuffle(hos)
    L += hos
    if random.random() < 0.5:
        L.append("")
    if pad:
        L = [random.choice(["", " ", "\t"]) + l + random.choice(["", "  ", "\r"]) for l in L]
    if crlf:
        L = [l + "\r" for l in L]
    return L


def cycle(tag, lines, gens=3):
    """read -> (write -> read) * gens, dumping everything, checking non-mutation."""
    before = list(lines) if not isinstance(lines, tuple) else tuple(lines)
    m = attempt(tag + ".read", lambda: OsuMap.read(lines))
    emit(tag, "input-unchanged", lines == before, type(lines).__name__)
    if m is None:
        return
    dump_map(tag + ".g0", m)
    for g in range(1, gens + 1):
        snap = m.deepcopy()
        w = attempt(tag + ".write%d" % g, m.write)
        if w is None:
            return
        emit(tag, "write-type", type(w).__name__, len(w), [type(x).__name__ for x in w[:1]])
        emit(tag, "fresh-list", w is not m.write())
        for i, l in enumerate(w):
            emit(tag + ".w%d" % g, i, repr(l))
        # writing must not modify the chart
        for name in ("hits", "holds", "bpms", "svs", "samples"):
            a, b = getattr(m, name).df, getattr(snap, name).df
            emit(tag, "write-nomut", name, a.equals(b), list(a.dtypes) == list(b.dtypes),
                 list(a.index) == list(b.index))
        m = attempt(tag + ".reread%d" % g, lambda: OsuMap.read("\n".join(w).split("\n")))
        if m is None:
            return
        dump_map(tag + ".g%d" % g, m)


# ---- 1. generated well-formed texts: all key counts, sizes incl. empty sections
case = 0
for keys in range(1, 19):
    for shape in ((5, 4, 2, 3, 2), (0, 0, 1, 0, 0)) if keys % 3 else ((12, 9, 3, 6, 3), (0, 6, 1, 0, 1), (7, 0, 0, 2, 0)):
        case += 1
        cycle("gen%02d.k%d" % (case, keys), gen_text(keys, *shape, pad=case % 4 == 0, crlf=case % 5 == 0),
              gens=2 if case % 2 else 3)

# ---- 2. structural edge cases for the section split
base = gen_text(7, 4, 3, 2, 2, 1)
ix_tp, ix_ho = base.index("[TimingPoints]"), base.index("[HitObjects]")
meta, tps, hos = base[:ix_tp], base[ix_tp + 1:ix_ho], base[ix_ho + 1:]
edge = {
    "empty-list": [],
    "only-blank": ["", "  "],
    "no-tp": meta + ["[HitObjects]"] + hos,
    "no-ho": meta + ["[TimingPoints]"] + tps,
    "no-both": meta + tps + hos,
    "only-headers": ["[TimingPoints]", "[HitObjects]"],
    "headers-reversed-only": ["[HitObjects]", "[TimingPoints]"],
    "ho-before-tp": meta + ["[HitObjects]"] + hos + ["[TimingPoints]"] + tps,
    "dup-tp": meta + ["[TimingPoints]"] + tps[:1] + ["[TimingPoints]"] + tps[1:] + ["[HitObjects]"] + hos,
    "dup-ho": meta + ["[TimingPoints]"] + tps + ["[HitObjects]"] + hos[:2] + ["[HitObjects]"] + hos[2:],
    "tp-after-ho-too": meta + ["[TimingPoints]"] + tps + ["[HitObjects]"] + hos + ["[TimingPoints]"] + tps,
    "padded-headers": meta + ["  [TimingPoints]\r"] + tps + ["\t[HitObjects]  "] + hos,
    "case-wrong-header": meta + ["[timingpoints]"] + tps + ["[HitObjects]"] + hos,
    "adjacent-headers": meta + ["[TimingPoints]", "[HitObjects]"] + hos,
    "ho-last-line": meta + ["[TimingPoints]"] + tps + ["[HitObjects]"],
    "tp-first-line": ["[TimingPoints]"] + tps + ["[HitObjects]"] + hos,
    "notes-in-tp-section": meta + ["[TimingPoints]"] + tps + hos + ["[HitObjects]"] + tps + hos,
    "junk-lines": meta + ["[TimingPoints]", "junk", "1,2,3"] + tps + ["[HitObjects]", "what", "1,2,3,4,5,6"] + hos,
    "bad-bpm-zero": meta + ["[TimingPoints]", "0,0,4,1,0,50,1,0", "[HitObjects]"] + hos,
    "bad-note-x": meta + ["[TimingPoints]"] + tps + ["[HitObjects]", "abc,192,5,1,0,0:0:0:0:"],
    "bad-circle-size": [l if not l.startswith("CircleSize") else "CircleSize:x" for l in base],
    "zero-keys": [l if not l.startswith("CircleSize") else "CircleSize:0" for l in base],
    "float-keys": [l if not l.startswith("CircleSize") else "CircleSize:7.9" for l in base],
    "meta-after-tp-ignored": meta + ["[TimingPoints]", "Title:late"] + tps + ["[HitObjects]", "CircleSize:3"] + hos,
}
for name, lines in edge.items():
    cycle("edge." + name, lines, gens=2)
cycle("edge.tuple-input", tuple(base), gens=1)
attempt("edge.none", lambda: OsuMap.read(None))
attempt("edge.nonstr", lambda: OsuMap.read(["[TimingPoints]", 5, "[HitObjects]"]))
attempt("edge.str-input", lambda: dump_map("edge.str-input", OsuMap.read("[TimingPoints]")))

# ---- 3. in-memory charts -> write: unsorted rows, ties between hits & holds, fractions, empties
def rand_off():
    return random.choice([rand_time() + random.choice([0.0, 0.25, 0.999, 0.5]), float(random.randint(0, 20) * 100)])


for c in range(24):
    keys = random.randint(1, 18)
    m = OsuMap()
    m.circle_size = random.choice([keys, float(keys)])
    m.title = random.choice(TITLES)
    m.title_unicode = random.choice(TITLES)
    m.artist_unicode = random.choice(TITLES)
    m.version = random.choice(TITLES)
    m.tags = random.choice([[], ["a", "b"], ["東方"]])
    nh, nl, nb, ns, nsm = [(6, 5, 2, 3, 2), (0, 0, 0, 0, 0), (4, 0, 1, 0, 0), (0, 4, 1, 2, 1)][c % 4]
    ties = [float(random.randint(0, 5) * 1000) for _ in range(2)]
    hits = [OsuHit(random.choice(ties + [rand_off()] * 2), random.randrange(keys),
                   hitsound_set=random.choice([0, 2, 8]), sample_set=random.randint(0, 3),
                   addition_set=random.randint(0, 3), custom_set=random.randint(0, 5),
                   volume=random.randint(0, 100), hitsound_file=random.choice(FILES)) for _ in range(nh)]
    holds = [OsuHold(random.choice(ties + [rand_off()] * 2), random.randrange(keys),
                     random.choice([0.0, 0.4, 100.0, 12345.75]),
                     hitsound_set=random.choice([0, 2, 8]), sample_set=random.randint(0, 3),
                     addition_set=random.randint(0, 3), custom_set=random.randint(0, 5),
                     volume=random.randint(0, 100), hitsound_file=random.choice(FILES)) for _ in range(nl)]
    bpms = [OsuBpm(rand_off(), random.choice([120.0, 180.0, 0.06, -240.0, 173.3, 1e5]),
                   metronome=random.choice([3, 4]), sample_set=random.randint(0, 3),
                   sample_set_index=random.randint(0, 3), volume=random.randint(0, 100),
                   kiai=random.random() < 0.5) for _ in range(nb)]
    svs = [OsuSv(rand_off(), random.choice([1.0, 0.5, 2.0, 3.0, 0.1, 10.0, -4.0, 1.37]),
                 sample_set=random.randint(0, 3), sample_set_index=random.randint(0, 3),
                 volume=random.randint(0, 100), kiai=random.random() < 0.5) for _ in range(ns)]
    sms = [OsuSample(rand_off(), random.choice(FILES), random.randint(0, 100)) for _ in range(nsm)]
    m.hits, m.holds = OsuHitList(hits), OsuHoldList(holds)
    m.bpms, m.svs, m.samples = OsuBpmList(bpms), OsuSvList(svs), OsuSampleList(sms)
    if c % 6 == 5 and nh:
        # a non-default row index must not matter
        m.hits = OsuHitList(m.hits.df.set_axis([10 + 3 * i for i in range(nh)][::-1]))
    tag = "mem%02d.k%d" % (c, keys)
    dump_map(tag + ".orig", m)
    snap = m.deepcopy()
    w1 = attempt(tag + ".write", m.write)
    if w1 is None:
        continue
    for i, l in enumerate(w1):
        emit(tag + ".w", i, repr(l))
    emit(tag, "idempotent", w1 == m.write(), type(w1).__name__)
    for name in ("hits", "holds", "bpms", "svs", "samples"):
        a, b = getattr(m, name).df, getattr(snap, name).df
        emit(tag, "write-nomut", name, a.equals(b), list(a.dtypes) == list(b.dtypes), list(a.index) == list(b.index))
    cycle(tag + ".cyc", "\n".join(w1).split("\n"), gens=2)
    if c % 5 == 0:
        with tempfile.TemporaryDirectory() as d:
            p = os.path.join(d, "m.osu")
            m.write_file(p)
            raw = open(p, "rb").read()
            emit(tag, "file-sha", hashlib.sha256(raw).hexdigest(), len(raw))
            dump_map(tag + ".file", OsuMap.read_file(p))

# zero keys with and without notes; wrong key count
m = OsuMap(); m.circle_size = 0
attempt("mem.zero-keys-empty", lambda: emit("mem.zero-keys-empty", len(m.write())))
m.hits = OsuHitList([OsuHit(0.0, 0)])
attempt("mem.zero-keys-hit", m.write)
m = OsuMap(); m.circle_size = float("nan")
attempt("mem.nan-keys-empty", lambda: emit("mem.nan-keys-empty", len(m.write())))
m.holds = OsuHoldList([OsuHold(0.0, 0, 5.0)])
attempt("mem.nan-keys-hold", m.write)
m = OsuMap(); m.bpms = OsuBpmList([OsuBpm(0.0, 0.0)])
attempt("mem.zero-bpm", m.write)
m = OsuMap(); m.svs = OsuSvList([OsuSv(0.0, 0.0)])
attempt("mem.zero-sv", m.write)

text = "\n".join(OUT)
import sys, reamber; print("LINES", len(OUT), reamber.__file__, file=sys.stderr)
print("DIGEST", hashlib.sha256(text.encode("utf8")).hexdigest())
if os.environ.get("DEMO_DUMP"):
    open(os.environ["DEMO_DUMP"], "w", encoding="utf8").write(text)
