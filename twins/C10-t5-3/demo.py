"""Behaviour digest for the timing engine (property C10).

Run as:  cd /tmp/wt6/C10 && PYTHONPATH=/tmp/wt6/C10 /venv/bin/python demo.py

Prints one line `DIGEST <sha256>` over a canonical dump of everything the timing
engine returns (values, python/numpy types, dtypes, shapes, order), the exception
types it raises, the warnings it logs, and the state of every argument after the
call (mutation / non mutation).

FOCUS selects which part gets the largest share of generated inputs:
    "order"  -> TimingMap.offsets / TimingMap.snaps (result order, duplicates)
    "beats"  -> TimingMap.beats (cumulative beats)
    "build"  -> TimingMap.from_bpm_changes_snap (+ reseat) / from_bpm_changes_offset
"""
from __future__ import annotations

import hashlib
import logging
import random
from copy import deepcopy
from fractions import Fraction

import numpy as np

from reamber.algorithms.timing.TimingMap import TimingMap
from reamber.algorithms.timing.utils.BpmChangeOffset import BpmChangeOffset
from reamber.algorithms.timing.utils.BpmChangeSnap import BpmChangeSnap
from reamber.algorithms.timing.utils.Snapper import Snapper
from reamber.algorithms.timing.utils.Snapper import snap as snap_fn
from reamber.algorithms.timing.utils.bpm_changes_offset_to_snap import (
    bpm_changes_offset_to_snap,
)
from reamber.algorithms.timing.utils.from_bpm_changes_offset import (
    from_bpm_changes_offset,
)
from reamber.algorithms.timing.utils.from_bpm_changes_snap import from_bpm_changes_snap
from reamber.algorithms.timing.utils.snap import Snap
from reamber.base.Bpm import Bpm
from reamber.base.lists.BpmList import BpmList

FOCUS = "build"
SEED = 30303

OUT: list[str] = []


# --------------------------------------------------------------------------- #
# canonical dump
# --------------------------------------------------------------------------- #
def canon(o) -> str:
    if isinstance(o, np.ndarray):
        return (
            f"ndarray<{o.dtype}>{o.shape}["
            + ",".join(canon(x) for x in o.flat)
            + "]"
        )
    if isinstance(o, Snap):
        return f"Snap({canon(o.measure)}|{canon(o.beat)}|{canon(o.metronome)})"
    if isinstance(o, BpmChangeSnap):
        return f"BCS({canon(o.bpm)}|{canon(o.metronome)}|{canon(o.snap)})"
    if isinstance(o, BpmChangeOffset):
        return f"BCO({canon(o.bpm)}|{canon(o.metronome)}|{canon(o.offset)})"
    if isinstance(o, TimingMap):
        sn = o.snapper
        sn_digest = hashlib.sha256(
            np.stack([sn.val, sn.num, sn.den]).tobytes()
        ).hexdigest()[:16]
        return f"TM({canon(o.bpm_changes_offset)}|snapper={len(sn.val)}:{sn_digest})"
    if isinstance(o, Fraction):
        return f"Fraction:{o.numerator}/{o.denominator}"
    if isinstance(o, (list, tuple)):
        return (
            type(o).__name__ + "[" + ",".join(canon(x) for x in o) + "]"
        )
    return f"{type(o).__name__}:{o!r}"


class _Capture(logging.Handler):
    def __init__(self):
        super().__init__(level=logging.DEBUG)
        self.records: list[str] = []

    def emit(self, record):
        self.records.append(f"{record.levelname}:{record.getMessage()}")


CAPTURE = _Capture()
logging.getLogger().addHandler(CAPTURE)
logging.getLogger().setLevel(logging.DEBUG)


def record(label: str, fn, *inputs_after):
    """Runs fn(), records result or exception type, logged messages, and the
    state of the given input objects afterwards."""
    CAPTURE.records.clear()
    try:
        res = canon(fn())
    except Exception as e:  # noqa
        res = f"RAISED {type(e).__name__}"
    OUT.append(
        f"{label} => {res} || logs={CAPTURE.records!r} || after="
        + " ; ".join(canon(i) for i in inputs_after)
    )


# --------------------------------------------------------------------------- #
# generators
# --------------------------------------------------------------------------- #
BPMS = [60, 120, 150, 174.5, 200, 33.3, 240, 90.0, 60000, 1, 999.99, 128, 0.5]
INITIALS = [0, 0.0, -1000, -37.5, 250, 12345.678, -0.001, 1e-9]
DIVS = [1, 2, 3, 4, 5, 6, 7, 8, 9, 12, 16, 32, 64, 96]
SNAPPER = Snapper()
SNAPPER_SMALL = Snapper(divisions=(1, 2, 4))


def rand_bpm(rng):
    return rng.choice(BPMS) if rng.random() < 0.7 else rng.uniform(20, 400)


def rand_initial(rng):
    return rng.choice(INITIALS) if rng.random() < 0.7 else rng.uniform(-5000, 5000)


def rand_frac_beat(rng, upper=1):
    d = rng.choice(DIVS)
    return Fraction(rng.randrange(0, d * upper), d)


def gen_bcs_on_measures(rng, n, const_metronome=None):
    """Bpm changes in snaps, all on measure boundaries (on grid)."""
    measure = 0
    out = []
    for i in range(n):
        met = const_metronome or rng.randint(1, 8)
        out.append(BpmChangeSnap(rand_bpm(rng), met, Snap(measure, 0, met)))
        measure += rng.randint(1, 5)
    return out


def gen_bcs_off_measures(rng, n):
    """Bpm changes in snaps, some off the measure boundary (needs reseat)."""
    measure = 0
    out = []
    for i in range(n):
        met = rng.randint(1, 8)
        beat = 0 if i == 0 or rng.random() < 0.4 else rand_frac_beat(rng, met)
        out.append(BpmChangeSnap(rand_bpm(rng), met, Snap(measure, beat, met)))
        measure += rng.randint(1, 4)
    return out


def gen_tm(rng, n, const_metronome=None):
    bcs_s = gen_bcs_on_measures(rng, n, const_metronome)
    rng.shuffle(bcs_s)
    return TimingMap.from_bpm_changes_snap(rand_initial(rng), bcs_s, reseat=False)


def gen_bco_arbitrary(rng, n):
    """Bpm changes in ms at arbitrary (possibly off grid / tied) offsets."""
    offset = rand_initial(rng)
    out = []
    for i in range(n):
        out.append(BpmChangeOffset(rand_bpm(rng), rng.randint(1, 8), offset))
        r = rng.random()
        if r < 0.15:
            pass  # tie
        elif r < 0.6:
            offset += rng.randint(1, 4) * out[-1].measure_length
        else:
            offset += rng.uniform(1, 5000)
    rng.shuffle(out)
    return out


def gen_query_offsets(rng, tm: TimingMap, k):
    """Offsets at or after the first tempo change: on grid, off grid, duplicated."""
    bco_s = sorted(tm.bpm_changes_offset, key=lambda x: x.offset)
    first, last = bco_s[0].offset, bco_s[-1].offset
    qs = []
    for _ in range(k):
        r = rng.random()
        if r < 0.45:
            # on grid of a random section
            b = rng.choice(bco_s)
            qs.append(
                b.offset
                + b.beat_length * (rng.randint(0, 3 * int(b.metronome)) + rand_frac_beat(rng))
            )
        elif r < 0.6:
            qs.append(rng.choice(bco_s).offset)  # exactly on a tempo change
        elif r < 0.85:
            qs.append(rng.uniform(first, last + 10000))
        elif qs:
            qs.append(rng.choice(qs))  # duplicate
        else:
            qs.append(first)
    qs = [q if q >= first else first for q in qs]
    rng.shuffle(qs)
    return qs


def gen_query_snaps(rng, tm: TimingMap, k):
    bcs_s = tm.bpm_changes_snap()
    last_measure = bcs_s[-1].snap.measure
    qs = []
    for _ in range(k):
        r = rng.random()
        if r < 0.5:
            qs.append(
                Snap(rng.randint(0, last_measure + 4), rand_frac_beat(rng), None)
            )
        elif r < 0.65:
            s = rng.choice(bcs_s).snap
            qs.append(Snap(s.measure, s.beat, s.metronome))
        elif r < 0.85:
            b = rng.choice(bcs_s)
            qs.append(
                Snap(
                    b.snap.measure + rng.randint(0, 2),
                    rand_frac_beat(rng, int(b.metronome)),
                    b.metronome,
                )
            )
        elif qs:
            qs.append(deepcopy(rng.choice(qs)))
        else:
            qs.append(Snap(0, 0, None))
    rng.shuffle(qs)
    return qs


# --------------------------------------------------------------------------- #
# sections
# --------------------------------------------------------------------------- #
def section_order(rng, cases):
    """TimingMap.offsets / TimingMap.snaps / round trips"""
    for c in range(cases):
        n = rng.randint(1, 6)
        tm = gen_tm(rng, n)
        snapper = SNAPPER if c % 5 else SNAPPER_SMALL
        record(f"order{c}.tm", lambda: tm)
        record(f"order{c}.bcs", lambda: tm.bpm_changes_snap(), tm.bpm_changes_offset)

        q_snaps = gen_query_snaps(rng, tm, rng.choice([0, 1, 2, 7, 20]))
        record(f"order{c}.offsets", lambda: tm.offsets(q_snaps), q_snaps, tm)
        record(
            f"order{c}.offsets.tuple", lambda: tm.offsets(tuple(q_snaps)), q_snaps
        )

        q_offs = gen_query_offsets(rng, tm, rng.choice([0, 1, 2, 7, 20]))
        record(f"order{c}.snaps", lambda: tm.snaps(q_offs, snapper), q_offs, tm)
        q_arr = np.array(q_offs)
        record(f"order{c}.snaps.arr", lambda: tm.snaps(q_arr, snapper), q_arr)
        q_int = [int(q) + 1 for q in q_offs]
        record(f"order{c}.snaps.int", lambda: tm.snaps(q_int, snapper), q_int)

        # round trip: ms -> snap -> ms
        def roundtrip():
            s = tm.snaps(q_offs, snapper)
            return [s, tm.offsets(list(s)), tm.offsets(s)]

        record(f"order{c}.roundtrip", roundtrip, q_offs, tm)

        # queries before the first tempo change (outside the domain; exception type)
        first = tm.bpm_changes_offset[0].offset
        q_bad = q_offs + [first - 1]
        record(f"order{c}.snaps.before", lambda: tm.snaps(q_bad, snapper), q_bad)

        for o in q_offs[:3]:
            record(f"order{c}.active_o", lambda: tm.get_active_bpm_by_offset(o))
        for s in q_snaps[:3]:
            record(f"order{c}.active_s", lambda: tm.get_active_bpm_by_snap(s))
        record(
            f"order{c}.active_o.before",
            lambda: tm.get_active_bpm_by_offset(first - 1),
        )
        if q_offs:
            objs = [f"o{i}" for i in range(len(q_offs))]
            record(
                f"order{c}.snap_objects",
                lambda: [
                    (str(col), str(v.dtype), [canon(x) for x in v])
                    for col, v in tm.snap_objects(q_offs, objs, snapper).items()
                ],
                q_offs,
                objs,
            )


def section_beats(rng, cases):
    """TimingMap.beats with constant (and, recorded only, mixed) metronomes"""
    for c in range(cases):
        n = rng.randint(1, 6)
        const = rng.randint(1, 8) if c % 4 else None
        tm = gen_tm(rng, n, const)
        snapper = SNAPPER if c % 5 else SNAPPER_SMALL
        record(f"beats{c}.tm", lambda: tm)
        for k in (0, 1, 2, 9, 25):
            q_offs = gen_query_offsets(rng, tm, k)
            record(f"beats{c}.{k}", lambda: tm.beats(q_offs, snapper), q_offs, tm)
        q_offs = gen_query_offsets(rng, tm, 6)
        q_arr = np.array(q_offs)
        record(f"beats{c}.arr", lambda: tm.beats(q_arr, snapper), q_arr)
        q_tup = tuple(q_offs)
        record(f"beats{c}.tup", lambda: tm.beats(q_tup, snapper), q_tup)
        q_sorted = sorted(q_offs)
        record(f"beats{c}.sorted", lambda: tm.beats(q_sorted, snapper), q_sorted)
        q_same = [q_offs[0]] * 4
        record(f"beats{c}.same", lambda: tm.beats(q_same, snapper), q_same)
        first = tm.bpm_changes_offset[0].offset
        q_bad = [first + 10, first - 5]
        record(f"beats{c}.before", lambda: tm.beats(q_bad, snapper), q_bad)
        record(f"beats{c}.empty_arr", lambda: tm.beats(np.array([]), snapper))


def section_build(rng, cases):
    """from_bpm_changes_snap (reseat on/off) / from_bpm_changes_offset / BpmList"""
    for c in range(cases):
        n = rng.randint(1, 6)
        init = rand_initial(rng)

        bcs_on = gen_bcs_on_measures(rng, n, rng.choice([None, 4]))
        rng.shuffle(bcs_on)
        for reseat in (True, False):
            record(
                f"build{c}.on.{reseat}",
                lambda: from_bpm_changes_snap(init, bcs_on, reseat),
                bcs_on,
            )
        record(
            f"build{c}.on.default",
            lambda: TimingMap.from_bpm_changes_snap(init, bcs_on),
            bcs_on,
        )

        bcs_off = gen_bcs_off_measures(rng, n)
        rng.shuffle(bcs_off)
        for reseat in (True, False):
            record(
                f"build{c}.off.{reseat}",
                lambda: from_bpm_changes_snap(init, bcs_off, reseat),
                bcs_off,
            )

        def built_and_used():
            tm = from_bpm_changes_snap(init, bcs_off, True)
            q = gen_query_offsets(random.Random(c), tm, 8)
            return [tm, tm.bpm_changes_snap(), tm.snaps(q, SNAPPER), tm.reseat()]

        record(f"build{c}.off.used", built_and_used, bcs_off)

        # first bpm not on measure 0 / beat 0
        bcs_bad = deepcopy(bcs_on)
        for b in bcs_bad:
            b.snap.measure += 1
        record(
            f"build{c}.bad_measure", lambda: from_bpm_changes_snap(init, bcs_bad), bcs_bad
        )
        bcs_bad2 = deepcopy(bcs_off)
        min(bcs_bad2, key=lambda x: x.snap).snap.beat = Fraction(1, 2)
        record(
            f"build{c}.bad_beat",
            lambda: from_bpm_changes_snap(init, bcs_bad2, False),
            bcs_bad2,
        )
        record(f"build{c}.empty", lambda: from_bpm_changes_snap(init, []))
        record(f"build{c}.empty.noreseat", lambda: from_bpm_changes_snap(init, [], False))

        # from offsets: arbitrary, unsorted, ties
        bco_s = gen_bco_arbitrary(rng, n)
        record(
            f"build{c}.bco",
            lambda: from_bpm_changes_offset(bco_s),
            bco_s,
        )
        bco_s2 = gen_bco_arbitrary(rng, n)
        record(
            f"build{c}.bco.to_snap",
            lambda: bpm_changes_offset_to_snap(bco_s2, SNAPPER),
            bco_s2,
        )
        bco_s3 = gen_bco_arbitrary(rng, n)

        def bco_used():
            tm = TimingMap.from_bpm_changes_offset(bco_s3)
            q = gen_query_offsets(random.Random(c + 1), tm, 8)
            return [tm.bpm_changes_snap(), tm.snaps(q, SNAPPER), tm.reseat()]

        record(f"build{c}.bco.used", bco_used, bco_s3)
        record(f"build{c}.bco.empty", lambda: from_bpm_changes_offset([]))
        record(
            f"build{c}.bco.empty.to_snap",
            lambda: bpm_changes_offset_to_snap([], SNAPPER),
        )

        # BpmList.to_timing_map
        bpm_list = BpmList(
            [Bpm(b.offset, b.bpm, b.metronome) for b in gen_bco_arbitrary(rng, n)]
        )

        def from_list():
            tm = bpm_list.to_timing_map()
            return [tm, tm.bpm_changes_snap()]

        record(
            f"build{c}.bpmlist",
            from_list,
            [str(x) for x in bpm_list.df.dtypes],
            bpm_list.df.to_numpy(),
        )


def section_snapper(rng, cases):
    for c in range(cases):
        v = rng.choice(
            [
                rng.uniform(0, 10),
                rng.uniform(-3, 0),
                float(rand_frac_beat(rng, 4)),
                float(rand_frac_beat(rng, 4)) + rng.choice([-1e-9, 1e-9, 1e-4, -1e-4]),
                rng.randint(0, 5),
            ]
        )
        record(f"snapper{c}", lambda: SNAPPER.snap(v))
        record(f"snapper{c}.small", lambda: SNAPPER_SMALL.snap(v))
        record(f"snapper{c}.idem", lambda: SNAPPER.snap(float(SNAPPER.snap(v))))
        record(f"snapper{c}.fn", lambda: snap_fn(v))
        record(f"snapper{c}.np", lambda: SNAPPER.snap(np.float64(v)))
    for v in (0, 0.0, 1.0, -0.0, 0.999999999, -1e-20, 1e-20, float("nan")):
        record(f"snapper.edge{v!r}", lambda: SNAPPER.snap(v))


def main():
    weights = dict(order=12, beats=12, build=12)
    weights[{"order": "order", "beats": "beats", "build": "build"}[FOCUS]] = 40
    rng = random.Random(SEED)
    random.seed(SEED)
    np.random.seed(SEED % (2**32))
    section_order(rng, weights["order"])
    section_beats(rng, weights["beats"])
    section_build(rng, weights["build"])
    section_snapper(rng, 40)
    text = "\n".join(OUT)
    print("DIGEST", hashlib.sha256(text.encode()).hexdigest())


if __name__ == "__main__":
    import sys

    main()
    if "--dump" in sys.argv:
        sys.stderr.write("\n".join(OUT) + "\n")
