"""Digest demo for hitsound_copy (property C18).

Generates a broad, deterministic set of (source, target) osu chart pairs, runs
hitsound_copy on each, and hashes a canonical text dump of

  * the result (hits / holds / samples frames: values, dtypes, column order,
    row labels, python types of the cells) or the raised exception type,
  * both inputs afterwards (to pin "does not modify its input"),
  * the DEBUG log records the call emitted (message text and order),
  * OsuMap.reset_samples / OsuSample round trips used by the algorithm.

Prints one line: DIGEST <sha256 hex>
"""
import hashlib
import logging
import random
from copy import deepcopy
from pathlib import Path

import numpy as np
import pandas as pd

from reamber.algorithms.osu.hitsound_copy import hitsound_copy
from reamber.osu.OsuHit import OsuHit
from reamber.osu.OsuHold import OsuHold
from reamber.osu.OsuMap import OsuMap
from reamber.osu.OsuSample import OsuSample
from reamber.osu.lists.OsuSampleList import OsuSampleList
from reamber.osu.lists.notes.OsuHitList import OsuHitList
from reamber.osu.lists.notes.OsuHoldList import OsuHoldList

OUT = []


def emit(*parts):
    OUT.append(" ".join(str(p) for p in parts))


def cell(v):
    return f"{type(v).__module__}.{type(v).__name__}:{v!r}"


def dump_df(tag, df):
    emit(tag, "type", type(df).__name__, "shape", df.shape)
    emit(tag, "columns", list(df.columns))
    emit(tag, "dtypes", [str(t) for t in df.dtypes])
    emit(tag, "index", type(df.index).__name__, str(df.index.dtype), list(df.index))
    for label, row in zip(df.index, df.itertuples(index=False, name=None)):
        emit(tag, "row", repr(label), "|".join(cell(v) for v in row))


def dump_map(tag, m):
    emit(tag, "class", type(m).__name__, "circle_size", repr(m.circle_size))
    for name in ("hits", "holds", "bpms", "svs"):
        lst = getattr(m, name)
        emit(tag, name, "listclass", type(lst).__name__)
        dump_df(f"{tag}.{name}", lst.df)
    emit(tag, "samples", "listclass", type(m.samples).__name__)
    dump_df(f"{tag}.samples", m.samples.df)
    try:
        emit(tag, "written", hashlib.sha256("\n".join(m.write()).encode()).hexdigest())
    except Exception as e:  # noqa
        emit(tag, "write-raised", type(e).__name__)


class ListHandler(logging.Handler):
    def __init__(self):
        super().__init__(level=logging.DEBUG)
        self.records = []

    def emit(self, record):
        self.records.append(f"{record.levelname}:{record.getMessage()}")


HS_LOGGER = logging.getLogger("reamber.algorithms.osu.hitsound_copy")
HS_LOGGER.setLevel(logging.DEBUG)
HS_LOGGER.propagate = False
HANDLER = ListHandler()
HS_LOGGER.addHandler(HANDLER)


def run_case(name, src, tgt):
    emit("=" * 10, "CASE", name)
    src_before, tgt_before = deepcopy(src), deepcopy(tgt)
    HANDLER.records.clear()
    try:
        res = hitsound_copy(src, tgt)
    except Exception as e:  # noqa
        emit("raised", type(e).__module__, type(e).__name__)
        res = None
    for r in HANDLER.records:
        emit("log", r)
    if res is not None:
        emit("result-is-target", res is tgt, "result-is-source", res is src)
        dump_map("res", res)
    # inputs afterwards
    dump_map("src-after", src)
    dump_map("tgt-after", tgt)
    for nm in ("hits", "holds"):
        for tag, a, b in (("src", src, src_before), ("tgt", tgt, tgt_before)):
            da, db = getattr(a, nm).df, getattr(b, nm).df
            emit("unchanged", tag, nm, da.equals(db) and list(da.dtypes) == list(db.dtypes))
    emit("unchanged src samples", src.samples.df.equals(src_before.samples.df))
    emit("unchanged tgt samples", tgt.samples.df.equals(tgt_before.samples.df))


# --------------------------------------------------------------- generators
FILES = ["", "", "", "kick.wav", "snare.wav", "hat.ogg", "a;b.wav", "x y.wav", "é.wav"]
VOLS = [0, 0, 10, 20, 20, 30, 70, 100, -5]
HSETS = [0, 0, 1, 2, 4, 8, 6, 10, 12, 14, 15, 3, 16, 18, 30, 128 + 8]


def rand_note_kwargs(rng, rich):
    if not rich:
        return {}
    kw = dict(
        hitsound_set=rng.choice(HSETS),
        sample_set=rng.choice([0, 0, 0, 1, 2, 3]),
        addition_set=rng.choice([0, 0, 0, 1, 2, 3]),
        custom_set=rng.choice([0, 0, 0, 1, 5]),
        volume=rng.choice(VOLS),
        hitsound_file=rng.choice(FILES),
    )
    return kw


def rand_map(rng, n_hits, n_holds, offsets, keys, rich, shuffle=True, samples=0):
    m = OsuMap()
    m.circle_size = keys
    hits = [
        OsuHit(offset=rng.choice(offsets), column=rng.randrange(keys), **rand_note_kwargs(rng, rich))
        for _ in range(n_hits)
    ]
    holds = [
        OsuHold(
            offset=rng.choice(offsets),
            column=rng.randrange(keys),
            length=rng.choice([0.0, 1.0, 50.0, 125.5, 1000.0]),
            **rand_note_kwargs(rng, rich),
        )
        for _ in range(n_holds)
    ]
    if shuffle:
        rng.shuffle(hits)
        rng.shuffle(holds)
    m.hits = OsuHitList(hits)
    m.holds = OsuHoldList(holds)
    if samples:
        m.samples = OsuSampleList(
            [
                OsuSample(offset=rng.choice(offsets), sample_file=rng.choice(FILES[3:]), volume=rng.choice(VOLS))
                for _ in range(samples)
            ]
        )
    return m


def main():
    rng = random.Random(180028)
    random.seed(180028)
    np.random.seed(180028)

    offset_pools = [
        [0.0, 100.0, 200.0, 300.0],
        [-250.0, -1.5, 0.0, 0.5, 1000.0, 1000.25],
        [100.0],
        [float(x) for x in range(0, 2000, 125)],
        [1e9, 1e9 + 1, 3.0],
    ]

    case = 0
    # 1. random pairs, dense overlap of times, overflow of sounds over notes
    for keys in (1, 4, 7, 10):
        for pool in offset_pools:
            for (sh, sl, th, tl) in ((6, 3, 5, 2), (12, 0, 3, 0), (0, 8, 2, 2), (15, 10, 1, 1), (3, 1, 12, 8)):
                case += 1
                src = rand_map(rng, sh, sl, pool, keys, rich=True)
                # target sometimes carries its own sounds / samples (must be reset)
                tgt = rand_map(rng, th, tl, pool + [pool[0] + 7.0], keys, rich=bool(case % 2), samples=case % 3)
                run_case(f"rand{case}-k{keys}", src, tgt)

    # 2. heavy overflow at one time: many named samples and many C/F/W on one
    #    time, with few target notes there, several volumes
    for n_tgt in (0, 1, 2, 3, 6):
        for trial in range(4):
            case += 1
            src = rand_map(rng, 10 + trial, 4, [500.0], 4, rich=True)
            tgt = rand_map(rng, n_tgt, n_tgt // 2, [500.0], 4, rich=False)
            if n_tgt == 0 and trial % 2:
                tgt = rand_map(rng, 2, 1, [499.0, 501.0], 4, rich=False)
            run_case(f"overflow{case}-t{n_tgt}", src, tgt)

    # 3. edge cases: empties, silent source, no overlap, identical maps
    silent = rand_map(rng, 5, 3, [0.0, 10.0], 4, rich=False)
    loud = rand_map(rng, 8, 4, [0.0, 10.0], 4, rich=True)
    empty = OsuMap()
    only_hits = rand_map(rng, 6, 0, [0.0, 10.0], 4, rich=True)
    only_holds = rand_map(rng, 0, 6, [0.0, 10.0], 4, rich=True)
    far = rand_map(rng, 6, 3, [7777.0, 8888.0], 4, rich=True)
    edge = dict(
        silent_to_loud=(silent, loud),
        loud_to_silent=(loud, silent),
        loud_to_loud_same_object=(loud, loud),
        loud_to_copy=(loud, deepcopy(loud)),
        empty_to_loud=(empty, loud),
        loud_to_empty=(loud, empty),
        empty_to_empty=(empty, OsuMap()),
        only_hits_to_only_holds=(only_hits, only_holds),
        only_holds_to_only_hits=(only_holds, only_hits),
        only_hits_to_only_hits=(only_hits, deepcopy(only_hits)),
        only_holds_to_only_holds=(only_holds, deepcopy(only_holds)),
        no_overlap=(loud, far),
        no_overlap_rev=(far, loud),
    )
    for name, (s, t) in edge.items():
        run_case(f"edge-{name}", s, t)

    # 4. hand-made: exact multiplicities (docstring table), volume <= 0, float
    #    volumes, unsorted non-default row labels, file names with ';'
    def hm(hits=(), holds=()):
        m = OsuMap()
        m.hits = OsuHitList([OsuHit(**h) for h in hits])
        m.holds = OsuHoldList([OsuHold(**h) for h in holds])
        return m

    table_src = hm(
        hits=[
            dict(offset=100, column=0, hitsound_set=2, volume=20),
            dict(offset=100, column=1, hitsound_set=4, volume=20),
            dict(offset=100, column=2, hitsound_set=8, volume=20),
            dict(offset=100, column=3, hitsound_set=2, volume=30),
            dict(offset=100, column=0, hitsound_set=12, volume=40),
            dict(offset=100, column=1, hitsound_file="custom.wav", volume=20),
        ]
    )
    for n in range(0, 7):
        tgt = hm(hits=[dict(offset=100, column=c) for c in range(n)])
        run_case(f"table-{n}-targets", table_src, tgt)
        tgt = hm(holds=[dict(offset=100, column=c, length=10.0 * (c + 1)) for c in range(n)])
        run_case(f"table-{n}-hold-targets", table_src, tgt)

    named = hm(
        hits=[dict(offset=5, column=c, hitsound_file=f"s{c}.wav", volume=v) for c, v in enumerate([50, 50, 50, 60, 0, -3, 50])]
        + [dict(offset=5, column=0, hitsound_set=14, volume=50, hitsound_file="both.wav")],
        holds=[dict(offset=5, column=1, length=40, hitsound_file="a;b;;c.wav", volume=60, hitsound_set=15)],
    )
    for n in range(0, 5):
        tgt = hm(
            hits=[dict(offset=5, column=c) for c in range(n)],
            holds=[dict(offset=5, column=c, length=9.0) for c in range(n // 2)],
        )
        run_case(f"named-{n}", named, tgt)

    # unsorted + odd row labels + float volume / float hitsound_set columns
    odd_src = rand_map(rng, 9, 5, [0.0, 1.0, 2.0], 4, rich=True)
    odd_src.hits.df.index = [10, 3, 7, 7, 0, 2, 99, 5, 1]
    odd_src.hits.df["volume"] = odd_src.hits.df["volume"].astype(float) + 0.5
    odd_src.holds.df["hitsound_set"] = odd_src.holds.df["hitsound_set"].astype(float)
    odd_tgt = rand_map(rng, 7, 4, [0.0, 1.0, 2.0, 3.0], 4, rich=True)
    odd_tgt.hits.df.index = [5, 4, 4, 8, 1, 0, 2]
    odd_tgt.holds.df.index = [5, 4, 8, 1]
    run_case("odd-labels", odd_src, odd_tgt)
    run_case("odd-labels-rev", odd_tgt, odd_src)

    # extra column on the source notes (stack-able custom column)
    extra_src = rand_map(rng, 6, 2, [0.0, 1.0], 4, rich=True)
    extra_src.hits.df["kiai"] = True
    run_case("extra-col", extra_src, rand_map(rng, 4, 2, [0.0, 1.0], 4, rich=False))

    # NaN volume / NaN offset rows
    nan_src = rand_map(rng, 6, 2, [0.0, 1.0], 4, rich=True)
    nan_src.hits.df["volume"] = nan_src.hits.df["volume"].astype(float)
    nan_src.hits.df.loc[0, "volume"] = np.nan
    nan_src.hits.df.loc[1, "offset"] = np.nan
    nan_tgt = rand_map(rng, 5, 2, [0.0, 1.0], 4, rich=False)
    nan_tgt.hits.df.loc[0, "offset"] = np.nan
    run_case("nan", nan_src, nan_tgt)

    # source that cannot be processed: NaN hitsound_set (int cast must raise),
    # and a source whose notes lack the volume column
    bad_src = rand_map(rng, 6, 2, [0.0, 1.0], 4, rich=True)
    bad_src.hits.df["hitsound_set"] = bad_src.hits.df["hitsound_set"].astype(float)
    bad_src.hits.df.loc[2, "hitsound_set"] = np.nan
    run_case("bad-nan-hitsound-set", bad_src, rand_map(rng, 4, 2, [0.0, 1.0], 4, rich=True))
    bad_src2 = rand_map(rng, 6, 2, [0.0, 1.0], 4, rich=True)
    bad_src2.hits.df = bad_src2.hits.df.drop("volume", axis=1)
    bad_src2.holds.df = bad_src2.holds.df.drop("volume", axis=1)
    run_case("bad-no-volume", bad_src2, rand_map(rng, 4, 2, [0.0, 1.0], 4, rich=True))
    bad_tgt = rand_map(rng, 4, 2, [0.0, 1.0], 4, rich=True)
    bad_tgt.hits.df = bad_tgt.hits.df.drop("offset", axis=1)
    bad_tgt.holds.df = bad_tgt.holds.df.drop("offset", axis=1)
    run_case("bad-tgt-no-offset", rand_map(rng, 6, 2, [0.0, 1.0], 4, rich=True), bad_tgt)

    # 5. bundled charts
    d = Path("tests/algorithm_tests/osu/hitsound_copy")
    if (d / "source.osu").exists():
        s = OsuMap.read_file(d / "source.osu")
        t = OsuMap.read_file(d / "target.osu")
        run_case("bundled", s, t)
        run_case("bundled-rev", t, s)
        run_case("bundled-self", s, s)
        s2, t2 = deepcopy(s), deepcopy(t)
        s2.holds = OsuHoldList([])
        t2.holds = OsuHoldList([])
        run_case("bundled-nolns", s2, t2)
        run_case("bundled-rate", s.rate(1.5), t.rate(1.5))

    # 6. the pieces hitsound_copy leans on
    for of_notes in (True, False):
        for of_samples in (True, False):
            m = rand_map(rng, 5, 3, [0.0, 1.0], 4, rich=True, samples=3)
            ret = m.reset_samples(of_notes=of_notes, of_samples=of_samples)
            emit("reset_samples", of_notes, of_samples, "ret", repr(ret))
            dump_map("reset", m)
    m = OsuMap()
    m.reset_samples()
    dump_map("reset-empty", m)
    for line in ("Sample,100,0,\"a.wav\",40", "Sample,-5,0,b.wav", "Sample,1.5,0,c.wav,0", "Sample,1", "Sample,x,0,c.wav,0"):
        try:
            smp = OsuSample.read_string(line)
            emit("sample", line, "->", cell(smp.offset), cell(smp.sample_file), cell(smp.volume), smp.write_string())
            emit("sample-dict", sorted(OsuSample.read_string(line, as_dict=True).items()))
        except Exception as e:  # noqa
            emit("sample", line, "raised", type(e).__name__)

    text = "\n".join(OUT)
    print("DIGEST", hashlib.sha256(text.encode("utf8")).hexdigest())
    return text


if __name__ == "__main__":
    import sys

    text = main()
    if len(sys.argv) > 1:
        Path(sys.argv[1]).write_text(text, encoding="utf8")
