"""Demo / differential oracle for property C01 (osu!mania file <-> chart).

Run as
    cd /tmp/wt7/C01 && PYTHONPATH=/tmp/wt7/C01 /venv/bin/python demo.py
Prints one line `DIGEST <sha256>` over a canonical text dump of everything
that was computed (values, dtypes, column order, row labels, exception types
and messages, and the inputs after the calls).
"""
from __future__ import annotations

import copy
import hashlib
import os
import random
import tempfile
import warnings

import numpy as np
import pandas as pd

warnings.simplefilter("ignore")

from reamber.osu.OsuBpm import OsuBpm
from reamber.osu.OsuHit import OsuHit
from reamber.osu.OsuHold import OsuHold
from reamber.osu.OsuMap import OsuMap
from reamber.osu.OsuNoteMeta import OsuNoteMeta
from reamber.osu.OsuSample import OsuSample
from reamber.osu.OsuSv import OsuSv
from reamber.osu.OsuTimingPointMeta import OsuTimingPointMeta
from reamber.osu.lists.OsuBpmList import OsuBpmList
from reamber.osu.lists.OsuSampleList import OsuSampleList
from reamber.osu.lists.OsuSvList import OsuSvList
from reamber.osu.lists.notes.OsuHitList import OsuHitList
from reamber.osu.lists.notes.OsuHoldList import OsuHoldList

random.seed(20261001)

OUT: list[str] = []


def emit(*parts) -> None:
    OUT.append(" | ".join(str(p) for p in parts))


# --------------------------------------------------------------------------
# canonical dumps
# --------------------------------------------------------------------------
def canon_val(v) -> str:
    if isinstance(v, (float, np.floating)):
        return f"{type(v).__name__}:{float(v)!r}"
    if isinstance(v, (bool, np.bool_)):
        return f"{type(v).__name__}:{bool(v)!r}"
    if isinstance(v, (int, np.integer)):
        return f"{type(v).__name__}:{int(v)!r}"
    if isinstance(v, (list, tuple)):
        return f"{type(v).__name__}[" + ",".join(canon_val(i) for i in v) + "]"
    return f"{type(v).__name__}:{v!r}"


def dump_df(tag: str, df: pd.DataFrame) -> None:
    emit(tag, "type", type(df).__name__, "shape", df.shape)
    emit(tag, "columns", list(df.columns))
    emit(tag, "dtypes", [str(t) for t in df.dtypes])
    emit(tag, "index", type(df.index).__name__, str(df.index.dtype), list(df.index))
    for label, row in zip(df.index, df.itertuples(index=False, name=None)):
        emit(tag, "row", label, [canon_val(v) for v in row])


def dump_list(tag: str, tl) -> None:
    emit(tag, "class", type(tl).__name__)
    dump_df(tag, tl.df)


META_FIELDS = [
    "audio_file_name", "audio_lead_in", "preview_time", "countdown",
    "sample_set", "stack_leniency", "mode", "letterbox_in_breaks",
    "special_style", "widescreen_storyboard", "distance_spacing",
    "beat_divisor", "grid_size", "timeline_zoom", "title", "title_unicode",
    "artist", "artist_unicode", "creator", "version", "source", "tags",
    "beatmap_id", "beatmap_set_id", "hp_drain_rate", "circle_size",
    "overall_difficulty", "approach_rate", "slider_multiplier",
    "slider_tick_rate", "background_file_name",
]


def dump_map(tag: str, m: OsuMap) -> None:
    emit(tag, "class", type(m).__name__)
    for f in META_FIELDS:
        emit(tag, "meta", f, canon_val(getattr(m, f)))
    emit(tag, "objs-keys", list(m.objs.keys()))
    for k in m.objs:
        dump_list(f"{tag}.{k}", m.objs[k])
    dump_list(f"{tag}.samples", m.samples)


def attempt(tag: str, fn, *a, **kw):
    """Runs fn, records the result kind or the exception, returns result."""
    try:
        r = fn(*a, **kw)
    except Exception as e:  # noqa
        emit(tag, "RAISED", type(e).__name__, str(e))
        return None
    return r


# --------------------------------------------------------------------------
# generators for .osu texts
# --------------------------------------------------------------------------
WORDS = [
    "Re:Start", "a:b:c", "ＦＲＥＥＤＯＭ　ＤｉＶＥ", "こんにちは", "Ünïcödé",
    "plain", "with space", "x:", ":y", "", "1.5", "-3", "tab\tin", "日本: 語",
    "Señor : Ñ", "::", "Ω≈ç√∫", "Sample", "[General]", "//comment",
]
SAMPLE_SETS = ["None", "Normal", "Soft", "Drum", "Weird"]


def rnd_time() -> str:
    c = random.random()
    if c < 0.15:
        return str(random.randint(-5000, -1))
    if c < 0.25:
        return str(random.randint(10 ** 7, 2 * 10 ** 9))
    if c < 0.40:
        return repr(round(random.uniform(-2000, 400000), random.randint(1, 6)))
    if c < 0.45:
        return "0"
    return str(random.randint(0, 400000))


def rnd_hs_file() -> str:
    return random.choice(["", "", "hit.wav", "normal-hitclap2.ogg", "ä ö.wav", "a b.wav"])


def gen_hit_line(keys: int) -> str:
    x = random.choice(
        [random.randint(0, 511), random.randint(0, 511), 0, 511, 512, 256,
         random.randint(-50, 700),
         (512 * random.randrange(keys) + 256) // keys,
         512 * random.randrange(keys) // keys]
    )
    y = random.choice([192, 0, 384, random.randint(0, 400)])
    t = rnd_time()
    hs = random.choice([0, 0, 2, 4, 8, 14])
    ss = [random.randint(0, 3) for _ in range(2)] + [random.randint(0, 9), random.randint(0, 100)]
    typ = random.choice([1, 1, 5])
    return f"{x},{y},{t},{typ},{hs},{ss[0]}:{ss[1]}:{ss[2]}:{ss[3]}:{rnd_hs_file()}"


def gen_hold_line(keys: int) -> str:
    x = random.choice(
        [random.randint(0, 511), 0, 511, 512, random.randint(-50, 700),
         (512 * random.randrange(keys) + 256) // keys]
    )
    t = rnd_time()
    try:
        end = int(float(t)) + random.choice([0, 1, 50, 12345, -10])
    except ValueError:
        end = 100
    end_s = str(end) if random.random() < 0.8 else repr(float(t) + random.uniform(0, 500))
    hs = random.choice([0, 2, 4, 8])
    ss = [random.randint(0, 3) for _ in range(2)] + [random.randint(0, 9), random.randint(0, 100)]
    typ = random.choice([128, 128, 132])
    return f"{x},192,{t},{typ},{hs},{end_s}:{ss[0]}:{ss[1]}:{ss[2]}:{ss[3]}:{rnd_hs_file()}"


def gen_bpm_line() -> str:
    t = rnd_time()
    code = random.choice(
        [repr(60000 / random.choice([60, 120, 174.5, 222.22, 1e-3, 1e6, -120])),
         "500", "333.333333333333", "0.0001", "1e-05"]
    )
    return (
        f"{t},{code},{random.choice([3, 4, 7])},{random.randint(0, 3)},"
        f"{random.randint(0, 5)},{random.randint(0, 100)},1,{random.choice([0, 1, 8, 9])}"
    )


def gen_sv_line() -> str:
    t = rnd_time()
    code = random.choice(
        [repr(-100 / random.choice([0.01, 0.5, 1.0, 1.37, 10.0, 1e-6, -2.0])),
         "-100", "-50", "-133.333333333333", "-1e-05", "25"]
    )
    return (
        f"{t},{code},4,{random.randint(0, 3)},{random.randint(0, 5)},"
        f"{random.randint(0, 100)},0,{random.choice([0, 1, 8, 9])}"
    )


def gen_sample_line() -> str:
    t = random.choice([str(random.randint(-1000, 300000)), repr(round(random.uniform(0, 1e5), 3))])
    f = random.choice(['"clap.wav"', '"ä.ogg"', 'x.wav', '"a b.wav"', '""'])
    if random.random() < 0.3:
        return f"Sample,{t},0,{f}"
    return f"Sample,{t},0,{f},{random.randint(0, 100)}"


def gen_text(keys: int, n_hit: int, n_hold: int, n_bpm: int, n_sv: int, n_smp: int,
             pad: bool = False, shuffle: bool = True) -> list[str]:
    w = lambda: random.choice(WORDS)  # noqa
    sp = " " if not pad else "  "
    cs = random.choice([str(keys), f"{keys}.0", f"{keys}"])
    head = [
        "osu file format v14",
        "",
        "[General]",
        f"AudioFilename:{sp}{w()}.mp3",
        f"AudioLeadIn:{sp}{random.choice([0, 500, 2000])}",
        f"PreviewTime:{sp}{random.choice([-1, 0, 12345, 99999])}",
        f"Countdown:{sp}{random.choice([0, 1])}",
        f"SampleSet:{sp}{random.choice(SAMPLE_SETS)}",
        f"StackLeniency:{sp}{random.choice(['0.7', '1', '0.35'])}",
        f"Mode:{sp}{random.choice([3, 3, 3, 0])}",
        f"LetterboxInBreaks:{sp}{random.choice([0, 1])}",
        f"SpecialStyle:{sp}{random.choice([0, 1])}",
        f"WidescreenStoryboard:{sp}{random.choice([0, 1])}",
        "",
        "[Editor]",
        f"Bookmarks: {random.randint(0, 999)},{random.randint(0, 999)}",
        f"DistanceSpacing:{sp}{random.choice(['1.2', '4', '0.8'])}",
        f"BeatDivisor:{sp}{random.choice([1, 4, 16])}",
        f"GridSize:{sp}{random.choice([4, 8, 32])}",
        f"TimelineZoom:{sp}{random.choice(['0.3', '1', '2.5'])}",
        "",
        "[Metadata]",
        f"Title:{w()}",
        f"TitleUnicode:{w()}",
        f"Artist:{w()}",
        f"ArtistUnicode:{w()}",
        f"Creator:{w()}",
        f"Version:{w()}",
        f"Source:{w()}",
        f"Tags:{' '.join(w() for _ in range(random.randint(0, 5)))}",
        f"BeatmapID:{random.choice([0, 123456, -1])}",
        f"BeatmapSetID:{random.choice([-1, 7890])}",
        "",
        "[Difficulty]",
        f"HPDrainRate:{random.choice(['5', '7.5', '0', '10'])}",
        f"CircleSize:{cs}",
        f"OverallDifficulty:{random.choice(['5', '8.2', '0'])}",
        f"ApproachRate:{random.choice(['5', '9'])}",
        f"SliderMultiplier:{random.choice(['1.4', '1', '3.6'])}",
        f"SliderTickRate:{random.choice(['1', '2', '0.5'])}",
        "",
        "[Events]",
        "//Background and Video events",
        random.choice(['0,0,"bg.jpg",0,0', '0,0,"ä b:c.png",0,0', 'Video,0,"v.mp4"', '0,0,"",0,0']),
        "//Break Periods",
        "//Storyboard Layer 0 (Background)",
        "//Storyboard Sound Samples",
        *[gen_sample_line() for _ in range(n_smp)],
        "",
        "",
    ]
    tps = [gen_bpm_line() for _ in range(n_bpm)] + [gen_sv_line() for _ in range(n_sv)]
    hos = [gen_hit_line(keys) for _ in range(n_hit)] + [gen_hold_line(keys) for _ in range(n_hold)]
    if shuffle:
        random.shuffle(tps)
        random.shuffle(hos)
    lines = [*head, "[TimingPoints]", *tps, "", "", "[HitObjects]", *hos, ""]
    if pad:
        lines = [("  " + ln + " \r") if i % 3 == 0 else ln for i, ln in enumerate(lines)]
    return lines


# --------------------------------------------------------------------------
# Section A: file -> chart -> file -> chart ... (generations)
# --------------------------------------------------------------------------
def section_read_roundtrip() -> None:
    configs = []
    for keys in range(1, 19):
        configs.append((keys, random.randint(1, 8), random.randint(1, 5),
                        random.randint(1, 3), random.randint(0, 4), random.randint(0, 3)))
    # edge cases: empty lists of each kind, single rows, many ties
    configs += [
        (4, 0, 0, 1, 0, 0), (4, 0, 0, 0, 0, 0), (7, 3, 0, 1, 0, 0), (7, 0, 3, 1, 0, 0),
        (1, 2, 2, 0, 2, 1), (18, 1, 1, 1, 1, 4), (10, 12, 12, 2, 6, 0), (5, 1, 0, 0, 0, 0),
    ]
    for n, cfg in enumerate(configs):
        tag = f"A{n}"
        text = gen_text(*cfg, pad=(n % 5 == 0), shuffle=(n % 4 != 1))
        text_before = list(text)
        emit(tag, "cfg", cfg)
        m = attempt(tag + ".read", OsuMap.read, text)
        emit(tag, "input-unchanged", text == text_before)
        if m is None:
            continue
        dump_map(tag + ".g0", m)
        cur = m
        prev_lines = None
        for gen in range(1, 4):
            snapshot = copy.deepcopy(cur)
            lines = attempt(f"{tag}.write{gen}", cur.write)
            if lines is None:
                break
            emit(tag, f"write{gen}", type(lines).__name__, len(lines))
            for ln in lines:
                emit(tag, f"w{gen}", repr(ln))
            # writing must not modify the chart
            same = all(
                cur.objs[k].df.equals(snapshot.objs[k].df)
                and list(cur.objs[k].df.dtypes) == list(snapshot.objs[k].df.dtypes)
                for k in cur.objs
            ) and cur.samples.df.equals(snapshot.samples.df)
            emit(tag, f"write{gen}-chart-unchanged", same)
            if prev_lines is not None:
                emit(tag, f"gen{gen}-lines-equal-prev", lines == prev_lines)
            prev_lines = lines
            # A written file is the lines joined by \n, read back split by \n
            nxt = attempt(f"{tag}.read{gen}", OsuMap.read, "\n".join(lines).split("\n"))
            if nxt is None:
                break
            dump_map(f"{tag}.g{gen}", nxt)
            cur = nxt


# --------------------------------------------------------------------------
# Section B: in-memory charts -> file -> chart
# --------------------------------------------------------------------------
def rnd_offset() -> float:
    c = random.random()
    if c < 0.2:
        return float(random.randint(-3000, 3000))
    if c < 0.3:
        return random.choice([0.0, -0.0, 0.999, -0.999, 1e9 + 0.5, -1e-9])
    return random.uniform(-5000, 500000)


def build_chart(keys, n_hit: int, n_hold: int, n_bpm: int, n_sv: int, n_smp: int,
                ties: bool) -> OsuMap:
    m = OsuMap()
    m.circle_size = keys
    k = int(keys)
    pool = [rnd_offset() for _ in range(3)]
    off = (lambda: random.choice(pool)) if ties else rnd_offset
    m.hits = OsuHitList(
        [OsuHit(off(), random.randrange(k), random.choice([0, 2, 8]), random.randint(0, 3),
                random.randint(0, 3), random.randint(0, 5), random.randint(0, 100),
                rnd_hs_file()) for _ in range(n_hit)]
    )
    m.holds = OsuHoldList(
        [OsuHold(off(), random.randrange(k), random.choice([0.0, 0.4, 1.0, 250.75, 1e6]),
                 random.choice([0, 2, 8]), random.randint(0, 3), random.randint(0, 3),
                 random.randint(0, 5), random.randint(0, 100), rnd_hs_file())
         for _ in range(n_hold)]
    )
    m.bpms = OsuBpmList(
        [OsuBpm(off(), random.choice([120.0, 174.5, 1e-3, 1e6, -90.0, 222.22]),
                random.choice([3, 4, 5]), random.randint(0, 3), random.randint(0, 3),
                random.randint(0, 100), random.choice([True, False])) for _ in range(n_bpm)]
    )
    m.svs = OsuSvList(
        [OsuSv(off(), random.choice([1.0, 0.01, 10.0, 1.37, -2.0, 1e-6]), 4,
               random.randint(0, 3), random.randint(0, 3), random.randint(0, 100),
               random.choice([True, False])) for _ in range(n_sv)]
    )
    m.samples = OsuSampleList(
        [OsuSample(off(), random.choice(['"a.wav"', "b.ogg", '"ä ö.wav"']), random.randint(0, 100))
         for _ in range(n_smp)]
    )
    m.title = random.choice(WORDS)
    m.title_unicode = random.choice(WORDS)
    m.artist = random.choice(WORDS)
    m.artist_unicode = random.choice(WORDS)
    m.creator = random.choice(WORDS)
    m.version = random.choice(WORDS)
    m.tags = [random.choice(WORDS) for _ in range(random.randint(0, 3))]
    m.background_file_name = random.choice(["bg.png", "", "ä b.jpg"])
    m.preview_time = random.choice([-1, 0, 1234])
    return m


def section_write_roundtrip() -> None:
    configs = []
    for keys in range(1, 19):
        configs.append((random.choice([keys, float(keys)]), random.randint(0, 7),
                        random.randint(0, 5), random.randint(1, 3), random.randint(0, 3),
                        random.randint(0, 2), keys % 3 == 0))
    configs += [
        (4, 0, 0, 0, 0, 0, False),   # completely empty chart
        (4, 5, 5, 1, 0, 0, True),    # hits and holds tie on offset
        (7.0, 0, 4, 1, 2, 1, True),
        (9, 6, 0, 2, 2, 0, True),
        (4.9, 3, 3, 1, 1, 1, False),  # fractional circle size -> int() truncation
    ]
    for n, cfg in enumerate(configs):
        tag = f"B{n}"
        emit(tag, "cfg", cfg)
        m = build_chart(*cfg)
        if n % 4 == 0 and len(m.hits) > 1:
            # non-default row labels & unsorted rows
            df = m.hits.df.iloc[::-1].copy()
            df.index = [10 * i + 3 for i in range(len(df))][::-1]
            m.hits = OsuHitList(df)
        dump_map(tag + ".in", m)
        snapshot = copy.deepcopy(m)
        lines = attempt(tag + ".write", m.write)
        dump_map(tag + ".in-after", m)
        emit(tag, "chart-unchanged", all(
            m.objs[k].df.equals(snapshot.objs[k].df) for k in m.objs))
        if lines is None:
            continue
        emit(tag, "lines", type(lines).__name__, len(lines))
        for ln in lines:
            emit(tag, "w", repr(ln))
        cur_lines = lines
        for gen in range(1, 4):
            r = attempt(f"{tag}.read{gen}", OsuMap.read, "\n".join(cur_lines).split("\n"))
            if r is None:
                break
            dump_map(f"{tag}.g{gen}", r)
            nxt = attempt(f"{tag}.write{gen}", r.write)
            if nxt is None:
                break
            emit(tag, f"gen{gen}-stable", nxt == cur_lines)
            if nxt != cur_lines:
                for ln in nxt:
                    emit(tag, f"w{gen}", repr(ln))
            cur_lines = nxt

    # write_file / read_file
    with tempfile.TemporaryDirectory() as d:
        for n in range(3):
            m = build_chart(random.randint(1, 18), 4, 3, 2, 2, 2, n == 1)
            p = os.path.join(d, f"map{n}.osu")
            attempt(f"BF{n}.write_file", m.write_file, p)
            with open(p, "rb") as f:
                emit(f"BF{n}", "bytes-sha", hashlib.sha256(f.read()).hexdigest())
            r = attempt(f"BF{n}.read_file", OsuMap.read_file, p)
            if r is not None:
                dump_map(f"BF{n}.read", r)


# --------------------------------------------------------------------------
# Section C: predicates, single-line parsers and writers, bad inputs
# --------------------------------------------------------------------------
def mutate(s: str) -> str:
    c = random.random()
    if not s:
        return random.choice([",", ":", ",,,,,", ":::::", " "])
    i = random.randrange(len(s))
    if c < 0.25:
        return s[:i] + random.choice(",:") + s[i:]
    if c < 0.5:
        return s[:i] + s[i + 1:]
    if c < 0.7:
        return s.replace(",", ":", 1)
    if c < 0.85:
        return s.replace(":", ",", 1)
    return s[:i] + random.choice("xyz -.") + s[i:]


def section_lines() -> None:
    good = []
    for keys in (1, 4, 7, 10, 18):
        good += [gen_hit_line(keys) for _ in range(6)]
        good += [gen_hold_line(keys) for _ in range(6)]
    good += [gen_bpm_line() for _ in range(12)] + [gen_sv_line() for _ in range(12)]
    good += [gen_sample_line() for _ in range(8)]
    fixed = [
        "", " ", ",", ":", ",,,,,", ":::::", ",,,,,::::", ",,,,,:::::", ",,,,,,,",
        ",,,,,,1,", ",,,,,,0,", ",,,,,,01,0", "0,0,4,0,0,0, 1,0", "0,0,4,0,0,0,1 ,0",
        "1000,500,4,0,0,50,1,0", "1000,-100,4,0,0,50,0,0", "1000,0,4,0,0,50,1,0",
        "1000,0,4,0,0,50,0,0", "1000,500,4,0,0,50,2,0", "1000,500,4,0,0,50,1",
        "1000,500,4,0,0,50,1,0,9", "a,b,c,d,e,f,1,h", "a,b,c,d,e,f,0,h",
        "1000,inf,4,0,0,50,1,0", "1000,nan,4,0,0,50,0,0", "1000,500,4.0,0,0,50,1,0",
        "1000,500,4,0,0,50,1,x", "1000,500,4,0,0,50,1,3", "1000,-100,4,0,0,50,0,2",
        "64,192,1000,1,0,0:0:0:0:", "64,192,1000,128,0,2000:0:0:0:0:",
        "6:4,192,1000,1,0,0:0:0:", "64,1:92,1000,1,0,0:0:0:5", "64,192,1000,1,0:0,0:0:0:",
        "64,192,1000,128,0,2000:0:0:0:0", "64,192,1000,1,0,0:0:0:0:a:b",
        "64,192,1000,1,0,0:0:0:0:f,g", "x,192,1000,1,0,0:0:0:0:", "64,192,t,1,0,0:0:0:0:",
        "64.5,192,1000,1,0,0:0:0:0:", "64,192,1000,1,0,a:0:0:0:", "64,192,1000,1,,0:0:0:0:",
        "64,192,1000,128,0,end:0:0:0:0:", "64,192,1e3,128,0,2e3:0:0:0:0:file.wav",
        "64,192,-1000,128,0,-500:1:2:3:4:ä.wav", "256,192,1000.75,1,4,1:2:3:40:hit.wav",
        "Sample,100,0,\"a.wav\",70", "Sample,100,0,\"a.wav\"", "Sample,100,0", "Sample",
        "Sample,x,0,a,b", "Sample,1,0,a,b,c", "Sample,1.5,0,a,1.5",
    ]
    cases = good + fixed + [mutate(s) for s in good for _ in range(2)]
    non_str = [None, 5, 1.5, [], ["a,b"], b"1,2,3,4,5,6,1,8", ("x",)]

    for i, s in enumerate(cases + non_str):
        tag = f"C{i}"
        emit(tag, "input", repr(s))
        for name, fn in (
            ("is_hit", OsuNoteMeta.is_hit), ("is_hold", OsuNoteMeta.is_hold),
            ("is_tp", OsuTimingPointMeta.is_timing_point),
            ("is_sv", OsuTimingPointMeta.is_slider_velocity),
            ("hit.is_hit", OsuHit.is_hit), ("bpm.is_tp", OsuBpm.is_timing_point),
        ):
            r = attempt(f"{tag}.{name}", fn, s)
            emit(tag, name, canon_val(r))
        for keys in (1, 4, 7, 18):
            for as_dict in (False, True):
                for name, fn in (("hit", OsuHit.read_string), ("hold", OsuHold.read_string)):
                    r = attempt(f"{tag}.{name}.{keys}.{as_dict}", fn, s, keys, as_dict)
                    dump_item(f"{tag}.{name}.{keys}.{as_dict}", r)
                    if r is not None and not as_dict:
                        for wk in (keys, 4):
                            emit(tag, name, "write", wk,
                                 repr(attempt(f"{tag}.{name}.write", r.write_string, wk)))
        for as_dict in (False, True):
            for name, fn in (("bpm", OsuBpm.read_string), ("sv", OsuSv.read_string),
                             ("sample", OsuSample.read_string)):
                r = attempt(f"{tag}.{name}.{as_dict}", fn, s, as_dict)
                dump_item(f"{tag}.{name}.{as_dict}", r)
                if r is not None and not as_dict:
                    emit(tag, name, "write", repr(attempt(f"{tag}.{name}.write", r.write_string)))

    # list readers: empty, singletons, mixtures, one bad line among good ones
    hits = [s for s in cases if isinstance(s, str) and OsuNoteMeta.is_hit(s)]
    holds = [s for s in cases if isinstance(s, str) and OsuNoteMeta.is_hold(s)]
    bpms = [s for s in cases if isinstance(s, str) and OsuTimingPointMeta.is_timing_point(s)]
    svs = [s for s in cases if isinstance(s, str) and OsuTimingPointMeta.is_slider_velocity(s)]
    for keys in (1, 4, 9, 18):
        for name, cls, src in (("hits", OsuHitList, hits), ("holds", OsuHoldList, holds)):
            for sel in ([], src[:1], src[:7], src, src[::-1], hits[:2] + holds[:2]):
                before = list(sel)
                r = attempt(f"CL.{name}.{keys}.{len(sel)}", cls.read, sel, keys)
                emit("CL", name, keys, "input-unchanged", sel == before)
                if r is not None:
                    dump_list(f"CL.{name}.{keys}.{len(sel)}", r)
                    emit("CL", name, "write", attempt("CL.write", r.write, keys))
    for name, cls, src in (("bpms", OsuBpmList, bpms), ("svs", OsuSvList, svs)):
        for sel in ([], src[:1], src[:9], src, bpms[:2] + svs[:2]):
            r = attempt(f"CL.{name}.{len(sel)}", cls.read, sel)
            if r is not None:
                dump_list(f"CL.{name}.{len(sel)}", r)
                emit("CL", name, "write", attempt("CL.write", r.write))

    # whole-file reader on malformed files
    base = gen_text(4, 3, 2, 1, 1, 1)
    bad_files = [
        [], [""], ["[TimingPoints]"], ["[HitObjects]"], ["[HitObjects]", "[TimingPoints]"],
        ["[TimingPoints]", "[HitObjects]"],
        [ln for ln in base if ln != "[TimingPoints]"],
        [ln for ln in base if ln != "[HitObjects]"],
        base + ["64,1:92,1000,1,0,0:0:0:5"],
        base + ["6:4,192,1000,1,0,0:0:0:"],
        base + ["64,192,1000,128,0,end:0:0:0:0:"],
        base[:base.index("[HitObjects]")] + ["1000,0,4,0,0,50,1,0"] + base[base.index("[HitObjects]"):],
        base[:base.index("[HitObjects]")] + ["1000,0,4,0,0,50,0,0"] + base[base.index("[HitObjects]"):],
        [("CircleSize:0" if ln.startswith("CircleSize") else ln) for ln in base],
        [("CircleSize:abc" if ln.startswith("CircleSize") else ln) for ln in base],
        [("AudioLeadIn" if ln.startswith("AudioLeadIn") else ln) for ln in base],
        [("Title" if ln.startswith("Title:") else ln) for ln in base],
        [ln for ln in base if not ln.startswith("CircleSize")],
        base[:base.index("//Background and Video events") + 1] + ["[TimingPoints]", "[HitObjects]"],
        ["//Background and Video events", "[TimingPoints]", "[HitObjects]"],
        ["//Storyboard Sound Samples", "Sample,1,0", "[TimingPoints]", "[HitObjects]"],
    ]
    for i, f in enumerate(bad_files):
        r = attempt(f"CF{i}.read", OsuMap.read, f)
        if r is not None:
            dump_map(f"CF{i}", r)
            w = attempt(f"CF{i}.write", r.write)
            emit(f"CF{i}", "write", w)

    # charts outside the domain: the same exception (or value) must come out
    for i, (what, val) in enumerate(
        [("bpm", 0.0), ("sv", 0.0), ("cs", 0), ("cs", float("nan")), ("cs", None),
         ("cs-empty", float("nan")), ("cs-empty", None), ("offset", float("nan")),
         ("offset", float("inf")), ("col", 99), ("col", -1)]
    ):
        m = build_chart(4, 3, 2, 2, 2, 0, False)
        if what == "bpm":
            m.bpms.bpm = val
        elif what == "sv":
            m.svs.multiplier = val
        elif what == "cs":
            m.circle_size = val
        elif what == "cs-empty":
            m.circle_size = val
            m.hits = OsuHitList([])
            m.holds = OsuHoldList([])
        elif what == "offset":
            m.hits.offset = val
        elif what == "col":
            m.hits.column = val
        w = attempt(f"CX{i}.{what}.write", m.write)
        emit(f"CX{i}", what, w)


def dump_item(tag: str, r) -> None:
    if r is None:
        return
    if isinstance(r, dict):
        emit(tag, "dict", [(k, canon_val(v)) for k, v in r.items()])
    else:
        s = r.data
        emit(tag, type(r).__name__, str(s.dtype), list(s.index), [canon_val(v) for v in s.tolist()])


def main() -> None:
    section_read_roundtrip()
    section_write_roundtrip()
    section_lines()
    text = "\n".join(OUT)
    if os.environ.get("DEMO_DUMP"):
        with open(os.environ["DEMO_DUMP"], "w", encoding="utf8") as f:
            f.write(text)
    print("DIGEST", hashlib.sha256(text.encode("utf8", "backslashreplace")).hexdigest())


if __name__ == "__main__":
    main()
