"""Demo for change 3 (scroll_speed): broad, seeded inputs -> one DIGEST line."""
import hashlib
import random
import warnings

import numpy as np
import pandas as pd

from reamber.algorithms.analysis import scroll_speed
from reamber.base.Hit import Hit
from reamber.base.Hold import Hold
from reamber.base.Bpm import Bpm
from reamber.base.Map import Map
from reamber.base.lists.BpmList import BpmList
from reamber.base.lists.notes.HitList import HitList
from reamber.base.lists.notes.HoldList import HoldList
from reamber.osu import OsuMap
from reamber.osu.OsuHit import OsuHit
from reamber.osu.OsuHold import OsuHold
from reamber.osu.OsuBpm import OsuBpm
from reamber.osu.OsuSv import OsuSv
from reamber.osu.lists.OsuBpmList import OsuBpmList
from reamber.osu.lists.OsuSvList import OsuSvList
from reamber.osu.lists.notes.OsuHitList import OsuHitList
from reamber.osu.lists.notes.OsuHoldList import OsuHoldList
from reamber.quaver import QuaMap
from reamber.quaver.QuaBpm import QuaBpm
from reamber.quaver.QuaSv import QuaSv
from reamber.quaver.QuaHit import QuaHit
from reamber.quaver.QuaHold import QuaHold
from reamber.quaver.lists.QuaBpmList import QuaBpmList
from reamber.quaver.lists.QuaSvList import QuaSvList
from reamber.quaver.lists.notes.QuaHitList import QuaHitList
from reamber.quaver.lists.notes.QuaHoldList import QuaHoldList
from reamber.sm import SMMap
from reamber.sm.SMBpm import SMBpm
from reamber.sm.SMHit import SMHit
from reamber.sm.SMHold import SMHold
from reamber.sm.lists.SMBpmList import SMBpmList
from reamber.sm.lists.notes import SMHitList, SMHoldList

warnings.simplefilter("ignore")
random.seed(150035)

OUT = []


def emit(*a):
    OUT.append(" ".join(str(x) for x in a))


def dump_df(tag, df):
    emit(tag, "type", type(df).__name__, "shape", df.shape)
    emit(tag, "columns", list(df.columns))
    emit(tag, "dtypes", [str(t) for t in df.dtypes])
    emit(tag, "index", type(df.index).__name__, str(df.index.dtype), list(df.index))
    for row in df.itertuples(index=True, name=None):
        emit(tag, "row", [(type(v).__name__, repr(v)) for v in row])


def dump_series(tag, s):
    emit(tag, "type", type(s).__name__, "len", len(s), "dtype", str(s.dtype), "name", repr(s.name))
    emit(tag, "index", type(s.index).__name__, str(s.index.dtype), "name", repr(s.index.name))
    for k, v in zip(s.index, s):
        emit(tag, "item", type(k).__name__, repr(k), type(v).__name__, repr(v))


def dump_map(tag, m):
    emit(tag, "class", type(m).__name__, "objs", list(m.objs.keys()))
    for k, v in m.objs.items():
        emit(tag, k, type(v).__name__)
        dump_df(tag + "." + k, v.df)


KINDS = {
    "base": dict(map=Map, hits=HitList, holds=HoldList, bpms=BpmList, svs=None,
                 hit=lambda o, c: Hit(offset=o, column=c),
                 hold=lambda o, c, l: Hold(offset=o, column=c, length=l),
                 bpm=lambda o, b: Bpm(offset=o, bpm=b), sv=None),
    "sm": dict(map=SMMap, hits=SMHitList, holds=SMHoldList, bpms=SMBpmList, svs=None,
               hit=lambda o, c: SMHit(offset=o, column=c),
               hold=lambda o, c, l: SMHold(offset=o, column=c, length=l),
               bpm=lambda o, b: SMBpm(offset=o, bpm=b), sv=None),
    "osu": dict(map=OsuMap, hits=OsuHitList, holds=OsuHoldList, bpms=OsuBpmList, svs=OsuSvList,
                hit=lambda o, c: OsuHit(offset=o, column=c),
                hold=lambda o, c, l: OsuHold(offset=o, column=c, length=l),
                bpm=lambda o, b: OsuBpm(offset=o, bpm=b),
                sv=lambda o, x: OsuSv(offset=o, multiplier=x)),
    "qua": dict(map=QuaMap, hits=QuaHitList, holds=QuaHoldList, bpms=QuaBpmList, svs=QuaSvList,
                hit=lambda o, c: QuaHit(offset=o, column=c, keysounds=[]),
                hold=lambda o, c, l: QuaHold(offset=o, column=c, length=l, keysounds=[]),
                bpm=lambda o, b: QuaBpm(offset=o, bpm=b),
                sv=lambda o, x: QuaSv(offset=o, multiplier=x)),
}
ORDERS = ["shuffled", "sorted", "reverse", "append", "concat"]


def order_list(cls, items, order):
    if not items:
        return cls([])
    tl = cls(items)
    if order == "sorted":
        return tl.sorted()
    if order == "reverse":
        return tl.sorted(reverse=True)
    if order == "append":
        out = cls([items[0]])
        for it in items[1:]:
            out = out.append(it)  # sort=False
        return out
    if order == "concat" and len(items) > 1:
        h = len(items) // 2
        return cls(items[h:]).append(cls(items[:h]))
    return tl


GRID = [-2000, -500, 0, 0, 250, 500, 1000, 1000, 1500.5, 3000, 8000, 20000]
BPMS = [60, 100, 120, 120, 150.5, 200, 240, 0.5, 999]
MULTS = [0.1, 0.5, 1.0, 1.0, 1.5, 2.0, 10.0, 0.0, -1.0]


def make_map(kind, n_hits, n_holds, n_bpms, n_svs, order):
    K = KINDS[kind]
    hits = [K["hit"](float(random.choice(GRID)), random.randrange(4)) for _ in range(n_hits)]
    holds = [K["hold"](float(random.choice(GRID)), random.randrange(4),
                       float(random.choice([10, 100, 5000]))) for _ in range(n_holds)]
    bpms = [K["bpm"](float(random.choice(GRID)), float(random.choice(BPMS))) for _ in range(n_bpms)]
    m = K["map"]()
    m.hits = order_list(K["hits"], hits, order)
    m.holds = order_list(K["holds"], holds, order)
    m.bpms = order_list(K["bpms"], bpms, order)
    if K["svs"] is not None:
        svs = [K["sv"](float(random.choice(GRID)), float(random.choice(MULTS)))
               for _ in range(n_svs)]
        m.svs = order_list(K["svs"], svs, order)
    return m


OVERRIDES = [None, None, None, 0, 0.0, 120.0, 200, -50.0, np.float64(150.0), float("nan")]

cases = []
for i in range(90):
    kind = random.choice(list(KINDS))
    m = make_map(kind, random.choice([0, 1, 2, 5, 10]), random.choice([0, 0, 1, 4]),
                 random.choice([0, 1, 1, 2, 3, 5]), random.choice([0, 0, 1, 3, 6]),
                 random.choice(ORDERS))
    cases.append((f"gen{i}_{kind}", m, random.choice(OVERRIDES)))


def osu_map(hits, bpms, svs):
    m = OsuMap()
    m.hits = OsuHitList([OsuHit(offset=o, column=0) for o in hits]) if hits else OsuHitList([])
    m.bpms = OsuBpmList([OsuBpm(offset=o, bpm=b) for o, b in bpms]) if bpms else OsuBpmList([])
    m.svs = OsuSvList([OsuSv(offset=o, multiplier=x) for o, x in svs]) if svs else OsuSvList([])
    return m


def base_map(hits, bpms):
    m = Map()
    m.hits = HitList([Hit(offset=o, column=0) for o in hits]) if hits else HitList([])
    m.bpms = BpmList([Bpm(offset=o, bpm=b) for o, b in bpms]) if bpms else BpmList([])
    return m


# edge cases
for ov in (None, 100.0):
    cases.append(("edge_empty_osu", osu_map([], [], []), ov))
    cases.append(("edge_empty_base", base_map([], []), ov))
    cases.append(("edge_no_notes", osu_map([], [(0.0, 120.0)], [(10.0, 2.0)]), ov))
    cases.append(("edge_no_bpms", osu_map([0.0, 100.0], [], [(10.0, 2.0)]), ov))
    cases.append(("edge_sv_on_bpm", osu_map([0.0, 5000.0], [(0.0, 120.0), (1000.0, 240.0)],
                                            [(1000.0, 0.5), (0.0, 2.0), (0.0, 3.0)]), ov))
    cases.append(("edge_sv_on_bpm_rev", osu_map([5000.0, 0.0], [(1000.0, 240.0), (0.0, 120.0)],
                                                [(0.0, 3.0), (0.0, 2.0), (1000.0, 0.5)]), ov))
    cases.append(("edge_bpm_after_notes", base_map([0.0, 100.0], [(0.0, 100.0), (900.0, 300.0)]), ov))
    cases.append(("edge_bpm_before_notes", base_map([1000.0, 2000.0], [(-100.0, 100.0), (0.0, 50.0)]), ov))
    cases.append(("edge_dup_bpm", base_map([0.0, 4000.0], [(0.0, 100.0), (0.0, 200.0), (2000.0, 100.0)]), ov))
    cases.append(("edge_int_values", base_map([0, 4000], [(0, 100), (2000, 200)]), ov))
    cases.append(("edge_one_note", osu_map([700.0], [(0.0, 175.0)], [(700.0, 1.25)]), ov))
    cases.append(("edge_zero_neg_bpm", base_map([0.0, 3000.0], [(0.0, 0.0), (1000.0, -120.0), (2000.0, 60.0)]), ov))

for name, m, ov in cases:
    before = m.deepcopy()
    emit("CASE", name, "override", type(ov).__name__, repr(ov))
    for call in ("kw", "pos"):
        try:
            if ov is None and call == "pos":
                res = scroll_speed(m)
            elif call == "pos":
                res = scroll_speed(m, ov)
            else:
                res = scroll_speed(m, override_bpm=ov)
        except Exception as e:  # noqa
            emit("RAISED", type(e).__name__)
        else:
            dump_series("res", res)
    dump_map("in_after", m)
    for k in m.objs:
        emit("in unchanged", k, m.objs[k].df.equals(before.objs[k].df))

text = "\n".join(OUT)
print("DIGEST", hashlib.sha256(text.encode("utf8")).hexdigest())
