"""F60 (C20): `a | b` / `a & b` on pattern filters return a base PtnFilter: class, keys and inversion of the operands are lost and
filter() (a stub in the base class) returns None — passed as combo_filter it indexes `combos[None]` instead of filtering.
Run: PYTHONPATH=<tree> /venv/bin/python F60_combined_filter_unusable.py   (exit 1 = defect present)"""
import sys
import numpy as np
from reamber.algorithms.pattern.filters import PtnFilterCombo
from reamber.algorithms.pattern import Pattern
from reamber.algorithms.pattern.combos import PtnCombo
from reamber.base.Hit import Hit

c = PtnFilterCombo.create([[0, 0]], keys=4)
d = PtnFilterCombo.create([[1, 1]], keys=4)
e = c | d
got = e.filter(np.array([[0, 0], [1, 1], [2, 3]]))
print(type(e).__name__, e.keys, got)
bad = type(e) is not PtnFilterCombo or e.keys != 4 or got is None or list(got) != [True, True, False]
p = Pattern([0, 0, 1, 1, 2, 3], [0, 100, 200, 300, 400, 500], [Hit] * 6)
try:
    out = PtnCombo(p.group(0)).combinations(size=2, combo_filter=e.filter)
    cols = sorted(tuple(int(x) for x in r["column"]) for grp in out for r in grp)
    print("combinations kept:", cols)
    bad = bad or cols != [(0, 0), (1, 1)]
except Exception as ex:
    print("combinations raised", type(ex).__name__, ex)
    bad = True
if bad:
    print("DEFECT: the combined filter does not filter")
    sys.exit(1)
print("ok")
