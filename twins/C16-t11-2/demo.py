"""Demo for C16 / change 2: TimedList.__init__ and TimedList.from_dict
(plus empty / append, which build on them).

Run:  cd /tmp/wt7/C16 && PYTHONPATH=/tmp/wt7/C16 /venv/bin/python demo.py
Prints one line ``DIGEST <sha256>`` over a canonical dump of every result.
"""
import copy
import hashlib
import importlib
import inspect
import math
import os
import pkgutil
import random
import warnings

import numpy as np
import pandas as pd

import reamber
from reamber.base.Timed import Timed
from reamber.base.Hit import Hit
from reamber.base.Hold import Hold
from reamber.base.Series import Series
from reamber.base.lists.TimedList import TimedList

random.seed(160002)

for _m in pkgutil.walk_packages(reamber.__path__, "reamber."):
    if ".algorithms" in _m.name:
        continue
    importlib.import_module(_m.name)


def _subs(c):
    out = []
    for s in c.__subclasses__():
        out.append(s)
        out += _subs(s)
    return out


CLASSES = sorted(
    (c for c in set([TimedList] + _subs(TimedList)) if not inspect.isabstract(c)),
    key=lambda c: (c.__module__, c.__name__),
)

OUT = []


def emit(*parts):
    OUT.append(" | ".join(str(p) for p in parts))


def cell(v):
    if isinstance(v, float):
        return f"{type(v).__name__}:{v!r}:{math.copysign(1, v) if v == 0 else ''}"
    if isinstance(v, type):
        return f"type:{v.__module__}.{v.__qualname__}"
    return f"{type(v).__name__}:{v!r}"


def dump_df(df):
    lines = [
        f"cols={list(df.columns)!r}",
        f"dtypes={[str(t) for t in df.dtypes]!r}",
        f"index={type(df.index).__name__}:{list(df.index)!r}",
    ]
    for lab, row in zip(df.index, df.itertuples(index=False, name=None)):
        lines.append(f"{lab!r}:" + ",".join(cell(v) for v in row))
    return "\n".join(lines)


def dump(obj):
    if isinstance(obj, TimedList):
        head = f"<{type(obj).__module__}.{type(obj).__name__}>"
        if "_df" not in vars(obj):
            return head + " NO-DF"
        return head + "\n" + dump_df(obj.df)
    if isinstance(obj, pd.DataFrame):
        return "<DataFrame>\n" + dump_df(obj)
    if isinstance(obj, pd.Series):
        return (
            f"<pd.Series name={obj.name!r} dtype={obj.dtype} "
            f"index={list(obj.index)!r}> " + ",".join(cell(v) for v in obj)
        )
    if isinstance(obj, Series):
        return f"<{type(obj).__module__}.{type(obj).__name__}> " + dump(obj.data)
    if isinstance(obj, np.ndarray):
        return f"<ndarray {obj.dtype} {obj.shape}> " + ",".join(
            cell(v) for v in obj.tolist()
        )
    if isinstance(obj, (tuple, list)):
        return f"{type(obj).__name__}(" + ";".join(dump(o) for o in obj) + ")"
    if isinstance(obj, dict):
        return "dict{" + ";".join(f"{k!r}=>{dump(v)}" for k, v in obj.items()) + "}"
    return cell(obj)


def run(label, fn, *inputs):
    """Runs fn, records result / exception (type and text) / warnings and the
    inputs as they look afterwards."""
    before = [dump(i) for i in inputs]
    res_obj = None
    with warnings.catch_warnings(record=True) as ws:
        warnings.simplefilter("always")
        try:
            res_obj = fn()
            res = dump(res_obj)
        except Exception as e:  # noqa
            res = f"RAISED {type(e).__name__}"
            if isinstance(e, (AssertionError, ValueError)):
                res += f": {e}"
    emit("CALL", label)
    emit("RES", res)
    for w in ws:
        emit("WARN", w.category.__name__, str(w.message))
    for b, i in zip(before, inputs):
        emit("INPUT-UNCHANGED", b == dump(i))
        emit("INPUT-AFTER", dump(i))
    return res_obj


OFFSET_POOL = [-1500.0, -0.5, -0.0, 0.0, 0.25, 1 / 3, 100.0, 100.0, 250.75, 1e6, 1000.0]


def gen_value(name, dtype, default, rng):
    if name == "offset":
        return rng.choice(OFFSET_POOL + [rng.uniform(-2000, 2000)])
    if name == "length":
        return rng.choice([0.0, 0.5, 100.0, 249.25, -30.0, rng.uniform(0, 1500)])
    if dtype == "float":
        return rng.choice([0.0, 1.0, 4.0, 120.0, 0.75, rng.uniform(-5, 300)])
    if dtype == "int":
        return rng.randint(0, 9)
    if dtype == "bool":
        return rng.random() < 0.5
    if dtype == "str":
        return rng.choice(["", "a.wav", "hit.ogg"])
    if isinstance(default, bytes):
        return rng.choice([b"", b"01", b"ZZ"])
    if isinstance(default, list):
        return [rng.randint(0, 3) for _ in range(rng.randint(0, 2))]
    return rng.choice(["", "clap.wav"])


def columns_of(cls):
    return list(cls._default().keys())


def make_rows(cls, n, rng):
    props = cls._item_class()._props
    return [
        {c: gen_value(c, props[c][0], props[c][1], rng) for c in columns_of(cls)}
        for _ in range(n)
    ]


def make_items(cls, n, rng):
    return [cls._item_class()(**r) for r in make_rows(cls, n, rng)]


def make_df(cls, n, rng):
    props = cls._item_class()._props
    rows = make_rows(cls, n, rng)
    return pd.DataFrame(
        {c: pd.Series([r[c] for r in rows], dtype=props[c][0]) for c in columns_of(cls)}
    )


class MyList(list):
    pass


def alias_report(tl):
    """For object columns: are mutable cells shared between rows / with the default?"""
    props = tl._item_class()._props
    out = []
    for c in tl.df.columns:
        if c in props and isinstance(props[c][1], (list, dict)):
            cells = list(tl.df[c])
            out.append(
                (
                    c,
                    len({id(x) for x in cells}) == len(cells),
                    any(x is props[c][1] for x in cells),
                )
            )
    return out


def exercise_init(cls, rng):
    name = cls.__name__
    run(f"{name}([])", lambda: cls([]))
    run(f"{name}(MyList())", lambda: cls(MyList()))
    for n in (1, 2, 5, 9):
        items = make_items(cls, n, rng)
        tl = run(f"{name}(items[{n}])", lambda: cls(items), items)
        run(f"{name}(MyList(items[{n}]))", lambda: cls(MyList(items)), items)
        run(f"{name}(item)", lambda: cls(items[-1]), items[-1])
        tl2 = run(f"{name}(tl[{n}])", lambda: cls(tl), tl)
        emit("SHARES-DF", tl2.df is tl.df)
        df = make_df(cls, n, rng)
        tl3 = run(f"{name}(df[{n}])", lambda: cls(df), df)
        emit("SHARES-DF", tl3.df is df)
        shuffled = df.sample(frac=1.0, random_state=n)
        tl4 = run(f"{name}(df-shuffled[{n}])", lambda: cls(shuffled), shuffled)
        emit("SHARES-DF", tl4.df is shuffled)
        # wrongly typed members, fewer and more than the five that get reported
        junk_pool = [1, 2.5, "x", b"y", None, [], {}, (1,), np.int64(3), True, object]
        for k in (1, 3, 5, 6, 9):
            junk = [rng.choice(junk_pool) for _ in range(k)]
            mixed = items + junk
            rng.shuffle(mixed)
            run(f"{name}(mixed {n}+{k})", lambda: cls(mixed), mixed)
            run(f"{name}(junk {k})", lambda: cls(junk), junk)
        # not a list at all: nothing is stored
        for label, bad in (
            ("tuple", tuple(items)),
            ("None", None),
            ("int", 5),
            ("str", "abc"),
            ("ndarray", np.array([1.0, 2.0])),
            ("set", set()),
            ("dict", {"offset": [1.0]}),
            ("series", items[0].data),
        ):
            run(f"{name}({label})", lambda: cls(bad))
            run(f"{name}({label}).df", lambda: cls(bad).df)
        # items of other classes are still Timed
        others = [Timed(offset=5.5), Hit(offset=-1.0, column=2)] + items
        run(f"{name}(cross-class)", lambda: cls(others), others)
        holds = [Hold(offset=1.0, column=0, length=20.0)] + items[:1]
        run(f"{name}(cross-class-2)", lambda: cls(holds), holds)
    # a base-class list handed to a subclass and the reverse
    base = TimedList([Timed(offset=3.0), Timed(offset=-3.0)])
    run(f"{name}(TimedList)", lambda: cls(base), base)
    run(f"TimedList({name})", lambda: TimedList(cls(make_items(cls, 2, rng))))


def exercise_from_dict(cls, rng):
    name = cls.__name__
    cols = columns_of(cls)
    for d in ({}, [], None, (), 0, ""):
        run(f"{name}.from_dict({d!r})", lambda: cls.from_dict(d))
    for n in (1, 3, 7):
        rows = make_rows(cls, n, rng)
        tl = run(f"{name}.from_dict(rows[{n}])", lambda: cls.from_dict(rows), rows)
        emit("ALIAS", alias_report(tl))
        by_col = {c: [r[c] for r in rows] for c in cols}
        run(f"{name}.from_dict(cols[{n}])", lambda: cls.from_dict(by_col), by_col)
        perm = cols[:]
        rng.shuffle(perm)
        by_col_p = {c: by_col[c] for c in perm}
        run(f"{name}.from_dict(cols-perm[{n}])", lambda: cls.from_dict(by_col_p), by_col_p)
        # some columns only: the others are filled with (own copies of) the default
        for _ in range(4):
            k = rng.randint(0, len(cols))
            some = rng.sample(cols, k)
            part_rows = [{c: r[c] for c in some} for r in rows]
            tl = run(
                f"{name}.from_dict(rows[{n}] only {some})",
                lambda: cls.from_dict(part_rows),
                part_rows,
            )
            if tl is not None:
                emit("ALIAS", alias_report(tl))
            part_cols = {c: by_col[c] for c in some}
            tl = run(
                f"{name}.from_dict(cols[{n}] only {some})",
                lambda: cls.from_dict(part_cols),
                part_cols,
            )
            if tl is not None:
                emit("ALIAS", alias_report(tl))
        only_offset = {"offset": by_col["offset"]}
        tl = run(f"{name}.from_dict(offset only)", lambda: cls.from_dict(only_offset))
        emit("ALIAS", alias_report(tl))
        # ragged rows
        ragged = [dict(r) for r in rows]
        for r in ragged[::2]:
            r.pop(rng.choice(cols))
        run(f"{name}.from_dict(ragged[{n}])", lambda: cls.from_dict(ragged), ragged)
        # columns that are not fields
        for extra in ("bogus", "Offset", 0, ("offset",), "offsets"):
            bad_cols = dict(by_col)
            bad_cols[extra] = [1] * n
            run(f"{name}.from_dict(+{extra!r})", lambda: cls.from_dict(bad_cols), bad_cols)
            bad_rows = [dict(r) for r in rows]
            bad_rows[-1][extra] = 1
            run(f"{name}.from_dict(rows +{extra!r})", lambda: cls.from_dict(bad_rows))
        run(f"{name}.from_dict(only bogus)", lambda: cls.from_dict({"bogus": [1, 2]}))
        # other containers pandas accepts
        arr_cols = {"offset": np.array(by_col["offset"])}
        run(f"{name}.from_dict(ndarray)", lambda: cls.from_dict(arr_cols), arr_cols)
        ser_cols = {"offset": pd.Series(by_col["offset"], index=range(10, 10 + n))}
        tl = run(f"{name}.from_dict(series idx)", lambda: cls.from_dict(ser_cols), ser_cols)
        emit("ALIAS", alias_report(tl))
        int_cols = {"offset": [int(v) for v in by_col["offset"]]}
        run(f"{name}.from_dict(int offsets)", lambda: cls.from_dict(int_cols), int_cols)
    run(f"{name}.from_dict([{{}}])", lambda: cls.from_dict([{}]))
    run(f"{name}.from_dict([{{}},{{}}])", lambda: cls.from_dict([{}, {}]))
    run(f"{name}.from_dict(offset=[])", lambda: cls.from_dict({"offset": []}))
    run(f"{name}.from_dict(scalar)", lambda: cls.from_dict({"offset": 1.0}))
    run(f"{name}.from_dict(uneven)", lambda: cls.from_dict({"offset": [1.0], cols[0]: [1, 2]}))


def exercise_empty_append(cls, rng):
    name = cls.__name__
    for n in (0, 1, 4):
        tl = run(f"{name}.empty({n})", lambda: cls.empty(n))
        emit("ALIAS", alias_report(tl))
    base = cls(make_df(cls, 4, rng))
    item = make_items(cls, 1, rng)[0]
    other = cls(make_items(cls, 3, rng))
    for sort in (False, True):
        run(f"{name}.append(item,{sort})", lambda: base.append(item, sort), base, item)
        run(f"{name}.append(tl,{sort})", lambda: base.append(other, sort=sort), base, other)
        run(
            f"{name}.append(pd.Series,{sort})",
            lambda: base.append(item.data, sort),
            base,
            item.data,
        )
        run(f"{name}.append(df,{sort})", lambda: base.append(other.df, sort), base, other.df)
        run(f"{name}.append(empty,{sort})", lambda: base.append(cls([]), sort), base)
        run(f"{name}([]).append(item,{sort})", lambda: cls([]).append(item, sort), item)
        run(
            f"{name}.from_dict().append(tl,{sort})",
            lambda: cls.from_dict({"offset": [9.0, -9.0]}).append(other, sort),
            other,
        )


def main():
    rng = random.Random(1600022)
    for cls in CLASSES:
        exercise_init(cls, rng)
        exercise_from_dict(cls, rng)
        exercise_empty_append(cls, rng)
    text = "\n".join(OUT)
    if os.environ.get("C16_DUMP"):
        with open(os.environ["C16_DUMP"], "w", encoding="utf8", errors="backslashreplace") as f:
            f.write(text)
    print("DIGEST", hashlib.sha256(text.encode("utf8", "backslashreplace")).hexdigest())


if __name__ == "__main__":
    main()
