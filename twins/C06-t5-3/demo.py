"""Differential demo for property C06 (Quaver file <-> in-memory chart).

Run as:  cd /tmp/wt6/C06 && PYTHONPATH=/tmp/wt6/C06 /venv/bin/python demo.py
Prints one line ``DIGEST <sha256>`` over a canonical dump of everything observed.
"""
import copy
import hashlib
import random
import warnings
from pathlib import Path

import numpy as np
import pandas as pd
import yaml

import reamber
from reamber.quaver import QuaMap
from reamber.quaver.QuaHit import QuaHit
from reamber.quaver.QuaHold import QuaHold
from reamber.quaver.QuaBpm import QuaBpm
from reamber.quaver.QuaSv import QuaSv
from reamber.quaver.lists.QuaBpmList import QuaBpmList
from reamber.quaver.lists.QuaSvList import QuaSvList
from reamber.quaver.lists.notes.QuaHitList import QuaHitList
from reamber.quaver.lists.notes.QuaHoldList import QuaHoldList

warnings.simplefilter("ignore")
random.seed(60606)
np.random.seed(60606)

ROOT = Path(reamber.__file__).resolve().parents[1]
MAPS = ROOT / "rsc" / "maps"

OUT = []


def emit(*parts):
    OUT.append(" | ".join(str(p) for p in parts))


# --------------------------------------------------------------------------- #
# canonical dumps
# --------------------------------------------------------------------------- #
def canon(v):
    """Canonical text of a python / numpy value including its type."""
    if isinstance(v, dict):
        return "{" + ", ".join(f"{canon(k)}: {canon(x)}" for k, x in v.items()) + "}"
    if isinstance(v, (list, tuple)):
        return type(v).__name__ + "[" + ", ".join(canon(x) for x in v) + "]"
    if isinstance(v, np.ndarray):
        return f"ndarray<{v.dtype}>[" + ", ".join(canon(x) for x in v.tolist()) + "]"
    if isinstance(v, float) or isinstance(v, np.floating):
        return f"{type(v).__name__}:{float(v)!r}"
    return f"{type(v).__name__}:{v!r}"


def dump_df(df):
    if not isinstance(df, pd.DataFrame):
        return "NOT-A-DF " + canon(df)
    lines = [
        "cols=" + canon(list(df.columns)),
        "dtypes=" + canon([str(t) for t in df.dtypes]),
        "index=" + f"{type(df.index).__name__}<{df.index.dtype}>" + canon(list(df.index)),
    ]
    for i in range(len(df)):
        lines.append("row " + canon([df.iloc[i, j] for j in range(df.shape[1])]))
    return "\n".join(lines)


META_FIELDS = [
    "audio_file", "song_preview_time", "background_file", "banner_file", "genre",
    "bpm_does_not_affect_scroll_velocity", "initial_scroll_velocity",
    "has_scratch_key", "map_id", "map_set_id", "mode", "title", "artist", "source",
    "tags", "creator", "difficulty_name", "description", "editor_layers",
    "custom_audio_samples", "sound_effects",
]


def dump_map(m):
    lines = [type(m).__name__, "objs=" + canon(list(m.objs.keys()))]
    for name in ("hits", "holds", "bpms", "svs"):
        lst = getattr(m, name)
        lines.append(f"-- {name} {type(lst).__name__}")
        lines.append(dump_df(lst.df))
    for f in META_FIELDS:
        lines.append(f"{f}=" + canon(getattr(m, f)))
    lines.append("metadata()=" + canon(m.metadata()))
    return "\n".join(lines)


def attempt(label, fn):
    """Run fn, emit its canonical result or the exception type."""
    try:
        r = fn()
    except BaseException as e:  # noqa
        emit(label, "RAISED", type(e).__name__)
        return None
    emit(label, "OK")
    return r


# --------------------------------------------------------------------------- #
# A. generated .qua documents
# --------------------------------------------------------------------------- #
NASTY = [
    "plain", "colon: inside", "# hash first", "- dash first", "'single' quote",
    '"double" quote', "yes", "no", "null", "~", "123", "1.5", "1e3", "true",
    " leading space", "trailing space ", "multi\nline", "tab\there", "ünïcödé 曲",
    "[bracket]", "{brace}", "a, b", "&anchor", "*alias", "!tag", "%percent", "@at",
    "`tick`", "", "|", ">", "key: value: again", "0x1F", "1_000", "2020-01-01",
    "back\\slash", "? question",
]


def rand_time():
    k = random.random()
    if k < 0.1:
        return 0
    if k < 0.2:
        return -random.randint(1, 5000)
    if k < 0.35:
        return round(random.uniform(-100, 200000), random.choice([1, 3, 6]))
    if k < 0.45:
        return random.choice([1000, 2000, 3000])  # ties
    return random.randint(0, 300000)


def rand_keysounds():
    k = random.random()
    if k < 0.3:
        return []
    n = random.randint(1, 3)
    return [
        dict(Sample=random.randint(1, 20), Volume=random.randint(0, 100))
        if random.random() < 0.7
        else dict(Sample=random.randint(1, 20))
        for _ in range(n)
    ]


def rand_note(lanes, force=None, omit_p=0.25):
    d = {}
    hold = force == "hold" or (force is None and random.random() < 0.4)
    if random.random() > omit_p:
        d["StartTime"] = rand_time()
    if random.random() > omit_p * 0.4:
        d["Lane"] = random.randint(1, lanes)
    if hold:
        base = d.get("StartTime", 0)
        d["EndTime"] = base + random.choice(
            [0, 1, random.randint(1, 5000), round(random.uniform(0, 900), 2)]
        )
    if random.random() > omit_p:
        d["KeySounds"] = rand_keysounds()
    if random.random() < 0.05:
        d["EditorLayer"] = random.randint(0, 3)  # an unknown key, to be dropped
    items = list(d.items())
    random.shuffle(items)
    return dict(items)


def rand_bpm(omit_p=0.25):
    d = {}
    if random.random() > omit_p:
        d["StartTime"] = rand_time()
    if random.random() > omit_p * 0.5:
        d["Bpm"] = random.choice(
            [120, 60.5, 0, -10, 999.999, random.uniform(1, 400), random.randint(1, 400)]
        )
    return d


def rand_sv(omit_p=0.25):
    d = {}
    if random.random() > omit_p:
        d["StartTime"] = rand_time()
    if random.random() > omit_p:
        d["Multiplier"] = random.choice(
            [1, 1.0, 0, 0.5, -1.25, 10, random.uniform(0, 10)]
        )
    return d


def rand_meta():
    d = {}
    keys = dict(
        AudioFile=str, SongPreviewTime=int, BackgroundFile=str, BannerFile=str,
        Genre=str, BPMDoesNotAffectScrollVelocity=bool, InitialScrollVelocity=float,
        HasScratchKey=bool, MapId=int, MapSetId=int, Mode="mode", Title=str,
        Artist=str, Source=str, Tags="tags", Creator=str, DifficultyName=str,
        Description=str, EditorLayers=list, CustomAudioSamples=list, SoundEffects=list,
    )
    for k, t in keys.items():
        if random.random() < 0.35:
            continue
        if t is str:
            d[k] = random.choice(NASTY)
        elif t is int:
            d[k] = random.choice([-1, 0, 1, 123456, -99])
        elif t is bool:
            d[k] = random.random() < 0.5
        elif t is float:
            d[k] = random.choice([1.0, 0.0, 2.5, -3.25, 1])
        elif t == "mode":
            d[k] = random.choice(["Keys4", "Keys7", "Keys8", "Keys1", "Keys10"])
        elif t == "tags":
            d[k] = random.choice(
                ["", "a b c", "  double  spaced ", "one", None, 123, "t: x #y"]
            )
        elif t is list:
            d[k] = random.choice(
                [[], [dict(Name="L", Hidden=False)], [dict(Path="x.wav")], None]
            )
    if random.random() < 0.2:
        d["UnknownKey"] = "ignored"
    return d


def gen_doc(i):
    lanes = random.choice([1, 2, 3, 4, 5, 6, 7, 8, 9, 10])
    shape = i % 8
    n = random.randint(1, 12)
    if shape == 0:
        notes = [rand_note(lanes) for _ in range(n)]
    elif shape == 1:
        notes = [rand_note(lanes, "hit") for _ in range(n)]
    elif shape == 2:
        notes = [rand_note(lanes, "hold") for _ in range(n)]
    elif shape == 3:
        notes = []
    elif shape == 4:
        notes = [rand_note(lanes, omit_p=0.0) for _ in range(n)]
    elif shape == 5:
        notes = [rand_note(lanes, omit_p=0.9) for _ in range(n)]
    elif shape == 6:
        notes = [rand_note(lanes, random.choice(["hit", "hold"])) for _ in range(1)]
    else:
        notes = [rand_note(lanes) for _ in range(40)]
    doc = rand_meta()
    sect = random.random()
    bpms = [rand_bpm() for _ in range(random.randint(0, 4))]
    svs = [rand_sv() for _ in range(random.randint(0, 5))]
    # sections: present, empty list, null, or omitted
    for key, val in (
        ("TimingPoints", bpms), ("SliderVelocities", svs), ("HitObjects", notes)
    ):
        r = random.random()
        if not val and r < 0.4:
            continue  # omitted
        if not val and r < 0.6:
            doc[key] = None
            continue
        doc[key] = val
    items = list(doc.items())
    if sect < 0.5:
        random.shuffle(items)
    return dict(items)


def section_a():
    for i in range(64):
        doc = gen_doc(i)
        text = yaml.safe_dump(doc, allow_unicode=True, sort_keys=False)
        emit("A", i, "doc-sha", hashlib.sha256(text.encode()).hexdigest()[:16])
        for variant, arg in (("str", text), ("lines", text.split("\n"))):
            arg_before = copy.deepcopy(arg)
            m = attempt(f"A{i}.read.{variant}", lambda: QuaMap.read(arg))
            emit(f"A{i}.arg-unchanged.{variant}", arg == arg_before)
            if m is None:
                continue
            emit(dump_map(m))
            snap = dump_map(m)
            w = attempt(f"A{i}.write.{variant}", lambda: m.write())
            emit(f"A{i}.map-unchanged-by-write", dump_map(m) == snap)
            if w is None:
                continue
            emit(w)
            emit("reparsed", canon(yaml.safe_load(w)))
            m2 = attempt(f"A{i}.reread.{variant}", lambda: QuaMap.read(w))
            if m2 is None:
                continue
            emit(dump_map(m2))
            w2 = attempt(f"A{i}.rewrite.{variant}", lambda: m2.write())
            emit("fixpoint", w2 == w)
            emit(w2)


# --------------------------------------------------------------------------- #
# B. from_yaml on raw dict lists (edge cases, exceptions, input non-mutation)
# --------------------------------------------------------------------------- #
def section_b():
    hit_cases = [
        [],
        [dict(StartTime=1, Lane=1, KeySounds=[])],
        [dict(Lane=3)],
        [dict(StartTime=5)],
        [dict(KeySounds=[dict(Sample=1)])],
        [dict()],
        [dict(StartTime=1.5, Lane=2), dict(Lane=1, KeySounds=[dict(Sample=2, Volume=3)])],
        [dict(StartTime=-5, Lane=10, KeySounds=None)],
        [dict(StartTime=3, Lane=1, KeySounds="str")],
        [dict(StartTime=3, Lane=1, Extra=1, index=5)],
        [dict(StartTime=True, Lane=True)],
        [dict(StartTime="7", Lane=1)],
        [dict(StartTime=1, Lane="2")],
        [dict(StartTime=None, Lane=None, KeySounds=None)],
        [dict(StartTime=2, Lane=1), dict(StartTime=2, Lane=1), dict(StartTime=1, Lane=2)],
        [dict(offset=9, Lane=1)],
        [dict(offset=9, StartTime=3, Lane=1)],
        [dict(StartTime=2**40, Lane=4)],
        [1, 2],
        [None],
        "abc",
        None,
        [dict(StartTime=1, Lane=1, KeySounds=[]), None],
    ]
    hold_cases = [
        [],
        [dict(StartTime=1, Lane=1, EndTime=5, KeySounds=[])],
        [dict(Lane=3, EndTime=100)],
        [dict(EndTime=100)],
        [dict(StartTime=50, EndTime=50, Lane=1)],
        [dict(StartTime=50, EndTime=20, Lane=1)],
        [dict(StartTime=50, Lane=1)],
        [dict()],
        [dict(StartTime=1.5, Lane=2, EndTime=3.25),
         dict(Lane=1, EndTime=7, KeySounds=[dict(Sample=2, Volume=3)])],
        [dict(StartTime=-5, Lane=10, EndTime=0, KeySounds=None)],
        [dict(StartTime=3, Lane=1, EndTime=4, Extra=1, index=5)],
        [dict(StartTime=None, Lane=None, EndTime=None, KeySounds=None)],
        [dict(StartTime=2, Lane=1, EndTime=3), dict(StartTime=2, Lane=1, EndTime=3)],
        [dict(StartTime=1, Lane=1, EndTime=2), dict(StartTime=1, Lane=1)],
        [dict(length=5, StartTime=1, EndTime=3, Lane=1)],
        [dict(offset=9, StartTime=3, Lane=1, EndTime=10)],
        [dict(StartTime="7", Lane=1, EndTime=9)],
        [1, 2],
        [None],
        "abc",
        None,
    ]
    bpm_cases = [
        [],
        [dict(StartTime=0, Bpm=120)],
        [dict(Bpm=200.5)],
        [dict(StartTime=100)],
        [dict()],
        [dict(StartTime=5, Bpm=100), dict(StartTime=1), dict(Bpm=-3)],
        [dict(StartTime=None, Bpm=None)],
        [dict(StartTime=1, Bpm=2, Signature=3)],
        [1],
        None,
    ]
    sv_cases = [
        [],
        [dict(StartTime=0, Multiplier=1)],
        [dict(Multiplier=2.5)],
        [dict(StartTime=100)],
        [dict()],
        [dict(StartTime=5, Multiplier=0), dict(StartTime=1), dict(Multiplier=-3)],
        [dict(StartTime=None, Multiplier=None)],
        [1],
        None,
    ]
    for name, cls, cases in (
        ("hit", QuaHitList, hit_cases), ("hold", QuaHoldList, hold_cases),
        ("bpm", QuaBpmList, bpm_cases), ("sv", QuaSvList, sv_cases),
    ):
        for i, case in enumerate(cases):
            before = copy.deepcopy(case)
            lst = attempt(f"B.{name}{i}.from_yaml", lambda: cls.from_yaml(case))
            emit(f"B.{name}{i}.input-unchanged", canon(case) == canon(before))
            if lst is None:
                continue
            emit(type(lst).__name__)
            emit(dump_df(lst.df))
            snap = dump_df(lst.df)
            y = attempt(f"B.{name}{i}.to_yaml", lambda: lst.to_yaml())
            emit(f"B.{name}{i}.df-unchanged", dump_df(lst.df) == snap)
            if y is not None:
                emit(canon(y))

    # _read_notes / _read_bpms / _read_svs directly, including malformed input
    note_inputs = [
        [],
        [dict(StartTime=1, Lane=1)],
        [dict(StartTime=1, Lane=1, EndTime=2)],
        [dict(StartTime=1, Lane=1, EndTime=None)],
        [dict(StartTime=4, Lane=2), dict(StartTime=1, Lane=1, EndTime=2),
         dict(StartTime=3, Lane=3), dict(StartTime=0, Lane=4, EndTime=9)],
        [dict(StartTime=1, Lane=1), 5],
        [5, dict(StartTime=1, Lane=1)],
        [dict(StartTime=1, Lane=1, EndTime=2), None],
        ["EndTime"],
        dict(EndTime=1),
        "xy",
        5,
        (dict(StartTime=1, Lane=1), dict(StartTime=1, Lane=1, EndTime=4)),
    ]
    for i, notes in enumerate(note_inputs):
        m = QuaMap()
        before = copy.deepcopy(notes)
        attempt(f"B.read_notes{i}", lambda: m._read_notes(notes))
        emit(f"B.read_notes{i}.input-unchanged", canon(notes) == canon(before))
        emit(dump_map(m))
    for i, rows in enumerate(bpm_cases):
        m = QuaMap()
        attempt(f"B.read_bpms{i}", lambda: m._read_bpms(rows))
        emit(dump_map(m))
    for i, rows in enumerate(sv_cases):
        m = QuaMap()
        attempt(f"B.read_svs{i}", lambda: m._read_svs(rows))
        emit(dump_map(m))

    # whole documents that are malformed or degenerate
    docs = [
        "", "{}", "[]", "HitObjects: 5", "HitObjects: [1, 2]", "HitObjects: abc",
        "HitObjects: {EndTime: 1}", "TimingPoints: [1]", "SliderVelocities: [x]",
        "HitObjects: []\nTimingPoints: []\nSliderVelocities: []",
        "HitObjects:\n- {}\n", "HitObjects:\n- EndTime: 5\n",
        "HitObjects:\n- Lane: 2\n- Lane: 3\n  EndTime: 7\n",
        "Title: [a, b]\nTags: [x, y]", "Mode: [Keys4]", "Tags: 0", "Tags: false",
        "Title: 'it''s'\nArtist: \"q\\\"q\"", "just a string", "- a\n- b",
        "HitObjects:\n- StartTime: 1\n  Lane: 1\n  KeySounds:\n  - Sample: 1\n    Volume: 50\n",
        "HitObjects: [\n", "Title: a\nTitle: b",
    ]
    for i, d in enumerate(docs):
        for variant, arg in (("str", d), ("lines", d.split("\n"))):
            m = attempt(f"B.doc{i}.{variant}", lambda: QuaMap.read(arg))
            if m is not None:
                emit(dump_map(m))
                w = attempt(f"B.doc{i}.{variant}.write", lambda: m.write())
                if w is not None:
                    emit(w)


# --------------------------------------------------------------------------- #
# C. in-memory charts built by hand -> to_yaml / write / read back
# --------------------------------------------------------------------------- #
def rand_index(n):
    k = random.random()
    if k < 0.3:
        return None
    if k < 0.55:
        idx = list(range(n))
        random.shuffle(idx)
        return idx
    if k < 0.75:
        return [random.randint(0, 3) for _ in range(n)]  # duplicate labels
    if k < 0.9:
        return [10 * i + 7 for i in range(n)]
    return [f"r{i}" for i in range(n)]


def rand_offsets(n, kind):
    if kind == "int":
        return np.array([random.randint(-1000, 200000) for _ in range(n)], dtype="int64")
    if kind == "float":
        return np.array(
            [random.choice([0.0, -0.5, 0.999, random.uniform(-10, 200000),
                            float(random.randint(0, 9999))]) for _ in range(n)],
            dtype="float64",
        )
    if kind == "float32":
        return np.array([random.uniform(0, 50000) for _ in range(n)], dtype="float32")
    if kind == "object":
        return np.array([random.choice([1, 2.5, 300, -4.75]) for _ in range(n)], dtype=object)
    raise AssertionError


def section_c():
    for i in range(48):
        n = random.choice([0, 1, 2, 3, 7, 20])
        nh = random.choice([0, 1, 2, 5, 13])
        ok = random.choice(["int", "float", "float", "float32", "object"])
        ck = random.choice(["int64", "float64", "int32", "object", "uint8"])
        lanes = random.choice([1, 4, 7, 8, 10])
        hits = pd.DataFrame(
            dict(
                offset=rand_offsets(n, ok),
                column=np.array([random.randint(0, lanes - 1) for _ in range(n)]).astype(ck),
                keysounds=pd.Series([rand_keysounds() for _ in range(n)], dtype=object),
            ),
        )
        holds = pd.DataFrame(
            dict(
                offset=rand_offsets(nh, ok),
                column=np.array([random.randint(0, lanes - 1) for _ in range(nh)]).astype(ck),
                length=rand_offsets(nh, random.choice(["int", "float"])),
                keysounds=pd.Series([rand_keysounds() for _ in range(nh)], dtype=object),
            ),
        )
        if i % 5 == 0:  # a different column order
            holds = holds[["length", "keysounds", "column", "offset"]]
            hits = hits[["keysounds", "offset", "column"]]
        if i % 7 == 0 and n:  # an extra column, as a converter might leave behind
            hits["index"] = range(n)
        if i % 11 == 0 and nh:
            holds["extra"] = 1.5
        for df in (hits, holds):
            idx = rand_index(len(df))
            if idx is not None:
                df.index = idx
        nb = random.choice([0, 1, 3])
        ns = random.choice([0, 1, 4])
        bpms = pd.DataFrame(
            dict(
                offset=rand_offsets(nb, random.choice(["int", "float"])),
                bpm=np.array(
                    [random.choice([120.0, 60.25, 0.0, -5.0, 333.333]) for _ in range(nb)],
                    dtype="float64",
                ).astype(random.choice(["float64", "float64", "int64"])),
                metronome=np.array([4] * nb, dtype="int64"),
            )
        )
        svs = pd.DataFrame(
            dict(
                offset=rand_offsets(ns, random.choice(["int", "float"])),
                multiplier=np.array([random.choice([1.0, 0.0, 2.5, -1.0]) for _ in range(ns)], dtype="float64"),
            )
        )
        m = QuaMap()
        m.hits = QuaHitList(hits)
        m.holds = QuaHoldList(holds)
        m.bpms = QuaBpmList(bpms)
        m.svs = QuaSvList(svs)
        m.title = random.choice(NASTY)
        m.artist = random.choice(NASTY)
        m.tags = random.choice([[], ["a"], ["a", "b c"], ["#x", "y:"]])
        m.mode = random.choice(["Keys4", "Keys7", "Keys8", ""])
        emit("C", i, n, nh, ok, ck)
        snap = dump_map(m)
        emit(snap)
        for name in ("hits", "holds", "bpms", "svs"):
            lst = getattr(m, name)
            y = attempt(f"C{i}.{name}.to_yaml", lambda: lst.to_yaml())
            if y is not None:
                emit(canon(y))
                if name in ("hits", "holds"):
                    # aliasing: are the written key sound lists the chart's own objects?
                    emit("alias", canon([r["KeySounds"] is k for r, k in
                                         zip(y, lst.df["keysounds"].tolist())]))
        emit(f"C{i}.lists-unchanged", dump_map(m) == snap)
        emit(f"C{i}.frames-are-same-objects",
             m.hits.df is hits, m.holds.df is holds, m.bpms.df is bpms, m.svs.df is svs)
        w = attempt(f"C{i}.write", lambda: m.write())
        emit(f"C{i}.map-unchanged", dump_map(m) == snap)
        if w is None:
            continue
        emit(w)
        m2 = attempt(f"C{i}.readback", lambda: QuaMap.read(w))
        if m2 is None:
            continue
        emit(dump_map(m2))
        w2 = attempt(f"C{i}.rewrite", lambda: m2.write())
        emit("fixpoint", w2 == w)

    # lists built from item objects and broken frames
    hl = QuaHitList([QuaHit(offset=10, column=0, keysounds=[]),
                     QuaHit(offset=5.5, column=3, keysounds=[dict(Sample=1)])])
    ho = QuaHoldList([QuaHold(offset=10, column=0, keysounds=[], length=5),
                      QuaHold(offset=5.5, column=3, keysounds=[], length=0)])
    bl = QuaBpmList([QuaBpm(offset=0, bpm=120), QuaBpm(offset=100.7, bpm=60.5)])
    sl = QuaSvList([QuaSv(offset=0, multiplier=1), QuaSv(offset=-3.2, multiplier=0.5)])
    for name, lst in (("hl", hl), ("ho", ho), ("bl", bl), ("sl", sl)):
        snap = dump_df(lst.df)
        emit(snap)
        y = attempt(f"C.items.{name}", lambda: lst.to_yaml())
        emit(canon(y), dump_df(lst.df) == snap)
        s = lst.sorted()
        emit(dump_df(s.df))
        emit(canon(attempt(f"C.items.{name}.sorted", lambda: s.to_yaml())))
    broken = [
        ("hit-nan-offset", QuaHitList, pd.DataFrame(dict(offset=[1.0, np.nan], column=[0, 1], keysounds=[[], []]))),
        ("hit-nan-column", QuaHitList, pd.DataFrame(dict(offset=[1.0, 2.0], column=[0, np.nan], keysounds=[[], []]))),
        ("hit-inf", QuaHitList, pd.DataFrame(dict(offset=[np.inf], column=[0], keysounds=[[]]))),
        ("hit-no-column", QuaHitList, pd.DataFrame(dict(offset=[1.0], keysounds=[[]]))),
        ("hit-no-offset", QuaHitList, pd.DataFrame(dict(column=[1], keysounds=[[]]))),
        ("hit-str-column", QuaHitList, pd.DataFrame(dict(offset=[1.0], column=["a"], keysounds=[[]]))),
        ("hit-bool-column", QuaHitList, pd.DataFrame(dict(offset=[1.0, 2.0], column=[True, False], keysounds=[[], []]))),
        ("hit-nan-keysounds", QuaHitList, pd.DataFrame(dict(offset=[1.0], column=[0], keysounds=[np.nan]))),
        ("hold-nan-length", QuaHoldList, pd.DataFrame(dict(offset=[1.0], column=[0], length=[np.nan], keysounds=[[]]))),
        ("hold-no-length", QuaHoldList, pd.DataFrame(dict(offset=[1.0], column=[0], keysounds=[[]]))),
        ("hold-no-column", QuaHoldList, pd.DataFrame(dict(offset=[1.0], length=[2.0], keysounds=[[]]))),
        ("hold-no-offset", QuaHoldList, pd.DataFrame(dict(column=[1], length=[2.0], keysounds=[[]]))),
        ("hold-has-EndTime", QuaHoldList, pd.DataFrame(dict(offset=[1.0], EndTime=[77], column=[0], length=[2.0], keysounds=[[]]))),
        ("hold-neg-length", QuaHoldList, pd.DataFrame(dict(offset=[10.0], column=[0], length=[-20.5], keysounds=[[]]))),
        ("hold-str-column", QuaHoldList, pd.DataFrame(dict(offset=[1.0], column=["a"], length=[1], keysounds=[[]]))),
        ("bpm-no-metronome", QuaBpmList, pd.DataFrame(dict(offset=[1.0], bpm=[100]))),
        ("sv-nan", QuaSvList, pd.DataFrame(dict(offset=[np.nan], multiplier=[1.0]))),
    ]
    for name, cls, df in broken:
        lst = cls(df)
        snap = dump_df(df)
        y = attempt(f"C.broken.{name}", lambda: lst.to_yaml())
        emit(canon(y), "unchanged", dump_df(df) == snap, lst.df is df)


# --------------------------------------------------------------------------- #
# D. charts that reach the writer through a converter, and the bundled files
# --------------------------------------------------------------------------- #
def section_d():
    from reamber.algorithms.convert import OsuToQua, SMToQua, BMSToQua, O2JToQua
    from reamber.osu.OsuMap import OsuMap
    from reamber.sm.SMMapSet import SMMapSet
    from reamber.bms.BMSMap import BMSMap
    from reamber.o2jam.O2JMapSet import O2JMapSet

    def go(label, m):
        snap = dump_map(m)
        emit(label, "map-sha", hashlib.sha256(snap.encode()).hexdigest())
        w = attempt(label + ".write", lambda: m.write())
        emit(label + ".unchanged", dump_map(m) == snap)
        if w is None:
            return
        emit(label, "text-sha", hashlib.sha256(w.encode()).hexdigest(), len(w))
        emit("keys", canon(sorted({k for n in yaml.safe_load(w)["HitObjects"] for k in n})))
        m2 = attempt(label + ".readback", lambda: QuaMap.read(w))
        if m2 is None:
            return
        d2 = dump_map(m2)
        emit(label, "readback-sha", hashlib.sha256(d2.encode()).hexdigest())
        w2 = attempt(label + ".rewrite", lambda: m2.write())
        emit(label, "fixpoint", w2 == w)

    for f in ("qua/CarryMeAway.qua", "qua/NeuroCloud.qua"):
        m = attempt("D.read_file " + f, lambda: QuaMap.read_file(MAPS / f))
        if m is not None:
            go("D." + f, m)
            with open(MAPS / f, encoding="utf-8") as fh:
                emit("D.textual", f, m.write() == fh.read())
            go("D.hits-only." + f, (lambda q: (setattr(q, "holds", q.holds[:0]), q)[1])(m.deepcopy()))
            go("D.holds-only." + f, (lambda q: (setattr(q, "hits", q.hits[:0]), q)[1])(m.deepcopy()))
            go("D.sorted-rev." + f, (lambda q: (setattr(q, "hits", q.hits.sorted(reverse=True)), q)[1])(m.deepcopy()))
    for f in ("osu/Gravity.osu", "osu/Escapes.osu", "osu/LNDan14.osu", "osu/Zenith.osu"):
        o = attempt("D.osu " + f, lambda: OsuMap.read_file((MAPS / f).as_posix()))
        if o is None:
            continue
        q = attempt("D.OsuToQua " + f, lambda: OsuToQua.convert(o, raise_bad_mode=False))
        if q is not None:
            go("D.OsuToQua." + f, q)
    for f in ("sm/Escapes.sm", "sm/Gravity.sm"):
        s = attempt("D.sm " + f, lambda: SMMapSet.read_file((MAPS / f).as_posix()))
        if s is None:
            continue
        qs = attempt("D.SMToQua " + f, lambda: SMToQua.convert(s, raise_bad_mode=False))
        for j, q in enumerate(qs or []):
            go(f"D.SMToQua.{f}.{j}", q)
    for f in ("bms/coldBreath.bme", "bms/searoad.bml"):
        b = attempt("D.bms " + f, lambda: BMSMap.read_file(MAPS / f))
        if b is None:
            continue
        q = attempt("D.BMSToQua " + f, lambda: BMSToQua.convert(b, raise_bad_mode=False))
        if q is not None:
            go("D.BMSToQua." + f, q)
    for f in ("o2jam/o2ma178.ojn",):
        s = attempt("D.o2j " + f, lambda: O2JMapSet.read_file((MAPS / f).as_posix()))
        if s is None:
            continue
        qs = attempt("D.O2JToQua " + f, lambda: O2JToQua.convert(s))
        for j, q in enumerate(qs or []):
            go(f"D.O2JToQua.{f}.{j}", q)


section_a()
section_b()
section_c()
section_d()

text = "\n".join(OUT)
if "--dump" in __import__("sys").argv:
    print(text)
print("DIGEST", hashlib.sha256(text.encode("utf-8", "surrogatepass")).hexdigest())
