"""Demo for refactoring 2: full_ln (per-note decision extracted into a helper).

Runs full_ln on generated maps of every game with many gap / threshold
settings, records the result map, the exception type and the input map
afterwards, and prints one sha256 over the canonical dump.
"""
import hashlib
import random
import sys
import warnings

import numpy as np
import pandas as pd

from reamber.algorithms.generate import full_ln
from reamber.base.Map import Map
from reamber.bms.BMSMap import BMSMap
from reamber.o2jam.O2JMap import O2JMap
from reamber.osu.OsuMap import OsuMap
from reamber.quaver.QuaMap import QuaMap
from reamber.sm.SMMap import SMMap

random.seed(140002)
np.random.seed(140002)
warnings.simplefilter("ignore")

OUT = []


def emit(*parts):
    OUT.append(" | ".join(str(p) for p in parts))


def dump_df(df: pd.DataFrame) -> str:
    return (
        f"cols={list(df.columns)!r} dtypes={[str(t) for t in df.dtypes]!r} "
        f"ixtype={type(df.index).__name__}:{df.index.dtype} ix={df.index.tolist()!r} "
        f"vals={df.to_numpy(dtype=object).tolist()!r}"
    )


def dump_map(m) -> str:
    return f"{type(m).__name__}{{" + "; ".join(
        f"{k}:{type(v).__name__}<{dump_df(v.df)}>" for k, v in m.objs.items()
    ) + "}"


MAPS = [Map, OsuMap, QuaMap, SMMap, BMSMap, O2JMap]


def offsets_for(kind, n):
    if kind == "ties":
        return [float(random.choice([0, 250, 250, 500, 500, 500, 1000])) for _ in range(n)]
    if kind == "neg":
        return [float(random.randint(-1000, 1000)) for _ in range(n)]
    if kind == "dense":
        # gaps around gap + threshold = 250 to hit both sides of the comparison
        out, t = [], 0.0
        for _ in range(n):
            out.append(t)
            t += random.choice([249.0, 250.0, 251.0, 100.0, 150.0, 400.0, 0.0])
        random.shuffle(out)
        return out
    out = [round(random.uniform(0, 5000), 1) for _ in range(n)]
    if kind == "sorted":
        out.sort()
    return out


def fill(lst, kind, n, keys, with_length):
    new = type(lst).empty(n)
    if n:
        new.offset = offsets_for(kind, n)
        new.column = [random.randrange(keys) for _ in range(n)]
        if with_length:
            if kind == "neg":
                new.length = [float(random.choice([-100, 0, 0, 50, 300])) for _ in range(n)]
            else:
                new.length = [round(random.uniform(1, 600), 1) for _ in range(n)]
        if kind == "labels":
            new.df.index = pd.Index([random.choice([5, 9, 9, 2, 30]) + 3 * i * (i % 2)
                                     for i in range(n)])
    lst.df = new.df


def make_map(M, kind, n_hits, n_holds, keys):
    m = M()
    fill(m.hits, kind, n_hits, keys, False)
    fill(m.holds, kind, n_holds, keys, True)
    if isinstance(m, SMMap):
        # further hit-like and hold-like lists of StepMania take part in the stack
        fill(m.rolls, kind, n_holds // 2, keys, True)
        fill(m.mines, kind, n_hits // 2, keys, False)
    nb = 0 if kind == "nobpm" else 2
    b = type(m.bpms).empty(nb)
    if nb:
        b.offset = [0.0, 2000.0]
        b.bpm = [120.0, 180.0]
    m.bpms.df = b.df
    return m


PARAMS = [
    {},
    dict(gap=0),
    dict(gap=150.0, ln_as_hit_thres=100.0),
    dict(gap=-50),
    dict(gap=100, ln_as_hit_thres=0),
    dict(gap=100, ln_as_hit_thres=-1000),
    dict(gap=10, ln_as_hit_thres=1e9),
    dict(gap=float("nan")),
    dict(ln_as_hit_thres=float("nan")),
    dict(gap=float("inf")),
    dict(gap=float("-inf")),
    dict(gap=np.float32(149.5), ln_as_hit_thres=np.int64(100)),
    dict(gap=250, ln_as_hit_thres=0.0),
    dict(gap="x"),
    dict(ln_as_hit_thres="x"),
    dict(gap=None),
]

CASES = [
    ("sorted", 0, 0, 4),
    ("sorted", 1, 0, 4),
    ("sorted", 0, 1, 4),
    ("sorted", 5, 0, 1),
    ("sorted", 0, 5, 2),
    ("sorted", 6, 4, 4),
    ("unsorted", 8, 5, 7),
    ("ties", 8, 6, 3),
    ("neg", 7, 6, 4),
    ("dense", 12, 8, 2),
    ("dense", 10, 0, 1),
    ("labels", 6, 5, 5),
    ("nobpm", 5, 4, 10),
]

case = 0
for M in MAPS:
    for kind, nh, nl, keys in CASES:
        case += 1
        m = make_map(M, kind, nh, nl, keys)
        tag = f"{case}:{M.__name__}:{kind}:{nh}:{nl}:{keys}"
        for kw in PARAMS:
            before = dump_map(m)
            ids = {k: id(v.df) for k, v in m.objs.items()}
            try:
                r = full_ln(m, **kw)
                out = dump_map(r)
                shared = any(
                    len(r.objs[k]) and len(m.objs[k]) and np.shares_memory(
                        r.objs[k].df["offset"].to_numpy(), m.objs[k].df["offset"].to_numpy())
                    for k in m.objs
                )
                out += f" shares_memory={shared} same_obj={r is m}"
                # change the result in place: the input must not follow
                for v in r.objs.values():
                    arr = v.df["offset"].to_numpy()
                    if len(arr) and arr.flags.writeable:
                        arr += 7.0
            except Exception as e:  # noqa
                out = f"EXC {type(e).__name__}"
            after = dump_map(m)
            same = before == after and ids == {k: id(v.df) for k, v in m.objs.items()}
            emit(tag, sorted(kw.items(), key=str), out,
                 "INPUT_SAME" if same else "INPUT_CHANGED", after)
        # applied in sequence: the result of one call is the input of the next
        try:
            r1 = full_ln(m, gap=100)
            b1 = dump_map(r1)
            r2 = full_ln(r1, gap=200, ln_as_hit_thres=50)
            emit(tag, "seq", dump_map(r2), "R1_SAME" if dump_map(r1) == b1 else "R1_CHANGED")
        except Exception as e:  # noqa
            emit(tag, "seq", f"EXC {type(e).__name__}")

text = "\n".join(OUT)
print(f"lines {len(OUT)} changed {sum('INPUT_CHANGED' in l for l in OUT)} "
      f"exc {sum('| EXC ' in l for l in OUT)}", file=sys.stderr)
print("DIGEST", hashlib.sha256(text.encode()).hexdigest())
