# ---------------------------------------------------------------------------
# Shared, deterministic generator of source FILES (osu / qua / sm / bms / ojn)
# and canonical dump helpers.  This block is copied verbatim into every demo.
# ---------------------------------------------------------------------------
import hashlib
import random
import struct
import warnings
import logging

import numpy as np
import pandas as pd

warnings.filterwarnings("ignore")
logging.disable(logging.CRITICAL)

GRID = 16  # rows per measure (a measure is 4 beats, so a row is 1/4 beat)

TITLES = ["Alpha", "beta gamma", "Delta-9", "x", "Song (cut)", "Zeta 7"]
ARTISTS = ["Ann", "B and C", "dj q", "nobody"]
CREATORS = ["mapper", "eve", "K2"]


class Chart:
    """A format neutral chart on a 1/4 beat grid"""

    def __init__(self, keys, n_measures, bpms, hits, holds, t0, meta):
        self.keys = keys
        self.n_measures = n_measures
        self.bpms = bpms  # [(measure, bpm)] first at measure 0
        self.hits = hits  # [(row, col)]
        self.holds = holds  # [(row, col, rows_long)]
        self.t0 = t0  # ms of row 0
        self.meta = meta

    def row_ms(self, row):
        """Time of a grid row in ms (float)"""
        t = float(self.t0)
        changes = self.bpms + [(10**9, None)]
        for (m0, bpm), (m1, _) in zip(changes[:-1], changes[1:]):
            r0, r1 = m0 * GRID, m1 * GRID
            if row <= r0:
                break
            t += (min(row, r1) - r0) * (60000.0 / bpm / 4)
        return t


def gen_chart(rng, keys, n_measures=None, density=0.12, hold_share=0.35,
              n_bpm=None, int_bpm=True, empty=False):
    n_measures = n_measures or rng.randint(1, 4)
    n_bpm = rng.randint(1, 3) if n_bpm is None else n_bpm
    pool = [60, 90, 120, 150, 160, 180, 200, 240] if int_bpm else \
        [87.5, 120.0, 150.25, 175.5, 99.75, 200.0]
    measures = sorted(rng.sample(range(1, max(2, n_measures)), min(n_bpm - 1, max(0, n_measures - 1))))
    bpms = [(0, rng.choice(pool))]
    for m in measures:
        b = rng.choice(pool)
        while b == bpms[-1][1]:
            b = rng.choice(pool)
        bpms.append((m, b))
    hits, holds = [], []
    total = n_measures * GRID
    if not empty:
        for col in range(keys):
            row = 0
            while row < total:
                if rng.random() < density:
                    if rng.random() < hold_share and row + 2 < total:
                        ln = rng.randint(1, min(8, total - row - 1))
                        holds.append((row, col, ln))
                        row += ln + 1
                    else:
                        hits.append((row, col))
                        row += 1
                else:
                    row += 1
        # every column is used, so that the key count is recoverable
        used = {c for _, c in hits} | {c for _, c, _ in holds}
        for col in range(keys):
            if col not in used:
                free = [r for r in range(total)
                        if not any(h[1] == col and h[0] <= r <= h[0] + h[2] for h in holds)
                        and (r, col) not in hits]
                hits.append((rng.choice(free), col))
    hits.sort()
    holds.sort()
    meta = dict(title=rng.choice(TITLES), artist=rng.choice(ARTISTS),
                creator=rng.choice(CREATORS), version=rng.choice(["Easy", "Hard 7", "12"]),
                audio="audio.mp3", bg="bg.jpg", preview=rng.choice([-1, 0, 1500, 32000]))
    t0 = rng.choice([0, 0, 250, 1000, 37])
    return Chart(keys, n_measures, bpms, hits, holds, t0, meta)


# ------------------------------------------------------------------ emitters
def emit_osu(ch, rng, float_times=False, svs=True, shuffle=False):
    def t(row):
        v = ch.row_ms(row)
        return repr(round(v, 3)) if float_times else str(int(round(v)))

    m = ch.meta
    lines = [
        "osu file format v14", "", "[General]",
        f"AudioFilename: {m['audio']}", "AudioLeadIn: 0",
        f"PreviewTime: {m['preview']}", "Countdown: 0", "SampleSet: Soft",
        "StackLeniency: 0.7", "Mode: 3", "LetterboxInBreaks: 0",
        "SpecialStyle: 0", "WidescreenStoryboard: 1", "",
        "[Editor]", "DistanceSpacing: 1.2", "BeatDivisor: 4", "GridSize: 8",
        "TimelineZoom: 1.5", "",
        "[Metadata]", f"Title:{m['title']}", f"TitleUnicode:{m['title']}",
        f"Artist:{m['artist']}", f"ArtistUnicode:{m['artist']}",
        f"Creator:{m['creator']}", f"Version:{m['version']}", "Source:",
        "Tags:gen demo", "BeatmapID:0", "BeatmapSetID:-1", "",
        "[Difficulty]", "HPDrainRate:8", f"CircleSize:{ch.keys}",
        "OverallDifficulty:8", "ApproachRate:5", "SliderMultiplier:1.4",
        "SliderTickRate:1", "",
        "[Events]", "//Background and Video events",
        f'0,0,"{m["bg"]}",0,0', "//Break Periods",
        "//Storyboard Layer 0 (Background)", "//Storyboard Sound Samples", "",
        "[TimingPoints]",
    ]
    tps = []
    for meas, bpm in ch.bpms:
        tps.append(f"{t(meas * GRID)},{60000.0 / bpm!r},4,2,0,40,1,0")
    if svs:
        for _ in range(rng.randint(0, 3)):
            row = rng.randrange(0, ch.n_measures * GRID)
            mult = rng.choice([0.5, 1.0, 2.0, 1.25])
            tps.append(f"{t(row)},{-100.0 / mult!r},4,2,0,40,0,0")
    lines += tps
    lines += ["", "", "[HitObjects]"]
    objs = []
    for row, col in ch.hits:
        x = int((512 * col + 256) // ch.keys)
        objs.append((ch.row_ms(row), f"{x},192,{t(row)},1,0,0:0:0:0:"))
    for row, col, ln in ch.holds:
        x = int((512 * col + 256) // ch.keys)
        objs.append((ch.row_ms(row), f"{x},192,{t(row)},128,0,{t(row + ln)}:0:0:0:0:"))
    if shuffle:
        rng.shuffle(objs)
    else:
        objs.sort(key=lambda o: o[0])
    lines += [o[1] for o in objs]
    lines.append("")
    return "\n".join(lines)


def emit_qua(ch, rng, shuffle=False):
    m = ch.meta
    mode = {4: "Keys4", 7: "Keys7", 8: "Keys8"}.get(ch.keys, "Keys4")
    out = [
        f"AudioFile: {m['audio']}", f"SongPreviewTime: {m['preview']}",
        f"BackgroundFile: {m['bg']}", "MapId: -1", "MapSetId: -1",
        f"Mode: {mode}", f"Title: '{m['title']}'", f"Artist: '{m['artist']}'",
        "Source: ''", "Tags: gen demo", f"Creator: {m['creator']}",
        f"DifficultyName: '{m['version']}'", "Description: generated",
        "EditorLayers: []", "CustomAudioSamples: []", "SoundEffects: []",
        "TimingPoints:",
    ]
    for meas, bpm in ch.bpms:
        out += [f"- StartTime: {int(round(ch.row_ms(meas * GRID)))}", f"  Bpm: {bpm}"]
    n_sv = rng.randint(0, 2)
    if n_sv:
        out.append("SliderVelocities:")
        for _ in range(n_sv):
            row = rng.randrange(0, ch.n_measures * GRID)
            out += [f"- StartTime: {int(round(ch.row_ms(row)))}",
                    f"  Multiplier: {rng.choice([0.5, 2.0, 1.25])}"]
    else:
        out.append("SliderVelocities: []")
    objs = []
    for row, col in ch.hits:
        objs.append((ch.row_ms(row), [f"- StartTime: {int(round(ch.row_ms(row)))}",
                                      f"  Lane: {col + 1}", "  KeySounds: []"]))
    for row, col, ln in ch.holds:
        objs.append((ch.row_ms(row), [f"- StartTime: {int(round(ch.row_ms(row)))}",
                                      f"  Lane: {col + 1}",
                                      f"  EndTime: {int(round(ch.row_ms(row + ln)))}",
                                      "  KeySounds: []"]))
    if shuffle:
        rng.shuffle(objs)
    else:
        objs.sort(key=lambda o: o[0])
    if objs:
        out.append("HitObjects:")
        for _, o in objs:
            out += o
    else:
        out.append("HitObjects: []")
    return "\n".join(out) + "\n"


SM_TYPES = {3: "dance-threepanel", 4: "dance-single", 6: "dance-solo",
            7: "kb7-single", 8: "dance-double"}


def emit_sm(charts, rng):
    """All charts of a set share the tempo of the first"""
    ch0 = charts[0]
    m = ch0.meta
    out = [
        f"#TITLE:{m['title']};", "#SUBTITLE:;", f"#ARTIST:{m['artist']};",
        f"#TITLETRANSLIT:{m['title']};", "#SUBTITLETRANSLIT:;",
        f"#ARTISTTRANSLIT:{m['artist']};", "#GENRE:;", f"#CREDIT:{m['creator']};",
        "#BANNER:;", f"#BACKGROUND:{m['bg']};", "#LYRICSPATH:;", "#CDTITLE:;",
        f"#MUSIC:{m['audio']};", f"#OFFSET:{-ch0.t0 / 1000.0};",
        "#BPMS:" + ",".join(f"{meas * 4}={bpm}" for meas, bpm in ch0.bpms) + ";",
        "#STOPS:;", f"#SAMPLESTART:{max(m['preview'], 0) / 1000.0};",
        "#SAMPLELENGTH:10.0;", "#DISPLAYBPM:;", "#SELECTABLE:YES;",
        "#BGCHANGES:;", "#FGCHANGES:;",
    ]
    for e, ch in enumerate(charts):
        rows = [["0"] * ch.keys for _ in range(ch.n_measures * GRID + 1)]
        for row, col in ch.hits:
            rows[row][col] = "1"
        for row, col, ln in ch.holds:
            rows[row][col] = "2"
            rows[row + ln][col] = "3"
        n_meas = ch.n_measures + (1 if any(c != "0" for c in rows[-1]) else 0)
        rows += [["0"] * ch.keys for _ in range(GRID)]
        measures = []
        for mi in range(n_meas):
            measures.append("\n".join("".join(r) for r in rows[mi * GRID:(mi + 1) * GRID]))
        out += [
            f"//------{SM_TYPES[ch.keys]}------", "#NOTES:",
            f"     {SM_TYPES[ch.keys]}:", f"     {m['creator']}:",
            f"     {['Easy', 'Hard', 'Challenge'][e % 3]}:", f"     {3 + e}:",
            "     0.1,0.2,0.3,0.4,0.5:",
            "\n,\n".join(measures), ";", "",
        ]
    return "\n".join(out)


BME_CHANNEL = {0: "16", 1: "11", 2: "12", 3: "13", 4: "14", 5: "15", 6: "18", 7: "19",
               8: "21", 9: "22", 10: "23", 11: "24", 12: "25", 13: "28", 14: "29", 15: "26"}


def emit_bms(ch, rng, exbpm=False, n_wav=3):
    m = ch.meta
    out = ["", "*---------------------- HEADER FIELD", "#PLAYER 1", "#GENRE gen",
           f"#TITLE {m['title']}", f"#ARTIST {m['artist']}", f"#BPM {ch.bpms[0][1]}",
           f"#PLAYLEVEL {rng.randint(1, 12)}", "#RANK 2", "#LNOBJ ZZ"]
    wavs = ["%02X" % (i + 1) for i in range(n_wav)]
    for w in wavs:
        out.append(f"#WAV{w} s{w}.wav")
    if exbpm:
        for e, (_, bpm) in enumerate(ch.bpms[1:], 1):
            out.append(f"#BPM{e:02d} {bpm}")
    out += ["", "*---------------------- MAIN DATA FIELD", ""]
    total = ch.n_measures * GRID + 1
    per_col = {}
    for row, col in ch.hits:
        per_col.setdefault(col, {})[row] = rng.choice(wavs)
    for row, col, ln in ch.holds:
        per_col.setdefault(col, {})[row] = rng.choice(wavs)
        per_col[col][row + ln] = "ZZ"
    n_meas = ch.n_measures + 1
    for mi in range(n_meas):
        changes = [(meas, bpm) for meas, bpm in ch.bpms[1:] if meas == mi]
        for e, (meas, bpm) in enumerate(ch.bpms[1:], 1):
            if meas == mi:
                if exbpm:
                    out.append(f"#{mi:03d}08:{e:02d}")
                else:
                    out.append(f"#{mi:03d}03:{int(bpm):02X}")
        for col in sorted(per_col):
            seq = [per_col[col].get(mi * GRID + r, "00") for r in range(GRID)]
            if any(s != "00" for s in seq):
                out.append(f"#{mi:03d}{BME_CHANNEL[col]}:" + "".join(seq))
    return "\n".join(out) + "\n"


def _ojn_level(ch):
    """Packages of one level"""
    pkgs = []
    for meas, bpm in ch.bpms[1:]:
        pkgs.append((meas, 1, [struct.pack("<f", float(bpm))]))
    per = {}
    for row, col in ch.hits:
        per.setdefault((row // GRID, col), {})[row % GRID] = b"\x00"
    for row, col, ln in ch.holds:
        per.setdefault((row // GRID, col), {})[row % GRID] = b"\x02"
        per.setdefault(((row + ln) // GRID, col), {})[(row + ln) % GRID] = b"\x03"
    for (meas, col) in sorted(per):
        ev = []
        for r in range(GRID):
            kind = per[(meas, col)].get(r)
            ev.append(b"\x00\x00\x00\x00" if kind is None
                      else struct.pack("<h", 1) + b"\x00" + kind)
        pkgs.append((meas, col + 2, ev))
    pkgs.sort(key=lambda p: (p[0], p[1]))
    b = b""
    for meas, chn, ev in pkgs:
        b += struct.pack("<ihh", meas, chn, len(ev)) + b"".join(ev)
    return len(pkgs), b


def emit_ojn(charts, rng):
    """Up to 3 levels, 7 keys each.  All share the first bpm"""
    assert len(charts) <= 3
    m = charts[0].meta
    lv = [_ojn_level(c) for c in charts] + [(0, b"")] * (3 - len(charts))
    counts = [c for c, _ in lv]

    def s(txt, n):
        return txt.encode("ascii")[:n].ljust(n, b"\x00")

    levels = [rng.randint(1, 40) for _ in range(3)] + [0]
    head = b"".join([
        struct.pack("<i", rng.randint(1, 9999)), b"ojn\x00", struct.pack("<f", 2.9),
        struct.pack("<i", 3), struct.pack("<f", float(charts[0].bpms[0][1])),
        struct.pack("<4h", *levels),
        struct.pack("<3i", 0, 0, 0), struct.pack("<3i", 0, 0, 0),
        struct.pack("<3i", 0, 0, 0), struct.pack("<3i", *counts),
        struct.pack("<h", 29), struct.pack("<h", 0), s("genre", 20),
        struct.pack("<i", 0), struct.pack("<i", 0),
        s(m["title"], 64), s(m["artist"], 32), s(m["creator"], 32), s("x.ojm", 32),
        struct.pack("<i", 0), struct.pack("<3i", 60, 60, 60),
        struct.pack("<3i", 300, 300, 300), struct.pack("<i", 0),
    ])
    assert len(head) == 300, len(head)
    return head + b"".join(b for _, b in lv)


# ------------------------------------------------------------------ dumping
def cell(v):
    if isinstance(v, (float, np.floating)):
        return f"f:{float(v)!r}"
    if isinstance(v, (bool, np.bool_)):
        return f"b:{bool(v)}"
    if isinstance(v, (int, np.integer)):
        return f"i:{int(v)}"
    if isinstance(v, bytes):
        return f"y:{v!r}"
    if isinstance(v, str):
        return f"s:{v!r}"
    if isinstance(v, (list, tuple)):
        return f"{type(v).__name__}:[" + ",".join(cell(i) for i in v) + "]"
    if isinstance(v, dict):
        return "d:{" + ",".join(f"{cell(k)}={cell(x)}" for k, x in v.items()) + "}"
    if v is None:
        return "None"
    return f"{type(v).__name__}:{v!r}"


def dump_df(df):
    out = [f"  columns={list(df.columns)!r}",
           f"  dtypes={[str(t) for t in df.dtypes]!r}",
           f"  index={type(df.index).__name__}:{[cell(i) for i in df.index.tolist()]!r}"]
    for c in df.columns:
        out.append(f"  {c}=" + "|".join(cell(v) for v in df[c].tolist()))
    return "\n".join(out)


def dump_map(m):
    out = [f" {type(m).__name__}"]
    for k in sorted(m.objs):
        out.append(f" .{k} {type(m.objs[k]).__name__}")
        out.append(dump_df(m.objs[k].df))
    for k, v in sorted(vars(m).items()):
        if k == "objs":
            continue
        if hasattr(v, "df"):
            out.append(f" meta.{k} {type(v).__name__}")
            out.append(dump_df(v.df))
        else:
            out.append(f" meta.{k}={cell(v)}")
    return "\n".join(out)


def dump_any(x):
    from reamber.base.Map import Map
    from reamber.base.MapSet import MapSet
    if isinstance(x, MapSet):
        out = [f"{type(x).__name__} with {len(x.maps)} maps"]
        for k, v in sorted(vars(x).items()):
            if k != "maps":
                out.append(f" setmeta.{k}={cell(v)}")
        for mp in x.maps:
            out.append(dump_map(mp))
        return "\n".join(out)
    if isinstance(x, Map):
        return dump_map(x)
    if isinstance(x, list):
        return f"list[{len(x)}]\n" + "\n".join(dump_any(i) for i in x)
    return cell(x)


class Log:
    def __init__(self):
        self.parts = []

    def add(self, label, text):
        self.parts.append(f"## {label}\n{text}\n")

    def call(self, label, fn, dumper=None):
        """Runs fn, logs its result or the type of its exception"""
        try:
            r = fn()
        except Exception as e:  # noqa
            self.add(label, f"RAISED {type(e).__name__}")
            return None
        self.add(label, (dumper or dump_any)(r))
        return r

    def digest(self):
        import os
        text = "\n".join(self.parts)
        if os.environ.get("DEMO_DUMP"):  # optional: keep the full dump for diffing
            with open(os.environ["DEMO_DUMP"], "w", encoding="utf8", errors="backslashreplace") as f:
                f.write(text)
        return hashlib.sha256(text.encode("utf8", errors="backslashreplace")).hexdigest()
# --------------------------------------------------------------- end shared


# ------------------------------------------------------------------- corpus
import os
import tempfile

from reamber.algorithms import convert as CONV
from reamber.bms.BMSMap import BMSMap
from reamber.o2jam.O2JMapSet import O2JMapSet
from reamber.osu.OsuMap import OsuMap
from reamber.quaver.QuaMap import QuaMap
from reamber.sm.SMMapSet import SMMapSet

HERE = os.path.dirname(os.path.abspath(__file__))
READERS = dict(Osu=OsuMap.read_file, Qua=QuaMap.read_file, SM=SMMapSet.read_file,
               BMS=BMSMap.read_file, O2J=O2JMapSet.read_file)
EXT = dict(Osu="osu", Qua="qua", SM="sm", BMS="bme", O2J="ojn")
TARGETS = ("Osu", "Qua", "SM", "BMS")


def build_corpus(rng, tmp):
    """Writes the generated source files, returns [(label, kind, path)]"""
    files = []

    def put(label, kind, content):
        path = os.path.join(tmp, f"{len(files):03d}_{label}.{EXT[kind]}")
        mode, kw = ("wb", {}) if isinstance(content, bytes) else \
            ("w", dict(encoding="shift_jis" if kind == "BMS" else "utf8", newline="\n"))
        with open(path, mode, **kw) as f:
            f.write(content)
        files.append((label, kind, path))

    # osu: many key counts, integer and float times, rows in and out of order
    for keys in (1, 4, 4, 5, 6, 7, 7, 8, 9, 10):
        ch = gen_chart(rng, keys, int_bpm=rng.random() < 0.6)
        put(f"osu{keys}k", "Osu", emit_osu(ch, rng, float_times=rng.random() < 0.3,
                                           shuffle=rng.random() < 0.4))
    put("osu4k_empty", "Osu", emit_osu(gen_chart(rng, 4, empty=True), rng, svs=False))
    put("osu7k_dense", "Osu", emit_osu(gen_chart(rng, 7, n_measures=4, density=0.5), rng))
    put("osu4k_1bpm", "Osu", emit_osu(gen_chart(rng, 4, n_bpm=1, hold_share=0.0), rng))
    put("osu4k_lns", "Osu", emit_osu(gen_chart(rng, 4, n_bpm=3, n_measures=4, hold_share=1.0), rng))
    # quaver
    for keys in (4, 4, 7, 7, 8):
        ch = gen_chart(rng, keys, int_bpm=rng.random() < 0.6)
        put(f"qua{keys}k", "Qua", emit_qua(ch, rng, shuffle=rng.random() < 0.4))
    put("qua4k_empty", "Qua", emit_qua(gen_chart(rng, 4, empty=True), rng))
    put("qua7k_lns", "Qua", emit_qua(gen_chart(rng, 7, hold_share=1.0, n_measures=3), rng))
    # stepmania: one or more charts per set
    for keys in (3, 4, 4, 6, 7, 8):
        n = rng.randint(1, 3)
        ch0 = gen_chart(rng, keys, n_measures=rng.randint(1, 4))
        charts = [ch0]
        for _ in range(n - 1):
            c = gen_chart(rng, keys, n_measures=ch0.n_measures)
            c.bpms, c.t0, c.meta = ch0.bpms, ch0.t0, ch0.meta
            charts.append(c)
        put(f"sm{keys}k_x{n}", "SM", emit_sm(charts, rng))
    put("sm4k_nohold", "SM", emit_sm([gen_chart(rng, 4, hold_share=0.0)], rng))
    # bms: plain (integer) and extended (float) tempo changes
    for keys in (5, 7, 7, 8, 8, 4):
        ex = rng.random() < 0.5
        ch = gen_chart(rng, keys, int_bpm=not ex)
        put(f"bms{keys}k" + ("_ex" if ex else ""), "BMS", emit_bms(ch, rng, exbpm=ex))
    put("bms7k_1bpm", "BMS", emit_bms(gen_chart(rng, 7, n_bpm=1), rng, n_wav=1))
    put("bms8k_lns", "BMS", emit_bms(gen_chart(rng, 8, hold_share=1.0, n_measures=3), rng))
    put("bms4k_empty", "BMS", emit_bms(gen_chart(rng, 4, empty=True), rng))
    # o2jam: one to three levels of 7 keys
    for n in (1, 2, 3, 3):
        ch0 = gen_chart(rng, 7, int_bpm=rng.random() < 0.5)
        charts = [ch0]
        for _ in range(n - 1):
            c = gen_chart(rng, 7)
            c.bpms = [ch0.bpms[0]] + c.bpms[1:]
            c.meta = ch0.meta
            charts.append(c)
        put(f"o2j_x{n}", "O2J", emit_ojn(charts, rng))
    return files


def converted(kind, path, target, **kwargs):
    """read_file -> convert, always as a list of target maps / sets"""
    src = READERS[kind](path)
    out = getattr(CONV, f"{kind}To{target}").convert(src, **kwargs)
    return src, (out if isinstance(out, list) else [out])


def write_and_slurp(obj, path):
    obj.write_file(path)
    with open(path, "rb") as f:
        return f.read()
# --------------------------------------------------------------- end corpus


# ===================================================================== demo 2
# Target osu: every generated source file is read, converted to osu and
# written with write_file (OsuMap.write is the refactored code).
import copy

from reamber.osu.lists.notes.OsuHitList import OsuHitList
from reamber.osu.lists.notes.OsuHoldList import OsuHoldList
from reamber.osu.lists.OsuBpmList import OsuBpmList
from reamber.osu.lists.OsuSvList import OsuSvList


def lines_and_file(log, tag, osu, out):
    lines = log.call(f"{tag} write()", osu.write, cell)
    if lines is not None:
        log.add(f"{tag} write() type", f"{type(lines).__name__} of {sorted({type(i).__name__ for i in lines})}")
    data = log.call(f"{tag} write_file", lambda: write_and_slurp(osu, out), cell)
    # writing must leave the map as it is
    log.add(f"{tag} map after write", dump_map(osu))
    if data is not None:
        log.call(f"{tag} parsed back", lambda: OsuMap.read_file(out))


def main():
    random.seed(20260902)
    rng = random.Random(20260902)
    log = Log()
    with tempfile.TemporaryDirectory(dir=HERE) as tmp:
        out = os.path.join(tmp, "out.osu")
        files = build_corpus(rng, tmp)
        keep = {}
        for label, kind, path in files:
            if kind == "Osu":
                maps = [OsuMap.read_file(path)]
                keep.setdefault("native", maps[0])
            else:
                try:
                    src, maps = converted(kind, path, "Osu")
                except Exception as e:  # noqa
                    log.add(f"{label} {kind}->Osu", f"RAISED {type(e).__name__}")
                    continue
                log.add(f"{label} {kind}->Osu source after", dump_any(src))
                if len(maps[0].hits) and len(maps[0].holds):
                    keep.setdefault(kind, maps[0])
            for i, osu in enumerate(maps):
                lines_and_file(log, f"{label} {kind}->Osu [{i}]", osu, out)

        # ---- edge cases of the writer on converted and native maps
        def relabel(tl, labels):
            df = tl.df.copy()
            df.index = labels(len(df))
            return type(tl)(df)

        def set_offsets(m, f_hit, f_hold):
            m.hits.offset = f_hit(m.hits.offset)
            m.holds.offset = f_hold(m.holds.offset)

        def objectify(m):
            df = m.hits.df.copy()
            df["offset"] = df["offset"].astype(object)
            df.iloc[0, df.columns.get_loc("offset")] = "x"
            m.hits = OsuHitList(df)

        def variants():
            yield "keys nan", lambda m: setattr(m, "circle_size", float("nan"))
            yield "keys nan no notes", lambda m: (setattr(m, "circle_size", float("nan")),
                                                  setattr(m, "hits", OsuHitList([])),
                                                  setattr(m, "holds", OsuHoldList([])))
            yield "keys None no notes", lambda m: (setattr(m, "circle_size", None),
                                                   setattr(m, "hits", OsuHitList([])),
                                                   setattr(m, "holds", OsuHoldList([])))
            yield "keys None", lambda m: setattr(m, "circle_size", None)
            yield "keys np.float64", lambda m: setattr(m, "circle_size", np.float64(m.circle_size))
            yield "keys np.int64", lambda m: setattr(m, "circle_size", np.int64(m.circle_size))
            yield "keys str", lambda m: setattr(m, "circle_size", str(int(m.circle_size)))
            yield "keys fraction", lambda m: setattr(m, "circle_size", m.circle_size + 0.9)
            yield "keys zero", lambda m: setattr(m, "circle_size", 0)
            yield "keys negative", lambda m: setattr(m, "circle_size", -4)
            yield "keys 18", lambda m: setattr(m, "circle_size", 18)
            yield "hits only", lambda m: setattr(m, "holds", OsuHoldList([]))
            yield "holds only", lambda m: setattr(m, "hits", OsuHitList([]))
            yield "no tempo", lambda m: (setattr(m, "bpms", OsuBpmList([])), setattr(m, "svs", OsuSvList([])))
            yield "reversed rows", lambda m: (setattr(m, "hits", OsuHitList(m.hits.df.iloc[::-1])),
                                              setattr(m, "holds", OsuHoldList(m.holds.df.iloc[::-1])),
                                              setattr(m, "bpms", OsuBpmList(m.bpms.df.iloc[::-1])))
            yield "foreign labels", lambda m: (
                setattr(m, "hits", relabel(m.hits, lambda n: [100 + 3 * i for i in range(n)][::-1])),
                setattr(m, "holds", relabel(m.holds, lambda n: [7] * n)))
            yield "all tied", lambda m: set_offsets(m, lambda s: s * 0 + 1000.0, lambda s: s * 0 + 1000.0)
            yield "tied pairs", lambda m: set_offsets(m, lambda s: (s // 1000) * 1000, lambda s: (s // 1000) * 1000)
            yield "negative floats", lambda m: set_offsets(m, lambda s: s * -1.5 - 0.25, lambda s: s * -0.5)
            yield "zero offsets", lambda m: set_offsets(m, lambda s: s * 0.0, lambda s: s * -0.0)
            yield "nan offsets", lambda m: set_offsets(
                m, lambda s: s.where(np.arange(len(s)) % 3 != 1, np.nan), lambda s: s)
            yield "inf offsets", lambda m: set_offsets(
                m, lambda s: s.where(np.arange(len(s)) % 4 != 1, np.inf), lambda s: s)
            yield "int offsets", lambda m: (setattr(m.hits, "offset", m.hits.offset.astype(int)),
                                            setattr(m.holds, "offset", m.holds.offset.astype(int)),
                                            setattr(m.holds, "length", m.holds.length.astype(int)))
            yield "object offsets", objectify
            yield "bad meta", lambda m: setattr(m, "audio_lead_in", "x")
            yield "bad meta and bad offsets", lambda m: (setattr(m, "audio_lead_in", "x"), objectify(m))
            yield "bad offsets and keys", lambda m: (objectify(m), setattr(m, "circle_size", "abc"))
            yield "bad meta and keys", lambda m: (setattr(m, "preview_time", None), setattr(m, "circle_size", "abc"))
            yield "bad column", lambda m: setattr(m.hits, "column", m.hits.column + 40)
            yield "preview float", lambda m: setattr(m, "preview_time", 1234.75)

        for base_name in sorted(keep):
            for name, mutate in variants():
                m = copy.deepcopy(keep[base_name])
                try:
                    mutate(m)
                except Exception as e:  # noqa
                    log.add(f"edge {base_name} / {name}", f"SETUP {type(e).__name__}")
                    continue
                lines_and_file(log, f"edge {base_name} / {name}", m, out)

    print("DIGEST", log.digest())


if __name__ == "__main__":
    main()
