"""Demo for change 2: the .osu line classifiers
(OsuTimingPointMeta.is_timing_point / is_slider_velocity, OsuNoteMeta.is_hit / is_hold)
and everything that is routed by them.

Prints one line `DIGEST <hex>` over a canonical dump of every result.
"""
import hashlib
import os
import random

import pandas as pd

from reamber.osu.OsuBpm import OsuBpm
from reamber.osu.OsuHit import OsuHit
from reamber.osu.OsuHold import OsuHold
from reamber.osu.OsuMap import OsuMap
from reamber.osu.OsuNoteMeta import OsuNoteMeta
from reamber.osu.OsuSv import OsuSv
from reamber.osu.OsuTimingPointMeta import OsuTimingPointMeta
from reamber.osu.lists.OsuBpmList import OsuBpmList
from reamber.osu.lists.OsuSvList import OsuSvList
from reamber.osu.lists.notes.OsuHitList import OsuHitList
from reamber.osu.lists.notes.OsuHoldList import OsuHoldList

random.seed(120102)
OUT = []


def emit(*parts):
    OUT.append(" | ".join(str(p) for p in parts))


def canon(v):
    if isinstance(v, pd.DataFrame):
        return "DF cols=%r dtypes=%r index=%r rows=%r" % (
            list(v.columns),
            [str(t) for t in v.dtypes],
            list(v.index),
            [[canon(x) for x in row] for row in v.itertuples(index=False)],
        )
    if isinstance(v, pd.Series):
        return "SER index=%r dtype=%s vals=%r" % (list(v.index), v.dtype, [canon(x) for x in v])
    if isinstance(v, dict):
        return "{" + ", ".join(f"{k!r}: {canon(x)}" for k, x in v.items()) + "}"
    if isinstance(v, (list, tuple)):
        return type(v).__name__ + "[" + ", ".join(canon(x) for x in v) + "]"
    return f"{type(v).__name__}:{v!r}"


def attempt(label, fn, *args, **kwargs):
    try:
        r = fn(*args, **kwargs)
    except BaseException as e:  # noqa
        ctx = type(e.__context__).__name__ if e.__context__ is not None else None
        emit(label, "RAISED", type(e).__name__, repr(e.args), "ctx", ctx)
        return None
    emit(label, "OK", canon(r))
    return r


CLASSIFIERS = [
    ("is_timing_point", OsuTimingPointMeta.is_timing_point),
    ("is_slider_velocity", OsuTimingPointMeta.is_slider_velocity),
    ("is_hit", OsuNoteMeta.is_hit),
    ("is_hold", OsuNoteMeta.is_hold),
]

# ------------------------------------------------------------------ line pool
FILES = ["", "hs.wav", "a b.ogg", "日本語.wav", "C:\\x\\y.wav", "a:b.wav", "a,b.wav", "x:y:z.wav", ":", ","]
TIMES = [0, -1, -4321, 1, 17, 999999, 2 ** 31, -2 ** 31, "12.5", "-0.75", "1e3", " 5", "5 "]


def tp_line(nfields=8, unin=None):
    t = random.choice(TIMES)
    if unin is None:
        unin = random.choice(["0", "1"])
    code = (
        random.choice([500, 333.333333333333, 461.538461538462, 0.001, 1e6, "1E+2", 0])
        if unin == "1"
        else random.choice([-100, -50, -200, -133.333333333333, -1e-3, -1e4, 100, 0, "-0"])
    )
    f = [t, code, random.choice([1, 3, 4, 7]), random.randint(0, 3), random.randint(0, 9),
         random.randint(0, 100), unin, random.choice([0, 1, 8, 9])]
    f = f[:nfields] if nfields <= 8 else f + ["9"] * (nfields - 8)
    return ",".join(str(x) for x in f)


def hit_line(keys, ncolon=4, ncomma=5):
    x = random.choice([random.randrange(0, 512), int((512 * random.randrange(keys) + 256) // keys), 0, 511, 512, 600, -5])
    parts = [x, 192, random.choice(TIMES), 1, random.choice([0, 2, 4, 8, 14])]
    extras = [random.randint(0, 3), random.randint(0, 3), random.randint(0, 9), random.randint(0, 100)]
    tail = ":".join(str(e) for e in extras[: max(ncolon, 0)])
    tail += ":" if ncolon >= 1 else ""
    tail += random.choice(FILES[:5])
    # adjust separator counts exactly
    line = ",".join(str(p) for p in parts[:ncomma]) + "," + tail if ncomma == 5 else ",".join(str(p) for p in (parts + [7, 7])[:ncomma]) + "," + tail
    return line


def hold_line(keys, ncolon=5):
    x = int((512 * random.randrange(keys) + 256) // keys)
    t = random.choice([0, -1000, 5, 123456, 2 ** 31])
    end = t + random.choice([0, 1, 50, 100000, -5])
    extras = [end, random.randint(0, 3), random.randint(0, 3), random.randint(0, 9), random.randint(0, 100)]
    tail = ":".join(str(e) for e in extras[:ncolon]) + (":" if ncolon else "") + random.choice(FILES[:5])
    return f"{x},192,{t},128,{random.choice([0, 2, 8])},{tail}"


pool = [
    "", " ", ",", ":", ",,,,,,,", ",,,,,,1,", ",,,,,,0,", ",,,,,,,1", ",,,,,,1", ",,,,,,0,,", "1", "0",
    "::::,,,,,", ":::::,,,,,", ",,,,,::::", ",,,,,:::::", ",:,:,:,:,", ":,:,:,:,:,:", "::::", ",,,,,",
    "[TimingPoints]", "[HitObjects]", "osu file format v14", "Title:a,b,c,d,e,f:g:h:i",
    "0,500,4,0,0,100,1,0", "0,-100,4,0,0,100,0,0", "0,500,4,0,0,100,2,0", "0,500,4,0,0,100,,0",
    "0,500,4,0,0,100, 1,0", "0,500,4,0,0,100,1 ,0", "0,500,4,0,0,100,01,0", "0,500,4,0,0,100,1.0,0",
    "0,500,4,0,0,100,True,0", "0,500,4,0,0,100,１,0", "0,500,4,0,0,100,1", "0,500,4,0,0,100,1,0,",
    "0,500,4,0,0,100,1,0,0", "0,500,4,0,0,1,100,0", "0,500,4,0,0,0,100,1", "1,1,1,1,1,1,1,1", "0,0,0,0,0,0,0,0",
    "abc,def,4,0,0,100,1,0", "abc,def,4,0,0,100,0,0", "10,500,x,0,0,100,1,0", "10,-100,x,0,0,100,0,0",
    "10,500,4,0,0,100,1,x", "10,-100,4,0,0,100,0,x", "10,0,4,0,0,100,1,0", "10,0,4,0,0,100,0,0",
    "64,192,100,1,0,0:0:0:0:", "64,192,100,128,0,200:0:0:0:0:", "64,192,100,1,0,0:0:0:0:a:b.wav",
    "64,192,100,128,0,200:0:0:0:0:a:b.wav", "64,192,100,1,0,0:0:0:0", "64,192,100,1,0", "64,192,100,1,0,",
    "64,192,100,5,0,0:0:0:0:", "64,192,100,1,0,0:0:0:0:a,b.wav", "x,192,100,1,0,0:0:0:0:", "64,192,t,1,0,0:0:0:0:",
    "64.0,192,100,1,0,0:0:0:0:", "64,192,100,1,0,a:0:0:0:", "64,192,100,128,0,e:0:0:0:0:", "64,192,100,128,0,200:0:0:0:z:",
    "256,192,1000,12,0,2000,0:0:0:0:", "100,100,12600,6,1,B|200:200|250:200,2,310.123,2|1|2,0:0|0:0|0:2,0:0:0:0:",
    "Sample,100,0,\"x.wav\",50", "0,0,\"bg.jpg\",0,0", "2,1000,2000",
]
for _ in range(40):
    pool.append(tp_line())
for n in [0, 1, 5, 6, 7, 9, 10, 12]:
    for _ in range(3):
        pool.append(tp_line(nfields=n))
for u in ["2", "", "-1", "10", "01", " 1", "0 ", "one"]:
    pool.append(tp_line(unin=u))
for keys in range(1, 19):
    pool.append(hit_line(keys))
    pool.append(hold_line(keys))
for nc in [0, 1, 2, 3, 5, 6]:
    pool.append(hit_line(4, ncolon=min(nc, 4)) + ":" * max(nc - 4, 0))
    pool.append(hold_line(7, ncolon=min(nc, 5)) + ":" * max(nc - 5, 0))
for ncomma in [3, 4, 6, 7]:
    pool.append(hit_line(4, ncomma=ncomma))
# random separator soups
for _ in range(60):
    n = random.randint(0, 14)
    pool.append("".join(random.choice([",", ":", "0", "1", "a", " "]) for _ in range(n)))
# permuted variants of valid lines
for base in ["0,500,4,0,0,100,1,0", "64,192,100,1,0,0:0:0:0:", "64,192,100,128,0,200:0:0:0:0:"]:
    for _ in range(12):
        i = random.randrange(len(base) + 1)
        pool.append(base[:i] + random.choice([",", ":", "", "1", "0"]) + base[i + random.choice([0, 1]):])

emit("pool size", len(pool))

# ------------------------------------------------------- classifiers directly
for s in pool:
    before = str(s)
    for name, fn in CLASSIFIERS:
        attempt(f"{name}({s!r})", fn, s)
    assert s == before

# not strings: only the exception TYPE is part of the contract (the message names a str method)
for bad in [None, 5, 1.5, b"0,500,4,0,0,100,1,0", b"64,192,100,1,0,0:0:0:0:", b"", bytearray(b"1,2"),
            ["0", "1"], ("a",), {"a": 1}, object]:
    for name, fn in CLASSIFIERS:
        try:
            r = fn(bad)
        except BaseException as e:  # noqa
            emit(f"{name}({bad!r})", "RAISED", type(e).__name__)
        else:
            emit(f"{name}({bad!r})", "OK", canon(r))

# ------------------------------------------------------- item readers routed by them
for s in pool:
    attempt(f"OsuBpm.read_string({s!r})", OsuBpm.read_string, s, True)
    attempt(f"OsuSv.read_string({s!r})", OsuSv.read_string, s, True)
    for keys in (random.randint(1, 18), 4):
        attempt(f"OsuHit.read_string({s!r},{keys})", OsuHit.read_string, s, keys, True)
        attempt(f"OsuHold.read_string({s!r},{keys})", OsuHold.read_string, s, keys, True)

for s in pool[:80:4]:
    for cls, args in ((OsuBpm, ()), (OsuSv, ()), (OsuHit, (6,)), (OsuHold, (6,))):
        try:
            o = cls.read_string(s, *args)
        except BaseException as e:  # noqa
            emit(f"{cls.__name__} obj {s!r}", "RAISED", type(e).__name__, repr(e.args))
        else:
            emit(f"{cls.__name__} obj {s!r}", type(o).__name__, canon(o.data))
            attempt("  write_string", o.write_string, *args)

# ------------------------------------------------------- section readers (filter by classifier)
for trial in range(30):
    n = random.choice([0, 1, 2, 5, 20, 60])
    sec = random.sample(pool, min(n, len(pool)))
    keep = list(sec)
    m = OsuMap()
    try:
        m._read_file_timing_points(sec)
    except BaseException as e:  # noqa
        emit(f"tp section {trial}", "RAISED", type(e).__name__, repr(e.args))
    else:
        emit(f"tp section {trial}", canon(m.bpms.df), canon(m.svs.df))
    assert sec == keep
    for k in (random.randint(1, 18),):
        m.circle_size = k
        try:
            m._read_file_hit_objects(sec)
        except BaseException as e:  # noqa
            emit(f"ho section {trial} k={k}", "RAISED", type(e).__name__, repr(e.args))
        else:
            emit(f"ho section {trial} k={k}", canon(m.hits.df), canon(m.holds.df))
        assert sec == keep

# clean sections only (always readable)
good_bpm = [s for s in pool if OsuTimingPointMeta.is_timing_point(s)]
good_sv = [s for s in pool if OsuTimingPointMeta.is_slider_velocity(s)]
good_hit = [s for s in pool if OsuNoteMeta.is_hit(s)]
good_hold = [s for s in pool if OsuNoteMeta.is_hold(s)]
emit("counts", len(good_bpm), len(good_sv), len(good_hit), len(good_hold))


def readable(fn, lst, *a):
    out = []
    for s in lst:
        try:
            fn(s, *a, True)
            out.append(s)
        except Exception:
            pass
    return out


good_bpm = readable(OsuBpm.read_string, good_bpm)
good_sv = readable(OsuSv.read_string, good_sv)
good_hit = readable(OsuHit.read_string, good_hit, 4)
good_hold = readable(OsuHold.read_string, good_hold, 4)
emit("readable", len(good_bpm), len(good_sv), len(good_hit), len(good_hold))
attempt("OsuBpmList.read", lambda: OsuBpmList.read(good_bpm).df)
attempt("OsuSvList.read", lambda: OsuSvList.read(good_sv).df)
for k in range(1, 19):
    attempt(f"OsuHitList.read k={k}", lambda: OsuHitList.read(good_hit, k).df)
    attempt(f"OsuHoldList.read k={k}", lambda: OsuHoldList.read(good_hold, k).df)
attempt("OsuBpmList.read []", lambda: OsuBpmList.read([]).df)
attempt("OsuHitList.read []", lambda: OsuHitList.read([], 4).df)

# ------------------------------------------------------- column <-> x axis
for keys in range(1, 19):
    xs = list(range(-40, 560, 7)) + [0, 511, 512, 255, 256, 257] + [random.randint(-2000, 3000) for _ in range(10)]
    emit(f"x2c k={keys}", [OsuNoteMeta.x_axis_to_column(x, keys) for x in xs])
    emit(f"c2x k={keys}", [OsuNoteMeta.column_to_x_axis(c, keys) for c in range(keys)])
    emit(f"c2x2c k={keys}", [OsuNoteMeta.x_axis_to_column(OsuNoteMeta.column_to_x_axis(c, keys), keys) for c in range(keys)])
for keys in (0, -1):
    attempt(f"c2x keys={keys}", OsuNoteMeta.column_to_x_axis, 0, keys)
    attempt(f"x2c keys={keys}", OsuNoteMeta.x_axis_to_column, 100, keys)

# ------------------------------------------------------- full maps, all key counts
HEADER = """osu file format v14

[General]
AudioFilename: audio.mp3
AudioLeadIn: 0
PreviewTime: -1
Countdown: 0
SampleSet: Soft
StackLeniency: 0.7
Mode: 3
LetterboxInBreaks: 0
SpecialStyle: 0
WidescreenStoryboard: 1

[Editor]
DistanceSpacing: 1.2
BeatDivisor: 4
GridSize: 8
TimelineZoom: 1.5

[Metadata]
Title:{title}
TitleUnicode:{title}
Artist:art:ist
ArtistUnicode:アーティスト
Creator:me
Version:{keys}K v:1
Source:
Tags:a b  c
BeatmapID:0
BeatmapSetID:-1

[Difficulty]
HPDrainRate:8
CircleSize:{keys}
OverallDifficulty:8
ApproachRate:5
SliderMultiplier:1.4
SliderTickRate:1

[Events]
//Background and Video events
0,0,"bg file.jpg",0,0
//Break Periods
//Storyboard Layer 0 (Background)
//Storyboard Layer 1 (Fail)
//Storyboard Layer 2 (Pass)
//Storyboard Layer 3 (Foreground)
//Storyboard Layer 4 (Overlay)
//Storyboard Sound Samples
Sample,100,0,"s.wav",60

[TimingPoints]
{tps}


[HitObjects]
{hos}
"""


def make_text(keys):
    tps = [f"{random.randint(-500, 500)},{random.choice([500, 333.333333333333, 461.538461538462])},4,{random.randint(0, 3)},0,{random.randint(0, 100)},1,{random.randint(0, 1)}"]
    for _ in range(random.randint(0, 6)):
        if random.random() < 0.7:
            tps.append(f"{random.randint(0, 100000)},-{random.choice([100, 50, 200, 133.333333333333])},4,{random.randint(0, 3)},0,{random.randint(0, 100)},0,{random.randint(0, 1)}")
        else:
            tps.append(f"{random.randint(0, 100000)},{random.choice([250, 400.5])},{random.choice([3, 4])},1,0,50,1,0")
    if random.random() < 0.3:
        tps.append("")  # blank line inside the section
    hos = []
    for _ in range(random.randint(0, 16)):
        col = random.randrange(keys)
        lo = -(-512 * col // keys)
        hi = -(-512 * (col + 1) // keys) - 1
        x = random.choice([int((512 * col + 256) // keys), lo, hi, random.randint(lo, hi)])
        t = random.randint(-1000, 300000)
        f = random.choice(FILES[:4])
        if random.random() < 0.5:
            hos.append(f"{x},192,{t},1,{random.choice([0, 2, 4, 8])},{random.randint(0, 3)}:{random.randint(0, 3)}:0:{random.randint(0, 100)}:{f}")
        else:
            hos.append(f"{x},192,{t},128,0,{t + random.randint(1, 5000)}:{random.randint(0, 3)}:{random.randint(0, 3)}:0:0:{f}")
    random.shuffle(hos)  # unsorted rows
    return HEADER.format(
        title=random.choice(["Song", "Re:Title", "曲名", "A: B: C"]),
        keys=keys,
        tps="\n".join(tps),
        hos="\n".join(hos),
    )


def dump_map(tag, m):
    emit(tag, "keys", canon(m.circle_size), "title", canon(m.title))
    emit(tag, "bpms", canon(m.bpms.df))
    emit(tag, "svs", canon(m.svs.df))
    emit(tag, "hits", canon(m.hits.df))
    emit(tag, "holds", canon(m.holds.df))
    emit(tag, "samples", canon(m.samples.df))


case = 0
for keys in range(1, 19):
    for rep in range(3):
        case += 1
        src = make_text(keys).split("\n")
        keep = list(src)
        try:
            m = OsuMap.read(src)
        except BaseException as e:  # noqa
            emit(f"map{case}", "READ RAISED", type(e).__name__, repr(e.args))
            continue
        assert src == keep
        dump_map(f"map{case} gen0", m)
        g = m
        for gen in range(1, 4):
            w = g.write()
            emit(f"map{case} gen{gen} text", hashlib.sha256("\n".join(w).encode()).hexdigest())
            g = OsuMap.read("\n".join(w).split("\n"))
            dump_map(f"map{case} gen{gen}", g)

digest = hashlib.sha256("\n".join(OUT).encode("utf8")).hexdigest()
print("DIGEST", digest)
if os.environ.get("DEMO_DUMP"):
    open(os.environ["DEMO_DUMP"], "w", encoding="utf8").write("\n".join(OUT))
