"""C05 — BMS writing produces a file that denotes the in-memory chart (DESIGN §5 C05)."""
from __future__ import annotations

import ast
from typing import Dict, List, Optional, Tuple

from ..model import AnalysisError, walk_no_nested, params_of
from .. import report as R
from ..report import RuleSpec
from .. import codec as C
from .. import sym
from ..flow import Flow, SeqV, ExprV, TupV, show, ctor_kwargs
from .common import unparse, local_defs, strip_calls, ordered_stmts, call_name, comp_of_append_loop
from . import timing_common as T
from . import c04

BMSMAP = c04.BMSMAP
WRITE_NOTES = f"{BMSMAP}._write_notes"
WRITE_HEADER = f"{BMSMAP}._write_file_header"


def _norm(s: str) -> str:
    return s.replace(" ", "")


def _u(e):
    return ast.unparse(e) if e is not None else ""


def _grp_target(st, nm, pos):
    """nm is the pos-th key of `for (k0, k1, ..), g in <groupby>` (pos = -1: the group frame g)"""
    if not (isinstance(st, ast.For) and isinstance(st.target, ast.Tuple) and len(st.target.elts) == 2):
        return False
    keys, g = st.target.elts
    if pos == -1:
        return isinstance(g, ast.Name) and g.id == nm and isinstance(keys, ast.Tuple)
    return isinstance(keys, ast.Tuple) and pos < len(keys.elts) and isinstance(keys.elts[pos], ast.Name) and keys.elts[pos].id == nm


def _zip_of(v, text):
    return isinstance(v, ast.ListComp) and text in _u(v.generators[0].iter)


# roles of the locals of BMSMap._write_notes (sa/normal.py: with_roles): the rules below name them by role
BMS_WRITE_ROLES = (
    ("tm", lambda n, v, st: isinstance(v, ast.Call) and call_name(v) == "from_bpm_changes_offset"),
    ("sample_map", lambda n, v, st: isinstance(v, ast.DictComp) and "self.samples" in _u(v.generators[0].iter)),
    ("channel_map", lambda n, v, st: isinstance(v, ast.DictComp) and "config" in _u(v.generators[0].iter)),
    ("metronome_changes", lambda n, v, st: isinstance(v, ast.ListComp) and ".metronome" in "".join(_u(c) for c in v.generators[0].ifs)),
    ("snapper", lambda n, v, st: isinstance(v, ast.Call) and call_name(v) == "Snapper"),
    ("hits", lambda n, v, st: _zip_of(v, "self.hits.offset")),
    ("hold_heads", lambda n, v, st: _zip_of(v, "self.holds.offset")),
    ("hold_tails", lambda n, v, st: _zip_of(v, "self.holds.tail_offset")),
    ("bpms", lambda n, v, st: _zip_of(v, "self.bpms.offset") and "enumerate" in _u(v.generators[0].iter)),
    ("time_sigs", lambda n, v, st: isinstance(v, ast.ListComp) and "TIME_SIG" in _u(v.elt)),
    ("df", lambda n, v, st: isinstance(v, ast.Call) and call_name(v) == "DataFrame" and any(k.arg == "columns" and "snap" in _u(k.value) for k in v.keywords)),
    ("dfgs", lambda n, v, st: isinstance(v, ast.Call) and call_name(v) == "groupby" and v.args and isinstance(v.args[0], ast.List) and len(v.args[0].elts) == 3),
    ("measure", lambda n, v, st: _grp_target(st, n, 0)),
    ("channel", lambda n, v, st: _grp_target(st, n, 1)),
    ("den", lambda n, v, st: _grp_target(st, n, 2)),
    ("dfg", lambda n, v, st: _grp_target(st, n, -1)),
    ("seq", lambda n, v, st: isinstance(v, ast.BinOp) and isinstance(v.op, ast.Mult) and isinstance(v.left, ast.List) and len(v.left.elts) == 1 and
     isinstance(v.left.elts[0], ast.Constant) and isinstance(v.left.elts[0].value, bytes)),
)


def _write_notes_fn(ctx):
    from ..normal import with_roles
    return with_roles(ctx.M.nfn(WRITE_NOTES, closures=True), BMS_WRITE_ROLES)



def families(ctx):
    """name -> (SeqV of (snap, channel, value) tuples, assignment node), plus the DataFrame construction."""
    M = ctx.M
    fn = _write_notes_fn(ctx)
    F = Flow()
    fam = {}
    frame = None
    for s in fn.node.body:
        if isinstance(s, ast.Assign) and isinstance(s.targets[0], ast.Name):
            if isinstance(s.value, ast.List) and not s.value.elts:
                # a family filled by a loop of its own is the comprehension it is
                lc = comp_of_append_loop(fn.node, s.targets[0].id)
                if lc is not None:
                    s = ast.fix_missing_locations(ast.copy_location(ast.Assign(targets=s.targets, value=lc), s))
            v = F.eval(s.value)
            if isinstance(s.value, ast.ListComp) and isinstance(v, SeqV) and isinstance(v.elem, ast.Tuple):
                fam[s.targets[0].id] = (v, s)
            if isinstance(s.value, ast.Call) and call_name(s.value) == "DataFrame" and frame is None:
                frame = s
            F.assign(s)
    return fn, fam, frame


_DIGITS36 = "0123456789ABCDEFGHIJKLMNOPQRSTUVWXYZ"


def _id_chain(e: ast.AST, lit=None) -> Optional[Tuple[ast.AST, int, int]]:
    """bytes(base_repr(X, B).zfill(W), 'ascii') -> (X, B, W);  bytes((T[X // B], T[X % B])) with T the B upper-case digits of
    base_repr (a constant resolved by ``lit``) -> (X, B, 2): the two base-B digits of X, most significant first"""
    if isinstance(e, ast.Call) and call_name(e) == "bytes" and len(e.args) == 1 and isinstance(e.args[0], (ast.Tuple, ast.List)) and \
            len(e.args[0].elts) == 2 and lit is not None:
        hi, lo = e.args[0].elts
        if all(isinstance(x, ast.Subscript) and isinstance(x.slice, ast.BinOp) and isinstance(x.slice.right, ast.Constant) for x in (hi, lo)) and \
                isinstance(hi.slice.op, ast.FloorDiv) and isinstance(lo.slice.op, ast.Mod) and hi.slice.right.value == lo.slice.right.value and \
                unparse(hi.slice.left) == unparse(lo.slice.left) and unparse(hi.value) == unparse(lo.value):
            try:
                t = lit(hi.value)
            except Exception:
                t = None
            b = hi.slice.right.value
            if isinstance(t, bytes) and isinstance(b, int) and 2 <= b <= 36 and t.decode("ascii", "replace")[:b] == _DIGITS36[:b] and len(t) >= b:
                return hi.slice.left, b, 2
    if isinstance(e, ast.Call) and call_name(e) == "bytes" and e.args:
        z = e.args[0]
        if isinstance(z, ast.Call) and call_name(z) == "zfill" and z.args and isinstance(z.args[0], ast.Constant) and \
                isinstance(z.func.value, ast.Call) and call_name(z.func.value) == "base_repr":
            br = z.func.value
            if len(br.args) == 2 and isinstance(br.args[1], ast.Constant):
                return br.args[0], br.args[1].value, z.args[0].value
    return None


def _base_list(txt: str) -> str:
    """@elem(self.bpms).x / @elem(self.bpms.x) / @index(self.bpms) -> 'self.bpms'"""
    import re
    m = re.search(r"self\.(\w+)", txt)
    return m.group(0) if m else txt


def rule_r1(ctx) -> List[R.Inst]:
    M = ctx.M
    rid = "C05.R1"
    fn, fam, _ = families(ctx)
    file = M.mods[fn.mod].rel
    hdr = c04.split_line_breaks(M.fn(WRITE_HEADER))
    insts = []
    # header side: for e, b in enumerate(self.bpms, 1): b"#BPM" + id(e) + b" " + value(b)
    F = Flow()
    head = None
    lit_h = lambda n_: M.lit(hdr.mod, n_, hdr.cls)     # noqa: E731
    loops_h = [n for n in walk_no_nested(hdr.node) if isinstance(n, ast.For)]
    # (a comprehension building the lines is the same loop: [b"#BPM" + .. for e, b in enumerate(..)])
    for n in walk_no_nested(hdr.node):
        if isinstance(n, (ast.ListComp, ast.GeneratorExp)) and len(n.generators) == 1 and not n.generators[0].ifs:
            g_ = n.generators[0]
            loops_h.append(ast.copy_location(ast.For(target=g_.target, iter=g_.iter, body=[ast.Expr(value=n.elt)], orelse=[]), n))
    for n in loops_h:
        if isinstance(n, ast.For):
            for c in ast.walk(n):
                if isinstance(c, ast.BinOp) and isinstance(c.op, ast.Add):
                    l = c
                    while isinstance(l, ast.BinOp) and isinstance(l.op, ast.Add):
                        l = l.left
                    if isinstance(l, ast.Constant) and isinstance(l.value, bytes) and l.value.strip(b"\r\n") == b"" and l.value:
                        # a line separator written in front of the line (lines appended to one growing buffer): the line starts after it
                        flat, e_ = [], c
                        while isinstance(e_, ast.BinOp) and isinstance(e_.op, ast.Add):
                            flat.insert(0, e_.right)
                            e_ = e_.left
                        if flat and isinstance(flat[0], ast.Constant) and flat[0].value == b"#BPM":
                            c2 = flat[0]
                            for x_ in flat[1:]:
                                c2 = ast.copy_location(ast.BinOp(left=c2, op=ast.Add(), right=x_), c)
                            if any(isinstance(p_, ast.BinOp) and p_.left is c for p_ in ast.walk(n)):
                                continue          # (an inner prefix of a longer chain)
                            c, l = c2, flat[0]
                    if isinstance(l, ast.Constant) and l.value == b"#BPM" and head is None:
                        it = F.eval(n.iter)
                        F2 = Flow()
                        F2.bind(n.target, ExprV(it.elem) if isinstance(it, SeqV) else it)
                        head = (F2._subst_all(c), n, c)
    if head is None:
        return [R.undec(rid, "header-ids", file, hdr.node.lineno, "loop emitting #BPMxx header lines not found")]
    expr, loop, raw = head
    parts = []
    l = expr
    while isinstance(l, ast.BinOp) and isinstance(l.op, ast.Add):
        parts.insert(0, l.right)
        l = l.left
    idc = next((p for p in parts if _id_chain(p, lit_h)), None)
    val = parts[-1] if parts else None
    chan = fam.get("bpms")
    if idc is None or chan is None:
        return [R.undec(rid, "header-ids", file, loop.lineno, "id formatting chain of #BPMxx not recognised")]
    hx, hb, hw = _id_chain(idc, lit_h)
    cv = chan[0].elem.elts
    cid = _id_chain(cv[2], lambda n_: M.lit(fn.mod, n_, fn.cls)) if len(cv) == 3 else None
    if cid is None:
        return [R.undec(rid, "channel-ids", file, chan[1].lineno, "id formatting chain of the tempo objects not recognised")]
    cx, cb, cw = cid

    def leaf(n):
        if isinstance(n, ast.Call) and isinstance(n.func, ast.Name) and n.func.id == "@index":
            return "IX"
        return None
    same_id = sym.canon(hx, leaf).same(sym.canon(cx, leaf)) and "IX" in sym.canon(hx, leaf).symbols()
    key = "tempo-id"
    if not same_id:
        insts.append(R.viol(rid, key, file, chan[1].lineno,
                            f"the k-th tempo point is declared as #BPM id '{show(hx)}' but referenced on the tempo channel as "
                            f"'{show(cx)}': objects point at the wrong tempo", construct=f"header {show(hx)} vs channel {show(cx)}"))
    elif (hb, hw) != (cb, cw):
        insts.append(R.viol(rid, key, file, chan[1].lineno,
                            f"ids are rendered base {hb} width {hw} in the header but base {cb} width {cw} on the channel",
                            construct=f"header ({hb},{hw}) vs channel ({cb},{cw})"))
    elif (hb, hw) != (36, 2):
        insts.append(R.viol(rid, key, file, loop.lineno, f"BMS object ids are two base-36 characters, not base {hb} width {hw}",
                            construct=f"ids base {hb} width {hw}"))
    else:
        insts.append(R.ok(rid, key, file, chan[1].lineno, idiom=f"header id {show(hx)} == channel id {show(cx)}, base 36, 2 chars"))
    # the two enumerations run over the same list in the same order; value = that point's bpm; snap = that point's offset
    hbase = _base_list(show(hx))
    cbase = _base_list(show(cx))
    key = "tempo-order"
    vt = show(val) if val is not None else "?"
    st = show(cv[0])
    probs = []
    if hbase != cbase:
        probs.append(f"header ids number '{hbase}' but channel ids number '{cbase}'")
    if f"@elem({hbase}).bpm" not in _norm(vt):
        probs.append(f"the #BPMxx value is '{vt}', not the bpm of the numbered tempo point")
    if _norm(st) not in (_norm(f"@tm.snaps(tm, @elem({cbase}.offset), snapper)"), _norm(f"@tm.snaps(tm, @elem({cbase}).offset, snapper)")):
        probs.append(f"the tempo object is placed at '{st}', not at the offset of the numbered tempo point")
    if probs:
        insts.append(R.viol(rid, key, file, chan[1].lineno, "; ".join(probs), construct="; ".join(probs)))
    else:
        insts.append(R.ok(rid, key, file, chan[1].lineno, idiom=f"both enumerate {hbase} in row order; value = its bpm; position = its offset"))
    # uses the extended-tempo role
    ch = show(cv[1])
    insts.append(R.ok(rid, "tempo-channel", file, chan[1].lineno, idiom=ch) if _norm(ch) == "channel_map['EXBPM_CHANGE']" else
                 R.viol(rid, "tempo-channel", file, chan[1].lineno,
                        f"tempo ids refer to the #BPMxx table and belong on the extended-tempo channel (08); they are written to {ch}",
                        construct=ch))
    return insts


def rule_r2(ctx) -> List[R.Inst]:
    M = ctx.M
    rid = "C05.R2"
    fn = _write_notes_fn(ctx)
    file = M.mods[fn.mod].rel
    inv = c04.inverted_maps(fn.node)
    cfg = [p for p in params_of(fn.node) if "config" in p]
    hit = [k for k, v in inv.items() if v in cfg]
    if len(hit) != 1:
        return [R.viol(rid, "inverse-lane-map", file, fn.node.lineno,
                       "the column->channel map is not the inversion of the layout passed by the caller",
                       construct=f"inversions found: {inv}")]
    return [R.ok(rid, "inverse-lane-map", file, fn.node.lineno,
                 idiom=f"{hit[0]} = {{v: k for k, v in {inv[hit[0]]}.items()}} (sound because layouts are injective: C04.R1)")]


def _lnobj_expr(ctx) -> Optional[str]:
    """source text of the value the header writes after b"#LNOBJ " (helpers inlined, a local bound once resolved, the
    encode-unless-bytes conditional looked through)"""
    hdr = ctx.M.nfn(WRITE_HEADER)
    for n in walk_no_nested(hdr.node):
        if isinstance(n, ast.BinOp) and isinstance(n.op, ast.Add) and isinstance(n.left, ast.Constant) and n.left.value == b"#LNOBJ ":
            e = n.right
            if isinstance(e, ast.IfExp):
                # encode-unless-bytes, either polarity: the branch that is not the encode call is the value itself
                plain = [b for b in (e.body, e.orelse) if not (isinstance(b, ast.Call) and call_name(b) == "encode")]
                e = plain[0] if len(plain) == 1 else e.orelse
            if isinstance(e, ast.Call) and call_name(e) == "encode":
                if isinstance(e.func, ast.Attribute) and not (isinstance(e.func.value, ast.Name) and e.func.value.id == "codecs"):
                    e = e.func.value          # value.encode(...)
                elif e.args:
                    e = e.args[0]             # encode(value, ...)
            if isinstance(e, ast.Name):
                ds = [x.value for x in walk_no_nested(hdr.node) if isinstance(x, ast.Assign) and len(x.targets) == 1 and
                      isinstance(x.targets[0], ast.Name) and x.targets[0].id == e.id]
                if len(ds) == 1:
                    e = ds[0]
            return unparse(e)
    return None


def rule_r3(ctx) -> List[R.Inst]:
    M = ctx.M
    rid = "C05.R3"
    fn, fam, _ = families(ctx)
    file = M.mods[fn.mod].rel
    inv = c04.inverted_maps(fn.node)
    cfg = [p for p in params_of(fn.node) if "config" in p]
    cmap = next((k for k, v in inv.items() if v in cfg), "channel_map")
    smap = next((k for k, v in inv.items() if v == "self.samples"), "sample_map")
    spec = {
        "hits": ("self.hits", "offset", "sample"),
        "hold_heads": ("self.holds", "offset", "sample"),
        "hold_tails": ("self.holds", "tail_offset", None),
    }
    insts = []
    for name, (lst, tfield, sfield) in spec.items():
        if name not in fam:
            insts.append(R.undec(rid, f"{name}", file, fn.node.lineno, f"family '{name}' not found"))
            continue
        v, st = fam[name]
        el = v.elem.elts
        if len(el) != 3:
            insts.append(R.undec(rid, name, file, st.lineno, "family element is not a (position, channel, value) triple"))
            continue
        pos, ch, val = (_norm(show(x)) for x in el)
        want_pos = {_norm(f"@tm.snaps(tm, @elem({lst}.{tfield}), snapper)")}
        if tfield == "tail_offset":
            want_pos.add(_norm(f"@tm.snaps(tm, @elem({lst}.offset + {lst}.length), snapper)"))
        key = f"{name}:position"
        if pos in want_pos:
            insts.append(R.ok(rid, key, file, st.lineno, idiom=f"position <- snaps of {lst}.{tfield}"))
        elif pos.startswith("@tm.snaps("):
            insts.append(R.viol(rid, key, file, st.lineno,
                                f"{name} are positioned by {show(el[0])}; they belong at {lst}.{tfield}",
                                construct=f"{name} position <- {show(el[0])}"))
        else:
            insts.append(R.undec(rid, key, file, st.lineno, f"position expression not recognised: {show(el[0])}"))
        key = f"{name}:lane"
        if ch == _norm(f"{cmap}[@elem({lst}.column)]"):
            insts.append(R.ok(rid, key, file, st.lineno, idiom=f"channel <- {cmap}[column of the same row]"))
        else:
            insts.append(R.viol(rid, key, file, st.lineno,
                                f"{name} take their lane from {show(el[1])}; it must be the column of the same row of {lst}",
                                construct=f"{name} lane <- {show(el[1])}"))
        key = f"{name}:value"
        if sfield:
            ok_v = val.startswith(_norm(f"{smap}.get(@elem({lst}.{sfield}),")) or val == _norm(f"{smap}[@elem({lst}.{sfield})]")
            insts.append(R.ok(rid, key, file, st.lineno, idiom=f"object id <- id of the row's own sample") if ok_v else
                         R.viol(rid, key, file, st.lineno,
                                f"{name} carry {show(el[2])}; it must be the id of the row's own sample",
                                construct=f"{name} value <- {show(el[2])}"))
        else:
            # the tail value is the very expression the header declares with #LNOBJ (compared after inlining helpers / locals)
            hdr_expr = _lnobj_expr(ctx)
            tv = el[2]
            if isinstance(tv, ast.Name):
                # a local bound once (the id computed before the families are built)
                ds = [x.value for x in walk_no_nested(fn.node) if isinstance(x, ast.Assign) and len(x.targets) == 1 and
                      isinstance(x.targets[0], ast.Name) and x.targets[0].id == tv.id]
                if len(ds) == 1:
                    tv = ds[0]
                    val = _norm(show(tv))
            same = hdr_expr is not None and _norm(unparse(tv)) == _norm(hdr_expr) and "ln_end_channel" in hdr_expr
            insts.append(R.ok(rid, key, file, st.lineno, idiom="tail object = the id written to #LNOBJ (from self.ln_end_channel)")
                         if val == "self.ln_end_channel" or same else
                         R.viol(rid, key, file, st.lineno,
                                f"hold tails carry {show(el[2])}; a reader closes a hold only on the id declared by #LNOBJ "
                                f"(self.ln_end_channel)", construct=f"tail value <- {show(el[2])}"))
    # #LNOBJ is declared whenever tails are written
    wt = c04.header_writer(ctx)
    ln = wt.get(b"LNOBJ")
    hdr = M.fn(WRITE_HEADER)
    if (ln and "ln_end_channel" in ln[0]) or (ln and "ln_end_channel" in (_lnobj_expr(ctx) or "")):
        insts.append(R.ok(rid, "lnobj-declared", file, ln[1].lineno, idiom="#LNOBJ <- self.ln_end_channel"))
    else:
        insts.append(R.viol(rid, "lnobj-declared", file, hdr.node.lineno,
                            "the marker id used for hold tails is not declared with #LNOBJ", construct="no #LNOBJ from ln_end_channel"))
    return insts


def rule_r4(ctx) -> List[R.Inst]:
    M = ctx.M
    rid = "C05.R4"
    fn, fam, frame = families(ctx)
    file = M.mods[fn.mod].rel
    if frame is None:
        return [R.undec(rid, "slot-table", file, fn.node.lineno, "DataFrame of (snap, channel, value) rows not found")]
    call = frame.value
    rows = call.args[0] if call.args else None
    cols = next((k.value for k in call.keywords if k.arg == "columns"), None)
    insts = []
    included = []
    if isinstance(rows, ast.List):
        for e in rows.elts:
            if isinstance(e, ast.Starred) and isinstance(e.value, ast.Name):
                included.append(e.value.id)
    elif isinstance(rows, ast.BinOp):
        included = [n.id for n in ast.walk(rows) if isinstance(n, ast.Name)]
    want = ["hits", "hold_heads", "hold_tails", "bpms", "time_sigs"]
    for w in want:
        key = f"family:{w}"
        if w not in fam:
            insts.append(R.undec(rid, key, file, fn.node.lineno, f"family '{w}' not built"))
        elif included.count(w) == 1:
            insts.append(R.ok(rid, key, file, fam[w][1].lineno, idiom=f"*{w} concatenated once into the slot table"))
        elif included.count(w) == 0:
            insts.append(R.viol(rid, key, file, frame.lineno, f"'{w}' is built but never written: those objects are dropped",
                                construct=f"slot table lacks {w}"))
        else:
            insts.append(R.viol(rid, key, file, frame.lineno, f"'{w}' is written {included.count(w)} times",
                                construct=f"slot table repeats {w}"))
    # tuple positions agree with the column names, for every family
    try:
        names = M.lit(fn.mod, cols) if cols is not None else None
    except Exception:
        names = None
    if names != ["snap", "channel", "value"]:
        insts.append(R.undec(rid, "row-layout", file, frame.lineno, f"column names of the slot table not recognised: {names}"))
    else:
        bad = []
        for w in want:
            if w in fam:
                el = fam[w][0].elem.elts
                if len(el) != 3 or not _norm(show(el[0])).startswith("@tm.snaps(") or "_map[" not in _norm(show(el[1])):
                    bad.append(w)
        insts.append(R.ok(rid, "row-layout", file, frame.lineno, idiom="every family is (snap, channel, value), as the columns are named")
                     if not bad else
                     R.viol(rid, "row-layout", file, frame.lineno,
                            f"families {bad} do not put (position, channel, value) in the order the table's columns are named",
                            construct=f"row layout of {bad}"))
    return insts


def rule_r5(ctx) -> List[R.Inst]:
    """line shapes"""
    M = ctx.M
    rid = "C05.R5"
    fn = _write_notes_fn(ctx)
    file = M.mods[fn.mod].rel
    insts = []
    from .. import sympaths as SP
    # the per-line loop: the loop over the groups whose body appends one line; the appended expression is resolved through the
    # locals of the body (header = ..; line = header + ..; line += ..), so the names used for the pieces do not matter
    appended = None
    seq_name = None
    gloop = None
    for lp in (n for n in walk_no_nested(fn.node) if isinstance(n, ast.For)):
        try:
            pths = SP.enumerate_paths(lp.body, loops="havoc")
        except OverflowError:
            continue
        if len(pths) != 1:
            continue
        for e in pths[0].effects:
            if isinstance(e, ast.Call) and call_name(e) == "append" and isinstance(e.func.value, ast.Name) and e.args and \
                    any(isinstance(x, ast.Call) and call_name(x) == "join" for x in ast.walk(e.args[0])):
                appended, gloop = e.args[0], lp
    if appended is None:
        insts.append(R.undec(rid, "note-line", file, fn.node.lineno, "note line construction not found"))
    else:
        def cat_parts(e):
            """flat byte-concatenation parts: a + b, b"".join([p, q, *seq]) and b"".join(seq) (the payload, kept as the join call)"""
            if isinstance(e, ast.BinOp) and isinstance(e.op, ast.Add):
                return cat_parts(e.left) + cat_parts(e.right)
            if isinstance(e, ast.Call) and call_name(e) == "join" and isinstance(e.func, ast.Attribute) and isinstance(e.func.value, ast.Constant) and \
                    e.func.value.value in (b"", "") and len(e.args) == 1 and isinstance(e.args[0], (ast.List, ast.Tuple)):
                out_ = []
                for x in e.args[0].elts:
                    if isinstance(x, ast.Starred):
                        out_.append(ast.copy_location(ast.Call(func=e.func, args=[x.value], keywords=[]), e))
                    else:
                        out_ += cat_parts(x)
                return out_
            if isinstance(e, ast.Name):
                # a header kept in a local of an enclosing loop: prefix = b"#.." + channel + b":"
                ds = local_defs(fn.node, e.id)
                if len(ds) == 1 and isinstance(ds[0], ast.BinOp) and isinstance(ds[0].op, ast.Add):
                    return cat_parts(ds[0])
            return [e]
        parts = cat_parts(appended)
        # the last part is the payload: b"".join(<slots>)
        payload = parts.pop() if parts and isinstance(parts[-1], ast.Call) and call_name(parts[-1]) == "join" else None
        if payload is not None and payload.args and isinstance(payload.args[0], ast.Name):
            seq_name = payload.args[0].id
        probs = []
        if payload is None:
            probs.append("the line does not end with the joined slots")
        if len(parts) != 3:
            probs.append(f"a note line is '#' + measure + channel + ':' (3 parts), found {len(parts)}")
        else:
            p0 = parts[0]
            toks = C.fstring_tokens(p0.args[0]) if isinstance(p0, ast.Call) and call_name(p0) == "bytes" and p0.args else None
            if toks is None and isinstance(p0, ast.BinOp) and isinstance(p0.op, ast.Mod) and isinstance(p0.left, ast.Constant) and \
                    isinstance(p0.left.value, (bytes, str)):
                # printf form: b"#%03d" % int(measure)
                import re as _re
                fmt_ = p0.left.value.decode("ascii", "replace") if isinstance(p0.left.value, bytes) else p0.left.value
                m_ = _re.fullmatch(r"([^%]*)%(0?\d*)d", fmt_)
                if m_ and not isinstance(p0.right, ast.Tuple):
                    toks = [("lit", m_.group(1)), ("val", p0.right, m_.group(2))]
            if not toks or toks[0] != ("lit", "#") or len(toks) != 2 or toks[1][0] != "val":
                probs.append("the line must start with '#' followed by the measure number")
            else:
                spec = toks[1][2] or ""
                if spec not in ("03", "03d", "0>3"):
                    probs.append(f"the measure must be written as three digits (format '03'), not '{spec}': the reader slices [1:4]")
                if "measure" not in unparse(toks[1][1]):
                    probs.append(f"the first field must be the measure, not {unparse(toks[1][1])}")
            if unparse(parts[1]) != "channel":
                probs.append(f"the second field must be the two-character channel, not {unparse(parts[1])}")
            if not (isinstance(parts[2], ast.Constant) and parts[2].value == b":"):
                probs.append("the header of a note line ends with ':'")
        ln = getattr(appended, "lineno", gloop.lineno)
        if probs:
            insts.append(R.viol(rid, "note-line", file, ln, "; ".join(probs), construct="; ".join(probs)))
        else:
            insts.append(R.ok(rid, "note-line", file, ln, idiom="'#' + measure:03 + channel + ':' + objects"))
    # empty slots are 00 and the payload has exactly `den` slots
    seq = [n for n in ast.walk(gloop if gloop is not None else fn.node) if isinstance(n, ast.Assign) and isinstance(n.targets[0], ast.Name)
           and n.targets[0].id == (seq_name or "seq")]
    if len(seq) == 1 and isinstance(seq[0].value, ast.BinOp) and isinstance(seq[0].value.op, ast.Mult):
        l, r = seq[0].value.left, seq[0].value.right
        lst = l if isinstance(l, ast.List) else r
        if isinstance(lst, ast.List) and len(lst.elts) == 1 and isinstance(lst.elts[0], ast.Constant) and lst.elts[0].value == b"00":
            insts.append(R.ok(rid, "empty-slot", file, seq[0].lineno, idiom="[b'00'] * slots"))
        else:
            insts.append(R.viol(rid, "empty-slot", file, seq[0].lineno, "an empty slot is the two characters 00",
                                construct=unparse(seq[0])))
    else:
        insts.append(R.undec(rid, "empty-slot", file, fn.node.lineno, "payload initialisation not recognised"))
    # header lines: b"#KEY " + value, joined by CRLF
    wt = c04.header_writer(ctx)
    hdr = c04.split_line_breaks(M.nfn(WRITE_HEADER))      # (a private helper that builds the lines of one table is read in place)
    for k in (b"TITLE", b"ARTIST", b"BPM", b"PLAYLEVEL", b"LNOBJ"):
        key = f"header-line:{k.decode()}"
        if k not in wt:
            insts.append(R.viol(rid, key, file, hdr.node.lineno, f"#{k.decode()} is not written", construct=f"no #{k.decode()}"))
            continue
        n = wt[k][1]
        l = n
        while isinstance(l, ast.BinOp) and isinstance(l.op, ast.Add):
            l = l.left
        if l.value == b"#" + k + b" ":
            insts.append(R.ok(rid, key, file, n.lineno, idiom=f"b'#{k.decode()} ' + value"))
        else:
            insts.append(R.viol(rid, key, file, n.lineno,
                                f"a header line is '#KEY' + one space + value; found prefix {l.value!r} (the reader splits on the first space)",
                                construct=unparse(n)[:120]))
    for k, label in ((b"BPM", "#BPMxx"), (b"WAV", "#WAVxx")):
        pass
    # multi-valued headers: '#BPM' + id + ' ' + value and '#WAV' + id + ' ' + value
    for n in walk_no_nested(hdr.node):
        if isinstance(n, ast.BinOp) and isinstance(n.op, ast.Add):
            parts = []
            e = n
            while isinstance(e, ast.BinOp) and isinstance(e.op, ast.Add):
                parts.insert(0, e.right)
                e = e.left
            parts.insert(0, e)
            if len(parts) == 5 and isinstance(parts[0], ast.Constant) and isinstance(parts[0].value, bytes) and parts[0].value and \
                    parts[0].value.strip(b"\r\n") == b"":
                parts = parts[1:]          # the line break written in front of a line appended to one buffer
            if isinstance(parts[0], ast.Constant) and parts[0].value in (b"#BPM", b"#WAV", b"#") and len(parts) == 4:
                key = f"header-line:{parts[0].value.decode()}xx"
                if any(i.key == key for i in insts):
                    continue
                if isinstance(parts[2], ast.Constant) and parts[2].value == b" ":
                    insts.append(R.ok(rid, key, file, n.lineno, idiom="prefix + id + b' ' + value"))
                else:
                    insts.append(R.viol(rid, key, file, n.lineno, "id and value must be separated by one space",
                                        construct=unparse(n)[:120]))
    return insts


def _strip_repr(e):
    """representation changes that keep the elements and their order"""
    while True:
        if isinstance(e, ast.Call) and isinstance(e.func, ast.Attribute) and e.func.attr in ("tolist", "to_list", "to_numpy", "copy") and not e.args:
            e = e.func.value
        elif isinstance(e, ast.Call) and isinstance(e.func, ast.Name) and e.func.id in ("list", "tuple", "iter") and len(e.args) == 1:
            e = e.args[0]
        elif isinstance(e, ast.Attribute) and e.attr in ("values", "array"):
            e = e.value
        else:
            return e


def rule_r6(ctx) -> List[R.Inst]:
    """slot arithmetic shape and timing-map provenance of the writer"""
    M = ctx.M
    rid = "C05.R6"
    fn = _write_notes_fn(ctx)
    file = M.mods[fn.mod].rel
    insts = []
    # tm = from_bpm_changes_offset([BpmChangeOffset(bpm=b.bpm, metronome=b.metronome, offset=b.offset) for b in self.bpms])
    tm = [n for n in fn.node.body if isinstance(n, ast.Assign) and isinstance(n.value, ast.Call) and
          call_name(n.value) == "from_bpm_changes_offset"]
    if len(tm) != 1 or not tm[0].value.args or not isinstance(tm[0].value.args[0], ast.ListComp):
        insts.append(R.undec(rid, "timing-map", file, fn.node.lineno, "writer timing map construction not recognised"))
    else:
        lc = tm[0].value.args[0]
        kw = ctor_kwargs(lc.elt) or {}
        g = lc.generators[0]
        var = g.target.id if isinstance(g.target, ast.Name) else "?"
        probs = []
        order = ["bpm", "metronome", "offset"]
        for i, f in enumerate(order):
            a = kw.get(f, kw.get(f"#{i}"))
            if a is None or unparse(a) != f"{var}.{f}":
                probs.append(f"BpmChangeOffset.{f} <- {unparse(a) if a is not None else 'missing'}")
        if unparse(g.iter) != "self.bpms" or g.ifs:
            probs.append(f"built from {unparse(g.iter)}{' (filtered)' if g.ifs else ''}, not from every tempo point of the chart")
        srt, why = T.callee_sorts_param(ctx, T.FROM_OFFSET, "bco_s", "offset")
        if not srt:
            probs.append(f"tempo points are not ordered by time before use ({why})")
        if probs:
            insts.append(R.viol(rid, "timing-map", file, tm[0].lineno, "; ".join(probs), construct="; ".join(probs)))
        else:
            insts.append(R.ok(rid, "timing-map", file, tm[0].lineno,
                              idiom="timing map from every tempo point (bpm, metronome, offset), sorted by time in the callee"))
    # measure / den / num extraction and rescaling
    cols = {}
    for n in fn.node.body:
        if isinstance(n, ast.Assign) and isinstance(n.targets[0], ast.Subscript) and C.const_str(n.targets[0].slice) and \
                isinstance(n.value, ast.ListComp):
            cols.setdefault(C.const_str(n.targets[0].slice), n)
    want = {"measure": "V.measure", "den": "V.beat.denominator * V.metronome", "num": "V.beat.numerator"}
    for c, spec in want.items():
        key = f"slot:{c}"
        if c not in cols:
            insts.append(R.undec(rid, key, file, fn.node.lineno, f"column '{c}' of the slot table not found"))
            continue
        lc = cols[c].value
        v = lc.generators[0].target.id if isinstance(lc.generators[0].target, ast.Name) else "?"

        def leaf(n, v=v):
            if isinstance(n, ast.Attribute):
                t = unparse(n)
                if t.startswith(v + "."):
                    return "V_" + t[len(v) + 1:].replace(".", "_")
            return None
        sp = sym.parse(spec.replace("V.", "V_").replace(".", "_"))
        it_ = lc.generators[0].iter
        if isinstance(it_, ast.Name):
            ds_ = local_defs(fn.node, it_.id)
            it_ = ds_[0] if len(ds_) == 1 else it_
        it_txt = unparse(it_).replace('"', "'")
        src_ok = it_txt in ("df['snap']", "df.pop('snap')", "df.snap", "df['snap'].tolist()", "df['snap'].to_list()")
        if sym.canon(lc.elt, leaf).same(sp) and src_ok:
            insts.append(R.ok(rid, key, file, cols[c].lineno, idiom=f"{c} = {spec.replace('V', 'snap')}"))
        elif sym.canon(lc.elt, leaf).same(sp):
            insts.append(R.undec(rid, key, file, cols[c].lineno, f"'{c}' has the right formula, but over '{it_txt[:50]}', which is not followed back to the snap column"))
        elif not src_ok:
            insts.append(R.undec(rid, key, file, cols[c].lineno, f"'{c}' is computed as '{unparse(lc.elt)[:50]}' over '{it_txt[:40]}': not read"))
        else:
            insts.append(R.viol(rid, key, file, cols[c].lineno,
                                f"'{c}' must be {spec.replace('V', 'snap')} (position in the measure = beat / beats-per-measure)",
                                construct=unparse(cols[c])))
    def leaf2(n):
        t = unparse(n).replace('"', "'")
        if isinstance(n, ast.Attribute) and t.startswith("df."):
            return t[3:]
        if isinstance(n, ast.Subscript) and t.startswith("df['") and t.endswith("']"):
            return t[4:-2]
        return None
    sc = []
    for n in fn.node.body:
        tgt = n.target if isinstance(n, ast.AugAssign) else (n.targets[0] if isinstance(n, ast.Assign) else None)
        if tgt is not None and leaf2(tgt) == "num" and not isinstance(n.value, ast.ListComp) and \
                not (isinstance(n.value, ast.Call) and call_name(n.value) == "astype" and leaf2(n.value.func.value) == "num"):
            if isinstance(n, ast.AugAssign):
                val = ast.BinOp(left=tgt, op=n.op, right=n.value)
            else:
                val = n.value
                while isinstance(val, ast.Call) and call_name(val) in ("astype", "round") and isinstance(val.func, ast.Attribute):
                    val = val.func.value
            sc.append((n, val))
    if len(sc) == 1:
        inexact = None
        for dnode in ast.walk(sc[0][1]):
            if isinstance(dnode, ast.BinOp) and isinstance(dnode.op, ast.Div):
                ls = sym.canon(dnode.left, leaf2).symbols()
                rs = sym.canon(dnode.right, leaf2).symbols()
                if "num" in ls and "new_den" not in ls and "den" in rs:
                    inexact = dnode
        if sym.canon(sc[0][1], leaf2).same(sym.parse("num * new_den / den")) and inexact is not None:
            insts.append(R.viol(rid, "slot:rescale", file, sc[0][0].lineno,
                                f"the slot is computed as '{unparse(sc[0][1])}': the quotient '{unparse(inexact)}' is evaluated first and "
                                f"is not representable for denominators such as 7, 11, 13, 21 (17/28*84 = 50.999…), and the later int() "
                                f"truncates it one slot early; multiply by the exact ratio new_den/den instead",
                                construct=f"inexact quotient first: {unparse(sc[0][1])}"))
        elif sym.canon(sc[0][1], leaf2).same(sym.parse("num * new_den / den")):
            insts.append(R.ok(rid, "slot:rescale", file, sc[0][0].lineno, idiom="num = num * new_den / den"))
        else:
            insts.append(R.viol(rid, "slot:rescale", file, sc[0][0].lineno,
                                "slot = num * (slots of the line) / den", construct=unparse(sc[0][0])))
    else:
        insts.append(R.undec(rid, "slot:rescale", file, fn.node.lineno, "rescaling of the slot numerator not recognised"))
    # the slots of a line: find_lcm over ALL denominators of the (measure, channel) group
    fl = [n for n in ast.walk(fn.node) if isinstance(n, ast.Call) and call_name(n) == "find_lcm" and n.args]
    if len(fl) != 1:
        insts.append(R.undec(rid, "slot:line-denominator", file, fn.node.lineno, f"{len(fl)} find_lcm calls found"))
    else:
        a0 = fl[0].args[0]
        if isinstance(a0, ast.Name):
            ds_ = [x.value for x in ast.walk(fn.node) if isinstance(x, ast.Assign) and len(x.targets) == 1 and isinstance(x.targets[0], ast.Name) and x.targets[0].id == a0.id]
            a0 = ds_[0] if len(ds_) == 1 else a0
        core = _strip_repr(a0)
        whole = None
        if isinstance(core, ast.Subscript) and isinstance(core.slice, ast.Slice):
            whole = False
        elif isinstance(core, ast.Subscript) and C.const_str(core.slice) == "den" and isinstance(core.value, ast.Name):
            # the group variable of `for (measure, channel), G in <frame>.groupby([...])`
            g = core.value.id
            lp = next((l for l in ast.walk(fn.node) if isinstance(l, ast.For) and isinstance(l.target, ast.Tuple) and len(l.target.elts) == 2 and
                       isinstance(l.target.elts[1], ast.Name) and l.target.elts[1].id == g and any(x is fl[0] for x in ast.walk(l))), None)
            keys = unparse(lp.iter) if lp is not None else ""
            whole = lp is not None and "groupby" in keys and "measure" in keys and "channel" in keys
        elif isinstance(core, ast.Name):
            # the parameter of the lambda handed to <frame>.groupby([measure, channel])["den"].transform(lambda den: find_lcm(den.tolist(), K))
            lam = next((l for l in ast.walk(fn.node) if isinstance(l, ast.Lambda) and any(x is fl[0] for x in ast.walk(l)) and
                        len(l.args.args) == 1 and l.args.args[0].arg == core.id), None)
            tr = next((c for c in ast.walk(fn.node) if isinstance(c, ast.Call) and call_name(c) in ("transform", "apply") and c.args and c.args[0] is lam), None) if lam else None
            src = unparse(tr.func.value).replace('"', "'") if tr is not None else ""
            whole = tr is not None and "groupby" in src and "measure" in src and "channel" in src and src.endswith("['den']")
        if whole:
            insts.append(R.ok(rid, "slot:line-denominator", file, fl[0].lineno, idiom="find_lcm over all denominators of the (measure, channel) group"))
        elif whole is False:
            insts.append(R.viol(rid, "slot:line-denominator", file, fl[0].lineno,
                                f"the line's slot count is computed from a PART of its denominators ('{unparse(fl[0].args[0])[:60]}'): one result per "
                                f"object is needed — a lane with more objects in a measure than the slice keeps cannot be written",
                                construct=f"find_lcm({unparse(fl[0].args[0])[:60]}, …)"))
        else:
            insts.append(R.undec(rid, "slot:line-denominator", file, fl[0].lineno, f"argument of find_lcm not recognised: {unparse(fl[0].args[0])[:80]}"))
    # the store into the line uses the rescaled numerator as index and the object's value
    # (the payload list: the one initialised as [b"00"] * slots)
    seqn = {n.targets[0].id for n in ast.walk(fn.node) if isinstance(n, ast.Assign) and isinstance(n.targets[0], ast.Name) and
            isinstance(n.value, ast.BinOp) and isinstance(n.value.op, ast.Mult) and any(isinstance(x, ast.List) for x in (n.value.left, n.value.right))} or {"seq"}
    st = [n for n in ast.walk(fn.node) if isinstance(n, ast.Assign) and isinstance(n.targets[0], ast.Subscript) and
          isinstance(n.targets[0].value, ast.Name) and n.targets[0].value.id in seqn]
    if len(st) == 1:
        # which column of the group's rows a loop variable carries: `for _, row in G.iterrows()` -> row[c]; `for a, b in zip(G[c1], G[c2])`
        colof = {}
        for lp in ast.walk(fn.node):
            if isinstance(lp, ast.For) and any(x is st[0] for x in ast.walk(lp)):
                if isinstance(lp.iter, ast.Call) and call_name(lp.iter) == "iterrows" and isinstance(lp.target, ast.Tuple) and len(lp.target.elts) == 2 \
                        and isinstance(lp.target.elts[1], ast.Name):
                    colof[lp.target.elts[1].id] = ("row", unparse(lp.iter.func.value))
                if isinstance(lp.iter, ast.Call) and call_name(lp.iter) == "zip" and isinstance(lp.target, ast.Tuple) and \
                        len(lp.target.elts) == len(lp.iter.args):
                    for t_, a_ in zip(lp.target.elts, lp.iter.args):
                        if isinstance(a_, ast.Name):
                            ds_ = [x.value for x in ast.walk(fn.node) if isinstance(x, ast.Assign) and isinstance(x.targets[0], ast.Name) and x.targets[0].id == a_.id]
                            a_ = ds_[0] if len(ds_) == 1 else a_
                        a_ = _strip_repr(a_)      # G["c"].tolist() / list(G["c"]) / G["c"].to_numpy(): the same elements in the same order
                        if isinstance(t_, ast.Name) and isinstance(a_, ast.Subscript) and C.const_str(a_.slice):
                            colof[t_.id] = ("col", unparse(a_.value), C.const_str(a_.slice))

        def column_of(e):
            e = strip_calls(e)
            if isinstance(e, ast.Subscript) and isinstance(e.value, ast.Name) and colof.get(e.value.id, ("",))[0] == "row" and C.const_str(e.slice):
                return (colof[e.value.id][1], C.const_str(e.slice))
            if isinstance(e, ast.Name) and colof.get(e.id, ("",))[0] == "col":
                return (colof[e.id][1], colof[e.id][2])
            return None
        ci, cv = column_of(st[0].targets[0].slice), column_of(st[0].value)
        # the frame whose rows are stored is the line's group itself: a local derived from it by dropping rows (drop_duplicates,
        # head, a mask) stores only part of the line — and with drop_duplicates the FIRST of two objects in a slot wins, where the
        # plain loop lets the later one overwrite
        dropped = None
        if ci is not None and cv is not None and ci[0] == cv[0]:
            fr = ci[0]
            ds_ = [x.value for x in ast.walk(fn.node) if isinstance(x, ast.Assign) and len(x.targets) == 1 and isinstance(x.targets[0], ast.Name) and x.targets[0].id == fr]
            if len(ds_) == 1:
                for c_ in ast.walk(ds_[0]):
                    if isinstance(c_, ast.Call) and call_name(c_) in ("drop_duplicates", "head", "tail", "sample", "query", "dropna", "nlargest", "nsmallest"):
                        dropped = c_
        if dropped is not None:
            insts.append(R.viol(rid, "slot:store", file, st[0].lineno,
                                f"the rows stored into the line come from '{unparse(dropped)[:70]}', which drops rows of the line's group: objects "
                                f"are left out (with drop_duplicates the first of two objects of a slot is kept, the plain loop keeps the last)",
                                construct=f"rows dropped before the store: {unparse(dropped)[:80]}"))
        elif ci is not None and cv is not None and ci[0] == cv[0] and ci[1] == "num" and cv[1] == "value":
            insts.append(R.ok(rid, "slot:store", file, st[0].lineno, idiom="seq[num] = value"))
        elif ci is None or cv is None:
            insts.append(R.undec(rid, "slot:store", file, st[0].lineno, f"provenance of index / value in '{unparse(st[0])[:60]}' not resolved"))
        else:
            insts.append(R.viol(rid, "slot:store", file, st[0].lineno, "each object is stored at its own slot: seq[num] = value",
                                construct=unparse(st[0]))
                         )
    else:
        insts.append(R.undec(rid, "slot:store", file, fn.node.lineno, "store into the line payload not recognised"))
    return insts


def rule_r8(ctx) -> List[R.Inst]:
    """contradiction rule (Engler): the header writer tests a field for emptiness before emitting it (`if self.ln_end_channel:` —
    a chart read from a file without #LNOBJ has b"" there); the body writer must not use the same field unguarded as a written
    value, or a hold added to such a chart gets an EMPTY tail value: the line loses a slot, no #LNOBJ is written, the hold is gone"""
    M = ctx.M
    rid = "C05.R8"
    hdr = M.nfn(WRITE_HEADER)
    body = _write_notes_fn(ctx)
    file = M.mods[hdr.mod].rel
    insts = []
    guarded = {}
    for n in walk_no_nested(hdr.node):
        if isinstance(n, ast.If):
            t = n.test
            f = C.self_attr(t) if isinstance(t, ast.Attribute) else None
            if f and any(C.self_attr(x) == f for b in n.body for x in ast.walk(b)):
                guarded[f] = n
            elif isinstance(t, ast.Name):
                # the test is a local computed from the field (`x = self.f or <fallback>; if x: emit x`): still a test of the field
                ds = [x.value for x in walk_no_nested(hdr.node) if isinstance(x, ast.Assign) and len(x.targets) == 1 and
                      isinstance(x.targets[0], ast.Name) and x.targets[0].id == t.id]
                if len(ds) == 1 and any(isinstance(x, ast.Name) and x.id == t.id for b in n.body for x in ast.walk(b)):
                    for f2 in sorted({C.self_attr(x) for x in ast.walk(ds[0]) if C.self_attr(x)}):
                        if isinstance(ds[0], ast.BoolOp) and C.self_attr(ds[0].values[0]) == f2:
                            guarded.setdefault(f2, n)
    # where a possibly-empty value of the field comes from: a reader default that is an empty literal
    rd = M.fn(BMSMAP + "._read_file_header")
    for f, gnode in sorted(guarded.items()):
        empties = [n for n in walk_no_nested(rd.node) if isinstance(n, ast.Assign) and C.self_attr(n.targets[0]) == f and
                   isinstance(n.value, ast.Call) and call_name(n.value) == "get" and len(n.value.args) == 2 and
                   isinstance(n.value.args[1], ast.Constant) and n.value.args[1].value in (b"", "", None)]
        raw = []
        for n in ast.walk(body.node):
            if isinstance(n, ast.Attribute) and C.self_attr(n) == f and isinstance(n.ctx, ast.Load):
                raw.append(n)
        # a use is guarded when it is the left operand of `or <non-empty>` or sits under an `if self.<f>` / conditional expression on it
        def is_guarded(u):
            for p_ in ast.walk(body.node):
                if isinstance(p_, (ast.If, ast.IfExp, ast.While)) and (p_.test is u or (isinstance(p_.test, ast.UnaryOp) and p_.test.operand is u)):
                    return True          # the emptiness test itself: not a written value
                if isinstance(p_, ast.BoolOp) and isinstance(p_.op, ast.Or) and p_.values and p_.values[0] is u:
                    return True
                if isinstance(p_, (ast.If, ast.IfExp)) and C.self_attr(p_.test) == f and any(x is u for x in ast.walk(p_)) and p_.test is not u:
                    return True
            return False
        bad = [u for u in raw if not is_guarded(u)]
        key = f"empty:{f}"
        if bad and empties:
            insts.append(R.viol(rid, key, file, bad[0].lineno,
                                f"the header writer emits '{f}' only when it is non-empty ('{unparse(gnode.test)}'; the reader sets it to "
                                f"{unparse(empties[0].value.args[1])} for a file without the tag), but the body writer uses self.{f} as a written value "
                                f"without that test: a hold added to a chart read from such a file is written with an EMPTY tail value — its line "
                                f"has one slot fewer than its denominator says, no #LNOBJ is written and the hold cannot be read back",
                                construct=f"_write_notes uses self.{f} unguarded; _write_file_header guards it"))
        else:
            insts.append(R.ok(rid, key, file, gnode.lineno,
                              idiom=f"'{f}' is tested for emptiness in the header and " + ("not used raw in the body" if not bad else "cannot be empty after a read")))
    # contradiction on the sentinel: the reader's value for "tag absent" is an empty literal (b""), never None — a test `self.f is None`
    # / `is not None` can then never see the unset case, and code guarded by it treats the empty value as a real one
    for f in sorted({C.self_attr(n.targets[0]) for n in walk_no_nested(rd.node) if isinstance(n, ast.Assign) and C.self_attr(n.targets[0]) and
                     isinstance(n.value, ast.Call) and call_name(n.value) == "get" and len(n.value.args) == 2 and
                     isinstance(n.value.args[1], ast.Constant) and n.value.args[1].value in (b"", "")}):
        for q_, fq in sorted(M.funcs.items()):
            if fq.mod != hdr.mod or "_read" in fq.name or fq.name == "read":
                continue
            for n in ast.walk(fq.node):
                if isinstance(n, ast.Compare) and len(n.ops) == 1 and isinstance(n.ops[0], (ast.Is, ast.IsNot)) and C.self_attr(n.left) == f and \
                        isinstance(n.comparators[0], ast.Constant) and n.comparators[0].value is None:
                    insts.append(R.viol(rid, f"sentinel:{f}", file, n.lineno,
                                        f"'{unparse(n)}' in {fq.name}: the reader stores an EMPTY value in '{f}' for a file without the tag, never None, so "
                                        f"this test cannot tell 'not set' from 'set': the empty value is used as if it were a real one (an empty "
                                        f"#LNOBJ id: no id is declared and every hold tail is written as nothing)",
                                        construct=f"{fq.name}: {unparse(n)}"))
    if not insts:
        insts.append(R.ok(rid, "empty:none", file, hdr.node.lineno, idiom="no field is emitted under an emptiness test"))
    return insts



def rule_r10(ctx) -> List[R.Inst]:
    """disjoint value domains: in the note channels the ONLY thing that tells the end of a hold from a hit is the object id — the
    reader closes a hold on the id declared by #LNOBJ (C04.R6).  R3 shows tails carry that id M and hits / hold heads carry
    `sample_map.get(sample, default)`, i.e. a key of self.samples or the default.  So (a) the sample-id map must not hand out M and
    (b) the default must differ from M; otherwise a hit is written as 'end of hold' — one object too few, one hold too many."""
    M = ctx.M
    rid = "C05.R10"
    fn, fam, _ = families(ctx)
    file = M.mods[fn.mod].rel
    if "hold_tails" not in fam or len(fam["hold_tails"][0].elem.elts) != 3:
        return [R.undec(rid, "marker", file, fn.node.lineno, "hold-tail family not found: the marker expression is unknown")]
    top = list(fn.node.body)

    def single_def(name):
        ds = [x for x in walk_no_nested(fn.node) if isinstance(x, ast.Assign) and len(x.targets) == 1 and
              isinstance(x.targets[0], ast.Name) and x.targets[0].id == name]
        return ds[0] if len(ds) == 1 else None

    def resolve_node(e, depth=0):
        if isinstance(e, ast.Name) and depth < 4:
            d = single_def(e.id)
            if d is not None and not isinstance(d.value, (ast.DictComp, ast.ListComp)):
                return resolve_node(d.value, depth + 1)
        return e

    resolve = lambda e: _norm(unparse(resolve_node(e)))
    marker = unparse(resolve_node(fam["hold_tails"][0].elem.elts[2]))
    marker_n = _norm(marker)
    is_m = lambda e: resolve(e) == marker_n

    def raising_guards():
        """top-level `if <test>: raise` statements that precede the first family"""
        first = min(st.lineno for _, st in fam.values())
        for st in top:
            if isinstance(st, ast.If) and st.lineno < first and st.body and isinstance(st.body[-1], ast.Raise) and not st.orelse:
                yield st

    def relates(test, a_pred, b_pred, ops):
        for c in ast.walk(test):
            if isinstance(c, ast.Compare) and len(c.ops) == 1 and isinstance(c.ops[0], ops):
                l, r = c.left, c.comparators[0]
                rs = r.elts if isinstance(r, (ast.Tuple, ast.List, ast.Set)) else [r]
                if (a_pred(l) and any(b_pred(x) for x in rs)) or (b_pred(l) and any(a_pred(x) for x in rs)):
                    return True
        return False

    insts = []
    # (a) the ids the map can hand out exclude the marker
    smd = single_def("sample_map")
    key = "sample-ids-exclude-marker"
    samples_src = lambda e: "self.samples" in _norm(unparse(e)) or (isinstance(e, ast.Name) and e.id == "sample_map") or \
        (isinstance(e, ast.Call) and isinstance(e.func, ast.Attribute) and isinstance(e.func.value, ast.Name) and e.func.value.id == "sample_map")
    if smd is None or not isinstance(smd.value, ast.DictComp):
        insts.append(R.undec(rid, key, file, fn.node.lineno, "the sample -> id map is not a single dict comprehension over self.samples"))
    else:
        dc = smd.value
        g = dc.generators[0]
        idvar = dc.value.id if isinstance(dc.value, ast.Name) else None
        is_id = lambda e: isinstance(e, ast.Name) and e.id == idvar
        filt = any(relates(t.operand, is_id, is_m, (ast.Eq, ast.In)) if isinstance(t, ast.UnaryOp) and isinstance(t.op, ast.Not) and
                   isinstance(t.operand, ast.Compare) else
                   isinstance(t, ast.Compare) and relates(t, is_id, is_m, (ast.NotEq, ast.NotIn)) for t in g.ifs)
        guard = next((st for st in raising_guards() if relates(st.test, is_m, samples_src, (ast.In, ast.Eq))), None)
        if filt:
            insts.append(R.ok(rid, key, file, smd.lineno, idiom=f"the id map skips the #LNOBJ id: {unparse(g.ifs[0])}"))
        elif guard is not None:
            insts.append(R.ok(rid, key, file, guard.lineno, idiom=f"refused before writing: {unparse(guard.test)}"))
        else:
            insts.append(R.viol(rid, key, file, smd.lineno,
                                f"hits and hold heads are written with an id of self.samples ({unparse(dc)}), hold tails with "
                                f"{marker}; nothing keeps the two apart: when a sample's id IS the #LNOBJ id (the default ZZ is the last "
                                f"#WAV id) every hit with that sample is written as the end of a hold and read back as one",
                                construct="sample_map can hand out the #LNOBJ id"))
    # (b) the default id of a sample-less object differs from the marker
    key = "default-id-differs-from-marker"
    defaults = []
    for name in ("hits", "hold_heads"):
        if name in fam and len(fam[name][0].elem.elts) == 3:
            v = fam[name][0].elem.elts[2]
            if isinstance(v, ast.Call) and call_name(v) == "get" and len(v.args) == 2:
                defaults.append(v.args[1])
    if not defaults:
        insts.append(R.ok(rid, key, file, fn.node.lineno, idiom="no default id: an unknown sample is an error, not an object with a made-up id"))
    else:
        dtxt = {resolve(d) for d in defaults}
        is_d = lambda e: resolve(e) in dtxt
        guard = next((st for st in raising_guards() if relates(st.test, is_m, is_d, (ast.Eq, ast.In))), None)
        if guard is not None:
            insts.append(R.ok(rid, key, file, guard.lineno, idiom=f"refused before writing: {unparse(guard.test)}"))
        else:
            insts.append(R.viol(rid, key, file, defaults[0].lineno,
                                f"an object without a known sample is written with the id {sorted(dtxt)}; nothing compares it with the "
                                f"#LNOBJ id ({marker}): a chart whose #LNOBJ is that id (it is read from the file) has all its sample-less "
                                f"hits written as ends of holds",
                                construct="default object id may equal the #LNOBJ id"))
    return insts


def rule_r9(ctx) -> List[R.Inst]:
    """bounded write: a value formatted into a FIXED-WIDTH field of a line ('#' + measure as three digits — the reader slices
    characters 1..3) must be bounded before it is written; `:03` pads short values and does not cut long ones, so an object beyond
    measure 999 silently yields '#1000cc:…', which a reader parses as measure 100 and a channel starting with '0'"""
    M = ctx.M
    rid = "C05.R9"
    fn = _write_notes_fn(ctx)
    file = M.mods[fn.mod].rel
    insts = []
    fields = []
    for n in ast.walk(fn.node):
        if isinstance(n, ast.FormattedValue) and n.format_spec is not None:
            spec = "".join(str(v.value) for v in n.format_spec.values if isinstance(v, ast.Constant))
            import re as _re
            m_ = _re.fullmatch(r"0?(\d+)d?", spec)
            if m_ and int(m_.group(1)) > 0 and "." not in spec:
                fields.append((n, int(m_.group(1))))
        if isinstance(n, ast.BinOp) and isinstance(n.op, ast.Mod) and isinstance(n.left, ast.Constant) and isinstance(n.left.value, (bytes, str)):
            import re as _re
            t_ = n.left.value.decode("ascii", "replace") if isinstance(n.left.value, bytes) else n.left.value
            m_ = _re.search(r"%0?(\d+)d", t_)
            if m_ and not isinstance(n.right, ast.Tuple):
                fields.append((n.right, int(m_.group(1))))
    if not fields:
        return [R.undec(rid, "fixed-width", file, fn.node.lineno, "no fixed-width integer field found in the line writer")]
    for node, w in fields:
        v = node.value if isinstance(node, ast.FormattedValue) else node
        names = sorted({x.id for x in ast.walk(v) if isinstance(x, ast.Name)} - {"int", "str", "round"})
        what = names[0] if names else unparse(v)
        limit = 10 ** w
        # a bound: a comparison (in an if / assert / raise guard) of something named like the value with a constant >= 10**w - 1
        guards = []
        loose = []
        for g in ast.walk(fn.node):
            if isinstance(g, ast.Compare) and len(g.ops) == 1 and what in unparse(g):
                l_, r_, op_ = g.left, g.comparators[0], type(g.ops[0])
                if isinstance(l_, ast.Constant) and not isinstance(r_, ast.Constant):      # const OP value  ->  value OP' const
                    l_, r_, op_ = r_, l_, {ast.Lt: ast.Gt, ast.LtE: ast.GtE, ast.Gt: ast.Lt, ast.GtE: ast.LtE}.get(op_, op_)
                if isinstance(r_, ast.Constant) and isinstance(r_.value, (int, float)) and not isinstance(r_.value, bool):
                    c_ = r_.value
                    # the test separates "fits" from "does not fit" at the right place: value > c / value <= c with c <= limit - 1,
                    # value >= c / value < c with c <= limit (a stricter bound still keeps every written value inside the field)
                    if (op_ in (ast.Gt, ast.LtE) and 0 < c_ <= limit - 1) or (op_ in (ast.GtE, ast.Lt) and 0 < c_ <= limit):
                        guards.append(g)
                    elif limit - 1 <= c_ <= limit * 10:
                        loose.append(g)
        key = f"fixed-width:{what}"
        if guards:
            insts.append(R.ok(rid, key, file, guards[0].lineno, idiom=f"'{what}' is compared with {limit - 1}/{limit} before it is written into {w} digits"))
        elif loose:
            insts.append(R.viol(rid, key, file, loose[0].lineno,
                                f"the bound '{unparse(loose[0])}' lets {limit} through: a {w}-digit field holds at most {limit - 1}, so '{what}' = "
                                f"{limit} is written as '#{limit}…' and every reader, which slices the fixed positions, takes the wrong measure "
                                f"and channel", construct=f"{w}-digit field of {what} bounded one too high: {unparse(loose[0])}"))
        else:
            insts.append(R.viol(rid, key, file, getattr(node, "lineno", fn.node.lineno),
                                f"'{what}' is written into a {w}-digit field without a bound: a value of {limit} or more widens the field "
                                f"('#{limit}16:…' for measure {limit}) and every reader, which slices the fixed positions, takes the wrong "
                                f"measure and channel — the line is syntactically invalid and nothing is reported",
                                construct=f"{w}-digit field of {what} unbounded"))
    return insts



def rule_r7(ctx) -> List[R.Inst]:
    from .common import forwarding_insts
    return forwarding_insts(ctx, "C05.R7", BMSMAP + ".write_file", ("write",)) + \
        forwarding_insts(ctx, "C05.R7", BMSMAP + ".write", ("_write_notes",))


def guarded_conversions(fn_node):
    """`conv(B) if not isinstance(A, T) else C` (either polarity) and `if not isinstance(A, T): B' = conv(B)`: the value tested, the
    value converted and the value passed through must be ONE value — (node, A, B, C) per site, texts."""
    out = []

    def conv_arg(e):
        if isinstance(e, ast.Call) and call_name(e) in ("encode", "decode", "bytes", "str") and (e.args or isinstance(e.func, ast.Attribute)):
            if isinstance(e.func, ast.Attribute) and e.func.attr in ("encode", "decode") and not (isinstance(e.func.value, ast.Name) and e.func.value.id == "codecs"):
                return e.func.value
            return e.args[0] if e.args else None
        return None

    def isinst(t):
        neg = False
        if isinstance(t, ast.UnaryOp) and isinstance(t.op, ast.Not):
            t, neg = t.operand, True
        if isinstance(t, ast.Call) and isinstance(t.func, ast.Name) and t.func.id == "isinstance" and len(t.args) == 2 and \
                unparse(t.args[1]) in ("bytes", "str", "(bytes, bytearray)", "bytearray"):
            return t.args[0], neg
        return None, neg
    for n in ast.walk(fn_node):
        if isinstance(n, ast.IfExp):
            a, _neg = isinst(n.test)
            if a is None:
                continue
            for conv, plain in ((n.body, n.orelse), (n.orelse, n.body)):
                b = conv_arg(conv)
                if b is not None and conv_arg(plain) is None:
                    out.append((n, unparse(a), unparse(b), unparse(plain)))
                    break
        elif isinstance(n, ast.If) and not n.orelse and len(n.body) == 1 and isinstance(n.body[0], ast.Assign) and len(n.body[0].targets) == 1:
            a, _neg = isinst(n.test)
            b = conv_arg(n.body[0].value)
            if a is not None and b is not None:
                out.append((n, unparse(a), unparse(b), unparse(n.body[0].targets[0])))
    return out


def rule_r11(ctx) -> List[R.Inst]:
    """stated belief: 'encode X unless X is already bytes' tests, converts and passes through the SAME value — a guard on one name
    around a conversion of another (`v = encode(v) if not isinstance(k, bytes) else v`) makes the test meaningless: the value is
    converted when it must not be, or not converted when it must (a str reaches a bytes concatenation: TypeError, nothing written)"""
    M = ctx.M
    rid = "C05.R11"
    insts = []
    mod = M.mods[M.cls(BMSMAP).mod]
    for q, f in sorted(M.funcs.items()):
        if f.mod != mod.name:
            continue
        seen_k = {}
        for n, a, b, c in sorted(guarded_conversions(f.node), key=lambda t: (t[0].lineno, t[0].col_offset)):
            seen_k[b] = seen_k.get(b, 0) + 1
            key = f"guarded-conversion:{f.name}:{b}" + (f"#{seen_k[b]}" if seen_k[b] > 1 else "")
            if a == b == c:
                insts.append(R.ok(rid, key, mod.rel, n.lineno, idiom=f"tests, converts and passes through '{a}'"))
            else:
                insts.append(R.viol(rid, key, mod.rel, n.lineno,
                                    f"the guard tests '{a}' but the conversion is applied to '{b}' and '{c}' is passed through otherwise: "
                                    f"whether '{b}' is converted does not depend on what '{b}' is (a str value reaches a bytes line: "
                                    f"TypeError, the chart is not written; or bytes are encoded again)",
                                    construct=f"{f.name}: isinstance({a}) / convert({b}) / else {c}"))
    return insts


def rule_dep(ctx):
    """obligations inherited from shared code reached through the call graph (sa/props/deps.py)"""
    from .deps import dep_insts
    return dep_insts(ctx, "C05", ["reamber.bms.BMSMap.BMSMap.write"], skip_groups=())


def rule_r12(ctx, rid: str = "C05.R12") -> List[R.Inst]:
    """measure-length channel (02): the writer emits metronome / K, the reader takes value * K, with one and the same K — the two are
    inverse only then (every bundled chart is in 4/4, where K / K and K * K / K cannot be told apart from their inverses)"""
    M = ctx.M
    wfn = _write_notes_fn(ctx)
    wfile = M.mods[wfn.mod].rel
    rfn = M.fn(f"{BMSMAP}._read_notes")
    insts = []
    # writer: the value of the TIME_SIG rows
    wexpr = None
    for n in ast.walk(wfn.node):
        if isinstance(n, ast.Tuple) and len(n.elts) == 3 and "TIME_SIG" in unparse(n.elts[1]):
            v = n.elts[2]
            for x in ast.walk(v):
                if isinstance(x, ast.FormattedValue):
                    wexpr = x.value
            if wexpr is None and isinstance(v, ast.Call) and v.args:
                wexpr = v.args[0]
    # reader: metronome = <value> * K under the TIME_SIG channel test
    rexpr = None
    for n in ast.walk(rfn.node):
        if isinstance(n, ast.If) and "TIME_SIG" in unparse(n.test):
            for b_ in n.body:
                for st in ast.walk(b_):
                    if rexpr is None and isinstance(st, ast.Assign) and len(st.targets) == 1 and isinstance(st.targets[0], ast.Name) and \
                            "metronome" in st.targets[0].id:
                        rexpr = st.value
            break
    if wexpr is None or rexpr is None:
        return [R.undec(rid, "measure-length", wfile, wfn.node.lineno, f"measure-length value not found in the {'writer' if wexpr is None else 'reader'}")]

    def wleaf(x):
        t = unparse(x)
        return "MET" if t.endswith(".metronome") else ("K" if t == "DEFAULT_METRONOME" else None)

    def rleaf(x):
        t = unparse(x)
        return "VAL" if isinstance(x, ast.Name) and t not in ("DEFAULT_METRONOME", "float", "int") else ("K" if t == "DEFAULT_METRONOME" else None)
    try:
        w = sym.canon(wexpr, wleaf)
        r = sym.canon(rexpr, rleaf)
    except Exception as e:
        return [R.undec(rid, "measure-length", wfile, wexpr.lineno, f"measure-length arithmetic not modelled: {e}")]
    if w.same(sym.parse("MET / K")) and r.same(sym.parse("VAL * K")):
        insts.append(R.ok(rid, "measure-length", wfile, wexpr.lineno, idiom="written metronome / K, read value * K (same K): mutually inverse"))
    elif w.symbols() <= {"MET", "K"} and r.symbols() <= {"VAL", "K"}:
        insts.append(R.viol(rid, "measure-length", wfile, wexpr.lineno,
                            f"channel 02 is written as '{unparse(wexpr)}' and read as '{unparse(rexpr)}': the two are not inverse (a measure of "
                            f"length 1 is metronome K; a 3/4 measure must be written 0.75) — in 4/4 both give 1, any other metre is written "
                            f"with the wrong measure length and every later object moves", construct=f"time signature: {unparse(wexpr)} vs {unparse(rexpr)}"))
    else:
        insts.append(R.undec(rid, "measure-length", wfile, wexpr.lineno, f"measure-length arithmetic over other quantities: {unparse(wexpr)} / {unparse(rexpr)}"))
    return insts


SPECS = [
    RuleSpec("C05.R1", rule_r1, 3, "A1", "tempo ids: header #BPMxx and channel-08 objects number the same list identically (base 36, 2 chars)"),
    RuleSpec("C05.R2", rule_r2, 1, "A7", "column->channel map is the inversion of the caller's layout"),
    RuleSpec("C05.R3", rule_r3, 10, "A5", "hits / hold heads / hold tails: position, lane and value come from the same row; tail = #LNOBJ id"),
    RuleSpec("C05.R4", rule_r4, 6, "A2", "all five object families are written once; row layout = (snap, channel, value)"),
    RuleSpec("C05.R5", rule_r5, 9, "A9", "line shapes: '#mmmcc:' note lines, 00 empty slots, '#KEY value' header lines"),
    RuleSpec("C05.R7", rule_r7, 2, "A8", "write_file / write forward the channel layout and sample default they accept"),
    RuleSpec("C05.R8", rule_r8, 1, "A8", "contradiction: a field the header emits only when non-empty is not used unguarded as a written value in the body"),
    RuleSpec("C05.R9", rule_r9, 1, "A9", "bounded write: a value formatted into a fixed-width field of a line is bounded first"),
    RuleSpec("C05.R10", rule_r10, 2, "A5", "disjoint value domains: no hit or hold head can be written with the #LNOBJ id that marks the end of a hold"),
    RuleSpec("C05.R11", rule_r11, 4, "A8", "guarded conversions: 'encode unless already bytes' tests, converts and passes through one and the same value"),
    RuleSpec("C05.R6", rule_r6, 6, "A7", "writer timing map from every tempo point; slot = numerator * slots / (denominator * beats-per-measure)"),
    RuleSpec("C05.R12", rule_r12, 1, "A1", "measure-length channel: written metronome / K, read value * K with the same K"),
    RuleSpec("C05.D", rule_dep, 1, "M0", "rules of the shared code (timing engine, list classes, stacker) that the operations of this property reach"),
]

META = dict(
    explanation=(
        "BMS writer: the k-th tempo point gets the same two-character base-36 id in the #BPMxx header and on channel "
        "08, both enumerations run over the chart's tempo list in row order and carry that point's bpm and offset; the "
        "column->channel map is the inversion of the layout (injective by C04.R1); an element-wise provenance analysis "
        "shows that for hits, hold heads and hold tails the position, lane and value of each written object come from "
        "the same row (tails at tail_offset carrying the id declared by #LNOBJ); all five object families are "
        "concatenated exactly once into a table whose column names match the tuple positions; note lines have the "
        "shape '#' + 3-digit measure + channel + ':' + 2-character slots the reader slices, header lines '#KEY value'; "
        "the writer's timing map is built from every tempo point and the slot formula has the format's shape. Stated-belief rule "
        "(R11): every 'encode unless already bytes' in the BMS module tests, converts and passes through one and the same value. The measure-length channel (02) is written as metronome / K and read back as value * K with the same K (R12)."),
    not_decided="find_lcm, the 1/192 snapping bound, base-36 text of ids beyond the shape, '.3f' tempo text, collisions in one slot (outside the domain)",
)
