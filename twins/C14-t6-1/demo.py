"""Demo for refactoring 1: TimedList.after/before and HoldList.after/before/between.

Runs the trimming queries of every list type of every game over generated lists
(empty, single, ties, unsorted, negative/zero, NaN, int offsets, odd row labels,
negative/zero/NaN lengths), with every flag combination, on boundary thresholds,
singly and chained, and hashes
  - every result (values, dtypes, column order, row labels, class),
  - every raised exception type and every warning,
  - the input list after the call and after the result was changed.
Prints one line: DIGEST <sha256>.
"""
import hashlib
import itertools
import random
import warnings

import numpy as np
import pandas as pd

from reamber.base.lists import TimedList, BpmList
from reamber.base.lists.notes import HitList, HoldList
from reamber.bms.lists import BMSBpmList
from reamber.bms.lists.notes import BMSHitList, BMSHoldList
from reamber.o2jam.lists import O2JBpmList
from reamber.o2jam.lists.notes import O2JHitList, O2JHoldList
from reamber.osu.lists import OsuBpmList, OsuSvList, OsuSampleList
from reamber.osu.lists.notes import OsuHitList, OsuHoldList
from reamber.quaver.lists import QuaBpmList, QuaSvList
from reamber.quaver.lists.notes import QuaHitList, QuaHoldList
from reamber.sm.lists import SMBpmList, SMStopList
from reamber.sm.lists.notes import (
    SMHitList,
    SMHoldList,
    SMRollList,
    SMMineList,
    SMLiftList,
)

random.seed(1401)
np.random.seed(1401)

H = hashlib.sha256()
N_RECORDS = 0


def emit(*parts):
    global N_RECORDS
    N_RECORDS += 1
    H.update(("|".join(str(p) for p in parts) + "\n").encode("utf8"))


def dump_df(df: pd.DataFrame) -> str:
    return repr(
        (
            list(map(str, df.columns)),
            [str(t) for t in df.dtypes],
            str(df.index.dtype),
            [repr(i) for i in df.index.tolist()],
            [[repr(v) for v in row] for row in df.itertuples(index=False, name=None)],
        )
    )


def dump_tl(tl) -> str:
    return type(tl).__name__ + ":" + dump_df(tl.df)


PLAIN = [
    TimedList, BpmList, HitList,
    OsuHitList, OsuBpmList, OsuSvList, OsuSampleList,
    QuaHitList, QuaBpmList, QuaSvList,
    SMHitList, SMMineList, SMLiftList, SMBpmList, SMStopList,
    BMSHitList, BMSBpmList,
    O2JHitList, O2JBpmList,
]  # fmt: skip
HOLDS = [
    HoldList, OsuHoldList, QuaHoldList, SMHoldList, SMRollList,
    BMSHoldList, O2JHoldList,
]  # fmt: skip


def gen_offsets(kind: str):
    if kind == "empty":
        return np.array([], dtype=float)
    if kind == "single":
        return np.array([random.choice([-50.0, 0.0, 1234.5])])
    if kind == "sorted":
        return np.cumsum(np.random.randint(1, 400, random.randint(2, 9))).astype(float)
    if kind == "unsorted":
        a = np.random.uniform(-2000, 8000, random.randint(3, 10)).round(2)
        return a
    if kind == "ties":
        base = np.random.choice([0.0, 100.0, 100.0, 250.0, -100.0], random.randint(4, 10))
        return base
    if kind == "nan":
        a = np.random.uniform(-500, 500, random.randint(3, 7)).round(1)
        a[random.randrange(len(a))] = np.nan
        return a
    if kind == "int":
        return np.random.randint(-300, 3000, random.randint(2, 8))
    if kind == "inf":
        a = np.random.uniform(0, 500, random.randint(3, 6)).round(1)
        a[0] = np.inf
        a[-1] = -np.inf
        return a
    raise AssertionError(kind)


OFFSET_KINDS = ["empty", "single", "sorted", "unsorted", "ties", "nan", "int", "inf"]


def gen_lengths(n: int, kind: str):
    if kind == "pos":
        return np.random.uniform(1, 900, n).round(1)
    if kind == "zero":
        return np.random.choice([0.0, 0.0, 120.0], n)
    if kind == "neg":
        return np.random.choice([-200.0, -1.0, 0.0, 50.0, 400.0], n)
    if kind == "nan":
        a = np.random.uniform(1, 500, n).round(1)
        if n:
            a[random.randrange(n)] = np.nan
        return a
    if kind == "int":
        return np.random.randint(0, 600, n)
    raise AssertionError(kind)


LENGTH_KINDS = ["pos", "zero", "neg", "nan", "int"]


def relabel(df: pd.DataFrame, kind: str) -> pd.DataFrame:
    n = len(df)
    if kind == "range":
        return df
    if kind == "shuffled":
        labels = list(range(10, 10 + n))
        random.shuffle(labels)
        df.index = labels
    elif kind == "dupes":
        df.index = [random.choice([0, 1, 2]) for _ in range(n)]
    elif kind == "str":
        df.index = [f"r{random.randrange(100)}_{i}" for i in range(n)]
    return df


LABEL_KINDS = ["range", "shuffled", "dupes", "str"]


def make_list(cls, okind, lkind=None, label="range"):
    offsets = gen_offsets(okind)
    tl = cls.empty(len(offsets))
    tl.offset = offsets
    if "column" in tl.df.columns:
        tl.column = np.random.randint(0, random.choice([1, 4, 7, 10]), len(offsets))
    if lkind is not None:
        tl.length = gen_lengths(len(offsets), lkind)
    tl.df = relabel(tl.df, label)
    return tl


def thresholds(tl, with_tail: bool):
    vals = [v for v in tl.offset.tolist() if v == v and abs(v) != np.inf]
    if with_tail:
        vals += [v for v in (tl.offset + tl.length).tolist() if v == v and abs(v) != np.inf]
    out = [0, -1.5, np.nan, np.inf, -np.inf, np.float64(100.0), np.int64(250)]
    if vals:
        lo, hi = min(vals), max(vals)
        out += [lo, hi, lo - 1, hi + 1, (lo + hi) / 2]
        out += random.sample(vals, min(3, len(vals)))
    return out


def some(ts, k):
    """The two data-dependent extremes plus a random sample of the rest."""
    return random.sample(ts, min(k, len(ts)))


def run(label, tl, fn):
    """Runs fn(tl), records result / exception / warnings / input-after."""
    before = dump_tl(tl)
    with warnings.catch_warnings(record=True) as ws:
        warnings.simplefilter("always")
        try:
            res = fn(tl)
            exc = None
        except Exception as e:  # noqa
            res = None
            exc = type(e).__name__
    warns = sorted((w.category.__name__, str(w.message)) for w in ws)
    after = dump_tl(tl)
    emit(label, "EXC", exc, "WARN", warns)
    emit(label, "INPUT_SAME", before == after, after)
    if res is not None:
        emit(label, "RES", dump_tl(res), "IS_INPUT", res is tl, res.df is tl.df)
        # change the result; the input must not move
        with warnings.catch_warnings(record=True) as ws:
            warnings.simplefilter("always")
            try:
                res.offset = res.offset + 12345.0
                if len(res.df):
                    res.df.iloc[0, 0] = -999.0
                if "length" in res.df.columns:
                    res.length *= 2
            except Exception as e:  # noqa
                emit(label, "MUT_EXC", type(e).__name__)
        emit(label, "MUT_WARN", sorted(w.category.__name__ for w in ws))
        emit(label, "INPUT_AFTER_RESULT_CHANGE", dump_tl(tl) == before)
    return res


FLAGS = [False, True, 0, 1, None]
BAD_OFFSETS = [None, "abc", [1, 2], (3,), {}]


def exercise_plain(cls):
    for okind in OFFSET_KINDS:
        for label in random.sample(LABEL_KINDS, 1):
            tl = make_list(cls, okind, label=label)
            tag = f"{cls.__name__}/{okind}/{label}"
            for t in some(thresholds(tl, False), 6):
                for ie in FLAGS:
                    run(f"{tag}/after({t!r},{ie!r})", tl, lambda x: x.after(t, ie))
                    run(f"{tag}/before({t!r},{ie!r})", tl, lambda x: x.before(t, ie))
            ts = thresholds(tl, False)
            for _ in range(5):
                lo, hi = random.choice(ts), random.choice(ts)
                ends = random.choice(
                    [(True, False), (False, True), (True, True), (False, False), True, False]
                )
                run(f"{tag}/between({lo!r},{hi!r},{ends!r})", tl,
                    lambda x: x.between(lo, hi, ends))
            run(f"{tag}/after()", tl, lambda x: x.after(ts[0]))
            run(f"{tag}/before()", tl, lambda x: x.before(ts[-1]))
            for bad in BAD_OFFSETS:
                run(f"{tag}/after(bad {bad!r})", tl, lambda x: x.after(bad, True))
                run(f"{tag}/before(bad {bad!r})", tl, lambda x: x.before(bad))
            run(f"{tag}/after(arrflag)", tl, lambda x: x.after(0, np.array([True, False])))
            run(f"{tag}/before(arrflag)", tl, lambda x: x.before(0, np.array([True, False])))
            # chained
            run(f"{tag}/chain", tl,
                lambda x: x.after(ts[-1], True).before(ts[0], True).sorted().after(ts[2]))
            run(f"{tag}/chain2", tl,
                lambda x: x.sorted(True).before(ts[1], False).after(ts[-2], True)
                .append(x).between(ts[0], ts[1], True))


def exercise_hold(cls):
    for okind in OFFSET_KINDS:
        for lkind in LENGTH_KINDS:
            label = random.choice(LABEL_KINDS)
            tl = make_list(cls, okind, lkind, label)
            tag = f"{cls.__name__}/{okind}/{lkind}/{label}"
            ts = thresholds(tl, True)
            for t in some(ts, 4):
                for ie, it in itertools.product([False, True], [False, True, None]):
                    run(f"{tag}/after({t!r},{ie!r},tail={it!r})", tl,
                        lambda x: x.after(t, ie, it))
                    run(f"{tag}/before({t!r},{ie!r},head={it!r})", tl,
                        lambda x: x.before(t, ie, it))
                run(f"{tag}/after({t!r})", tl, lambda x: x.after(t))
                run(f"{tag}/before({t!r})", tl, lambda x: x.before(t))
                run(f"{tag}/after({t!r},kw)", tl,
                    lambda x: x.after(t, include_tail=True))
                run(f"{tag}/before({t!r},kw)", tl,
                    lambda x: x.before(t, include_head=False))
            for _ in range(5):
                lo, hi = random.choice(ts), random.choice(ts)
                ends = random.choice(
                    [(True, False), (False, True), (True, True), (False, False), True, False]
                )
                ih, it = random.choice([True, False]), random.choice([True, False])
                run(f"{tag}/between({lo!r},{hi!r},{ends!r},{ih},{it})", tl,
                    lambda x: x.between(lo, hi, ends, include_head=ih, include_tail=it))
            run(f"{tag}/between(default)", tl, lambda x: x.between(ts[0], ts[1]))
            for bad in BAD_OFFSETS[:3]:
                run(f"{tag}/after(bad {bad!r})", tl, lambda x: x.after(bad, True, True))
                run(f"{tag}/before(bad {bad!r})", tl, lambda x: x.before(bad, False, False))
            run(f"{tag}/after(arrflag)", tl,
                lambda x: x.after(0, np.array([True, False]), True))
            run(f"{tag}/before(arrflag)", tl,
                lambda x: x.before(0, np.array([True, False]), False))
            run(f"{tag}/chain", tl,
                lambda x: x.after(ts[2], True, True).before(ts[1], True, False)
                .sorted().after(ts[0], False, False))
            run(f"{tag}/chain2", tl,
                lambda x: x.before(ts[1], include_head=False).append(x, sort=True)
                .between(ts[0], ts[1], (False, True), include_tail=True))
        # a hold list that lost its length column / has object lengths
        tl = make_list(cls, okind, "pos")
        tl.df = tl.df.drop(columns="length")
        run(f"{cls.__name__}/{okind}/nolength/after", tl, lambda x: x.after(0, True, True))
        run(f"{cls.__name__}/{okind}/nolength/before", tl, lambda x: x.before(0, True, False))
        tl = make_list(cls, okind, "pos")
        tl.df["length"] = tl.df["length"].astype(object)
        run(f"{cls.__name__}/{okind}/objlength/after", tl, lambda x: x.after(10, False, True))
        run(f"{cls.__name__}/{okind}/objlength/before", tl, lambda x: x.before(10, True, False))


for c in PLAIN:
    exercise_plain(c)
for c in HOLDS:
    exercise_hold(c)

emit("records", N_RECORDS)
print("DIGEST", H.hexdigest())
