"""Demo for change 3: TimedList.__init__ and TimedList.from_dict (lists from items / dicts).

Prints one line ``DIGEST <sha256>`` over a canonical dump of every result.
"""
import hashlib
import importlib
import random
import warnings

import numpy as np
import pandas as pd

for _m in ("reamber.base", "reamber.base.lists", "reamber.osu", "reamber.sm",
           "reamber.bms", "reamber.o2jam", "reamber.quaver",
           "reamber.osu.lists", "reamber.sm.lists", "reamber.bms.lists",
           "reamber.o2jam.lists", "reamber.quaver.lists",
           "reamber.sm.lists.notes", "reamber.osu.lists.notes",
           "reamber.bms.lists.notes", "reamber.o2jam.lists.notes",
           "reamber.quaver.lists.notes"):
    importlib.import_module(_m)

from reamber.base.Series import Series
from reamber.base.lists.TimedList import TimedList

random.seed(160003)
OUT = []


def emit(*parts):
    OUT.append(" | ".join(str(p) for p in parts))


def all_list_classes():
    seen, stack = {}, [TimedList]
    while stack:
        c = stack.pop()
        for s in c.__subclasses__():
            key = f"{s.__module__}.{s.__qualname__}"
            if key not in seen:
                seen[key] = s
                stack.append(s)
    seen["reamber.base.lists.TimedList.TimedList"] = TimedList
    return [seen[k] for k in sorted(seen)]


def cell(v):
    if isinstance(v, (float, np.floating)):
        return f"f:{float(v)!r}"
    if isinstance(v, (bool, np.bool_)):
        return f"b:{bool(v)!r}"
    if isinstance(v, (int, np.integer)):
        return f"i:{int(v)!r}"
    return f"{type(v).__name__}:{v!r}"


def dump_df(df):
    if not isinstance(df, pd.DataFrame):
        return f"<not a frame {type(df).__name__}>"
    cols = [repr(c) for c in df.columns]
    dt = [str(t) for t in df.dtypes]
    idx = f"{type(df.index).__name__}{[cell(i) for i in df.index]}"
    rows = [[cell(v) for v in df[c].tolist()] for c in df.columns] if len(cols) == len(set(cols)) \
        else [[cell(v) for v in r] for r in df.to_numpy().tolist()]
    return f"cols={cols} dtypes={dt} index={idx} data={rows}"


def dump(o):
    if isinstance(o, TimedList):
        try:
            d = o.df
        except AttributeError:
            return f"{type(o).__name__}<no df>"
        return f"{type(o).__name__}({dump_df(d)})"
    if isinstance(o, Series):
        s = o.data
        return (f"{type(o).__name__}(dtype={s.dtype} index={[repr(i) for i in s.index]} "
                f"vals={[cell(v) for v in s.tolist()]})")
    if isinstance(o, pd.DataFrame):
        return f"DF({dump_df(o)})"
    if isinstance(o, pd.Series):
        return (f"PS(name={o.name!r} dtype={o.dtype} index={[cell(i) for i in o.index]} "
                f"vals={[cell(v) for v in o.tolist()]})")
    if isinstance(o, np.ndarray):
        return f"ND(dtype={o.dtype} {[cell(v) for v in o.tolist()]})"
    if isinstance(o, tuple):
        return "(" + ", ".join(dump(x) for x in o) + ")"
    return cell(o)


def run(label, fn):
    with warnings.catch_warnings(record=True) as w:
        warnings.simplefilter("always")
        try:
            res = dump(fn())
        except Exception as e:  # noqa
            res = f"EXC {type(e).__name__}"
    ws = sorted(f"{x.category.__name__}:{x.message}" for x in w
                if issubclass(x.category, UserWarning))
    emit(label, res, f"warn={ws}")


OFFSETS = [-1000.0, -0.5, 0.0, 0.0, 0.25, 1.0, 1.0, 1.0, 2.5, 100.0, 1e6, 333.3333]


def make_list(cls, n):
    """n rows of defaults with random offsets/columns/lengths (dupes, negatives, fractions)"""
    tl = cls.empty(n)
    df = tl.df.copy()
    if n:
        df["offset"] = [random.choice(OFFSETS) for _ in range(n)]
        if "column" in df.columns:
            df["column"] = [random.randrange(0, 10) for _ in range(n)]
        if "length" in df.columns:
            df["length"] = [random.choice([0.0, 0.5, 1.0, 50.0, 1000.0]) for _ in range(n)]
        if "bpm" in df.columns:
            df["bpm"] = [random.choice([60.0, 120.0, 0.5, 333.0]) for _ in range(n)]
    return cls(df)


def pre_ops(tl, k):
    """leave the list in a non-initial state (labels no longer 0..n-1 in order)"""
    if k == 0:
        return tl
    if k == 1:
        return tl.sorted()
    if k == 2:
        return tl.sorted(reverse=True)
    if k == 3:
        return tl.after(0.0, include_end=True)
    return tl[::2]



from reamber.base.Timed import Timed

CLASSES = all_list_classes()
emit("classes", [c.__name__ for c in CLASSES])


def run_exc(label, fn):
    """like run, but also records the message of an AssertionError / ValueError"""
    try:
        res = dump(fn())
    except (AssertionError, ValueError) as e:
        res = f"EXC {type(e).__name__} {e.args!r}"
    except Exception as e:  # noqa
        res = f"EXC {type(e).__name__}"
    emit(label, res)


def after_ops(tl):
    """the built list behaves like the sequence of its rows"""
    return (tl, len(tl), tl.first_offset(), tl.last_offset(), tl.sorted(),
            tl.between(0.0, 1.0, include_ends=True), tl[1:], tl[0] if len(tl) else None,
            [type(x).__name__ for x in tl])


class Weird:
    pass


case = 0
for cls in CLASSES:
    name = cls.__name__
    try:
        src = make_list(cls, 7)
        items = [src[i] for i in range(len(src))]
    except Exception as e:  # noqa
        emit(name, "SETUP-EXC", type(e).__name__)
        src, items = None, []
    emit(name, "props", cls.props().names if hasattr(cls, "props") else None)

    # ---- __init__ ----
    run_exc(f"{name} init []", lambda: after_ops(cls([])))
    run_exc(f"{name} empty(0)", lambda: after_ops(cls.empty(0)))
    run_exc(f"{name} empty(3)", lambda: after_ops(cls.empty(3)))
    if src is not None:
        for m in (1, 2, 7):
            sub = items[:m]
            random.shuffle(sub)
            case += 1
            snap = [dump(i) for i in sub]
            run_exc(f"{name} init items {m}", lambda: after_ops(cls(sub)))
            emit(f"{name} init items {m}", "items-unchanged", snap == [dump(i) for i in sub])
        dup = [items[0], items[0], items[3], items[0]]
        run_exc(f"{name} init dup items", lambda: after_ops(cls(dup)))
        run_exc(f"{name} init single item", lambda: after_ops(cls(items[2])))
        run_exc(f"{name} init from list", lambda: after_ops(cls(src)))
        run_exc(f"{name} init from list shares frame", lambda: cls(src).df is src.df)
        run_exc(f"{name} init from frame", lambda: after_ops(cls(src.df)))
        run_exc(f"{name} init from frame shares", lambda: cls(src.df).df is src.df)
        run_exc(f"{name} init from filtered", lambda: after_ops(cls(src.sorted(reverse=True)[::2])))
        run_exc(f"{name} init base Timed items", lambda: after_ops(cls([Timed(offset=3.5), Timed(offset=-1)])))
        # wrongly typed members: message lists at most five offending types, in order
        bads = [
            [1, 2],
            [items[0], 1],
            [1, items[0]],
            [items[0], "a", 2.0, None, Weird(), (1,), [2], {3}],
            [None],
            [items[0], items[1], src],
            [src.df],
            [items[0].data],
            ["x"] * 9,
        ]
        for j, bad in enumerate(bads):
            case += 1
            before = list(bad)
            run_exc(f"{name} init bad {j}", lambda: cls(bad))
            emit(f"{name} init bad {j}", "arg-unchanged", len(before) == len(bad)
                 and all(a is b for a, b in zip(before, bad)))
    # unsupported containers: nothing is set
    for odd_name, odd in (("tuple", ()), ("tuple2", (1, 2)), ("none", None), ("int", 3),
                          ("dict", {"offset": [1.0]}), ("str", "abc"), ("gen", iter([])),
                          ("ndarray", np.array([1.0, 2.0])), ("pdseries", pd.Series([1.0]))):
        run_exc(f"{name} init odd {odd_name}", lambda: cls(odd))
        run_exc(f"{name} init odd {odd_name} has _df", lambda: hasattr(cls(odd), "_df"))

    # ---- from_dict ----
    if src is not None:
        cols = list(src.df.columns)
        records = src.df.to_dict("records")
        aslists = src.df.to_dict("list")
        run_exc(f"{name} from_dict records", lambda: after_ops(cls.from_dict(records)))
        run_exc(f"{name} from_dict lists", lambda: after_ops(cls.from_dict(aslists)))
        run_exc(f"{name} from_dict dict-of-dicts", lambda: after_ops(cls.from_dict(src.df.to_dict())))
        run_exc(f"{name} from_dict sorted dict-of-dicts",
                lambda: after_ops(cls.from_dict(src.sorted(reverse=True).df.to_dict())))
        for t in range(6):
            keep = [c for c in cols if random.random() < 0.5]
            random.shuffle(keep)
            case += 1
            sub_lists = {c: aslists[c] for c in keep}
            sub_records = [{c: r[c] for c in keep} for r in records[: random.randrange(1, 6)]]
            run_exc(f"{name} from_dict partial lists {keep}", lambda: after_ops(cls.from_dict(sub_lists)))
            run_exc(f"{name} from_dict partial records {keep}", lambda: after_ops(cls.from_dict(sub_records)))
        run_exc(f"{name} from_dict offset only", lambda: after_ops(cls.from_dict({"offset": [2.5, -1.0, 2.5]})))
        run_exc(f"{name} from_dict offset ints", lambda: after_ops(cls.from_dict({"offset": [2, -1, 2]})))
        run_exc(f"{name} from_dict no rows", lambda: after_ops(cls.from_dict({"offset": []})))
        run_exc(f"{name} from_dict ragged records",
                lambda: after_ops(cls.from_dict([{"offset": 1.0}, {cols[0]: records[0][cols[0]]}])))
        # names outside of the declared fields
        run_exc(f"{name} from_dict extra", lambda: cls.from_dict({"offset": [1.0], "bogus": [2]}))
        run_exc(f"{name} from_dict extra only", lambda: cls.from_dict({"bogus": [2]}))
        run_exc(f"{name} from_dict extra records", lambda: cls.from_dict([{"offset": 1.0, "index": 0}]))
        run_exc(f"{name} from_dict int names", lambda: cls.from_dict({0: [1.0], 1: [2.0]}))
        run_exc(f"{name} from_dict nan name", lambda: cls.from_dict({float("nan"): [1.0]}))
        run_exc(f"{name} from_dict tuple name", lambda: cls.from_dict({("offset", "x"): [1.0]}))
        run_exc(f"{name} from_dict list of lists", lambda: cls.from_dict([[1.0, 2.0]]))
    for empty_name, e in (("dict", {}), ("list", []), ("none", None), ("zero", 0), ("str", "")):
        run_exc(f"{name} from_dict empty {empty_name}", lambda: after_ops(cls.from_dict(e)))
    run_exc(f"{name} from_dict scalar", lambda: cls.from_dict({"offset": 1.0}))
    run_exc(f"{name} from_dict int", lambda: cls.from_dict(5))

emit("cases", case)
text = "\n".join(OUT)
import os
if os.environ.get("DEMO_DUMP"):
    open(os.environ["DEMO_DUMP"], "w").write(text)
print("DIGEST", hashlib.sha256(text.encode()).hexdigest())
