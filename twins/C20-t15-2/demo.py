"""Demonstration for the refactoring of PtnCombo.template_chord_stream
(property C20, k = 2).

Exercises template_chord_stream through the public API (Pattern -> group ->
PtnCombo) on many generated inputs and prints ONE line: a sha256 digest of a canonical text of all results (values,
container / array types, dtypes), exception types and the state of the inputs
afterwards.

Run as:  cd /tmp/r15/C20 && PYTHONPATH=/tmp/r15/C20 /venv/bin/python demo.py
"""
import hashlib
import os
import random
import sys

import numpy as np
import pandas as pd

import reamber
from reamber.algorithms.pattern import Pattern
from reamber.algorithms.pattern.combos import PtnCombo
from reamber.base.Hit import Hit
from reamber.base.Hold import Hold, HoldTail
from reamber.base.lists.notes.HitList import HitList
from reamber.base.lists.notes.HoldList import HoldList
from reamber.osu.OsuMap import OsuMap
from reamber.sm.SMMapSet import SMMapSet

print(reamber.__file__, file=sys.stderr)

ROOT = os.path.dirname(os.path.dirname(os.path.abspath(reamber.__file__)))
rng = random.Random(2002)
OUT = []
N_CASES = [0]


def emit(*parts):
    OUT.append(" | ".join(str(p) for p in parts))


def canon_scalar(x):
    if isinstance(x, type):
        return "T:" + x.__module__ + "." + x.__qualname__
    return type(x).__name__ + ":" + repr(x)


def canon_array(a):
    """type, dtype, shape and every element of a (structured) array"""
    head = f"{type(a).__module__}.{type(a).__name__} dtype={a.dtype!r} shape={a.shape}"
    rows = []
    for row in a.reshape(-1).tolist() if a.dtype.names else a.reshape(-1):
        if isinstance(row, tuple):
            rows.append("(" + ",".join(canon_scalar(v) for v in row) + ")")
        else:
            rows.append(canon_scalar(row))
    return head + " [" + ";".join(rows) + "]"


def canon_df(df):
    cols = ",".join(f"{c}:{df[c].dtype}" for c in df.columns)
    ix = f"{type(df.index).__name__}:{df.index.dtype}:{list(df.index)}"
    body = ";".join(
        "(" + ",".join(canon_scalar(v) for v in row) + ")"
        for row in df.itertuples(index=False, name=None)
    )
    return f"DF cols={cols} index={ix} rows=[{body}]"


def canon_result(res):
    if isinstance(res, list):
        return "list[" + " ## ".join(canon_array(a) for a in res) + "]"
    return canon_scalar(res)


def canon_groups(groups):
    return canon_result(list(groups))


def run_cs(tag, groups, args, kwargs=None):
    """One call of template_chord_stream, result + state of the inputs"""
    kwargs = kwargs or {}
    N_CASES[0] += 1
    before = canon_groups(groups)
    n_before = len(groups)
    combo = PtnCombo(groups)
    try:
        res = combo.template_chord_stream(*args, **kwargs)
        emit(tag, args, sorted(kwargs.items()), "OK", type(res).__name__,
             len(res), canon_result(res))
    except Exception as e:  # noqa
        emit(tag, args, sorted(kwargs.items()), "EXC", type(e).__name__)
    emit(tag, "groups-unchanged", combo.groups is groups, len(groups) == n_before,
         canon_groups(groups) == before)


def rand_raw(n, keys, style):
    cols = [rng.randrange(keys) for _ in range(n)]
    if style == "int_ties":
        offs = [rng.randrange(0, 8) * 50 for _ in range(n)]
    elif style == "frac":
        offs = [round(rng.uniform(-300, 300), 3) for _ in range(n)]
    elif style == "neg_int":
        offs = [rng.randrange(-500, 100) for _ in range(n)]
    elif style == "dense":
        offs = [rng.randrange(0, 40) * 12.5 for _ in range(n)]
    else:
        raise ValueError(style)
    types = [rng.choice([Hit, Hit, Hold, HoldTail]) for _ in range(n)]
    return cols, offs, types


def rand_cs_args(keys):
    return (rng.randrange(0, keys + 2), rng.randrange(0, keys + 2), keys)


def all_options(tag, groups, keys, n_rand=2):
    """Every and_lower / include_jack setting, some primary / secondary"""
    for rep in range(n_rand):
        a = rand_cs_args(keys)
        for and_lower in (False, True):
            for include_jack in (False, True):
                run_cs(f"{tag}.r{rep}.l{int(and_lower)}.j{int(include_jack)}",
                       groups, a,
                       {"and_lower": and_lower, "include_jack": include_jack})


# ---------------------------------------------------------------------------
# A. Groups of generated patterns (unsorted raw lists; key counts 1..10;
#    ties, repeated columns, negative / fractional times)
# ---------------------------------------------------------------------------
case = 0
for style in ("int_ties", "frac", "neg_int", "dense"):
    for keys in (1, 2, 4, 7, 10):
        n = rng.choice([1, 2, 6, 12, 20, 30])
        p = Pattern(*rand_raw(n, keys, style))
        g_args = (rng.choice([0, 12.5, 50, 100]), rng.choice([None, None, 1, 3]),
                  rng.choice([True, False]))
        groups = p.group(*g_args)
        emit(f"A{case}", style, keys, n, g_args, canon_groups(groups))
        all_options(f"A{case}.{style}.k{keys}", groups, keys)
        # the jump-stream / hand-stream templates of the docs
        run_cs(f"A{case}.js", groups, (2, 1, keys))
        run_cs(f"A{case}.hs", groups, (3, 2, keys), {"and_lower": True})
        # keys that do not match the pattern
        run_cs(f"A{case}.k4", groups, (2, 1, 4))
        run_cs(f"A{case}.k3j", groups, (1, 1, 3), {"include_jack": True})
        case += 1

# positional / keyword / truthy spellings of the options
p = Pattern(*rand_raw(24, 4, "int_ties"))
groups = p.group(0, None, True)
emit("A.opt", canon_groups(groups))
run_cs("A.opt.pos", groups, (2, 1, 4, True, True))
run_cs("A.opt.pos2", groups, (2, 2, 4, False, True))
run_cs("A.opt.pos3", groups, (1, 2, 4, True))
run_cs("A.opt.kw", groups, (), {"primary": 2, "secondary": 1, "keys": 4})
run_cs("A.opt.kw2", groups, (), {"keys": 4, "secondary": 2, "primary": 1,
                                  "include_jack": 1, "and_lower": 0})
run_cs("A.opt.truthy", groups, (2, 1, 4), {"and_lower": "yes", "include_jack": []})
run_cs("A.opt.truthy2", groups, (2, 1, 4), {"and_lower": None, "include_jack": "x"})
run_cs("A.opt.truthy3", groups, (2, 1, 4), {"and_lower": 2, "include_jack": 0.0})
run_cs("A.opt.truthy4", groups, (2, 1, 4), {"and_lower": 4, "include_jack": None})
run_cs("A.opt.np", groups, (np.int64(2), np.int64(1), np.int64(4)),
       {"and_lower": np.bool_(True), "include_jack": np.bool_(False)})

# unusual / invalid arguments: exception types must be the same
for tag, a, kw in (
    ("keys0", (1, 1, 0), {}),
    ("keys0j", (1, 1, 0), {"include_jack": True}),
    ("keys0l", (1, 1, 0), {"and_lower": True}),
    ("keys_neg", (1, 1, -1), {}),
    ("keys_negj", (1, 1, -1), {"include_jack": True}),
    ("keys_none", (1, 1, None), {}),
    ("keys_nonej", (1, 1, None), {"include_jack": True}),
    ("keys_str", (1, 1, "4"), {}),
    ("keys_float", (2, 1, 4.0), {}),
    ("zero", (0, 0, 4), {}),
    ("zero_l", (0, 0, 4), {"and_lower": True}),
    ("zero_one_l", (0, 1, 4), {"and_lower": True}),
    ("neg", (-1, 2, 4), {}),
    ("neg_l", (-1, 2, 4), {"and_lower": True}),
    ("big", (9, 9, 4), {"and_lower": True}),
    ("none_p", (None, 1, 4), {}),
    ("none_pl", (None, 1, 4), {"and_lower": True}),
    ("str_p", ("2", 1, 4), {}),
    ("str_pl", ("2", "1", 4), {"and_lower": True}),
    ("float_p", (2.0, 1.0, 4), {}),
    ("float_pl", (2.0, 1.0, 4), {"and_lower": True}),
    ("list_p", ([2], [1], 4), {}),
    ("missing", (2, 1), {}),
    ("extra_kw", (2, 1, 4), {"bogus": 1}),
):
    run_cs(f"A.bad.{tag}", groups, a, kw)

# ---------------------------------------------------------------------------
# B. Hand-made group lists: none, one, empty groups, plain PtnCombo()
# ---------------------------------------------------------------------------
pe = Pattern([], [], [])
run_cs("B.empty_pattern", pe.group(), (2, 1, 4))
run_cs("B.empty_pattern.lj", pe.group(), (2, 1, 4, True, True))
run_cs("B.no_groups", [], (1, 1, 4))
one = Pattern([0, 1], [0, 0], [Hit, Hit]).group()
run_cs("B.one_group", one, (2, 2, 4), {"and_lower": True})
N_CASES[0] += 1
try:
    emit("B.default_ctor", canon_result(PtnCombo().template_chord_stream(1, 1, 4)))
except Exception as e:  # noqa
    emit("B.default_ctor", "EXC", type(e).__name__)

base = Pattern([0, 1, 2, 3, 0, 2], [0, 0, 100, 100, 200, 200],
               [Hit, Hold, Hit, HoldTail, Hit, Hit]).group()
with_empty = [base[0], base[1][:0], base[2]]
all_options("B.with_empty", with_empty, 4, n_rand=1)
run_cs("B.with_empty.11", with_empty, (1, 1, 4), {"and_lower": True})
run_cs("B.with_empty.02", with_empty, (0, 2, 4))
run_cs("B.with_empty.20j", with_empty, (2, 0, 4), {"include_jack": True})
all_tails = Pattern([0, 1, 0, 1], [0, 0, 100, 100], [HoldTail] * 4).group()
all_options("B.all_tails", all_tails, 4, n_rand=1)
run_cs("B.all_tails.22", all_tails, (2, 2, 4), {"include_jack": True})
tup = tuple(base)
run_cs("B.tuple_groups", tup, (2, 2, 4), {"and_lower": True})
# plain (non-record) structured arrays as groups
plain = [np.asarray(g).view(np.ndarray) for g in base]
run_cs("B.plain_arrays", plain, (2, 2, 4), {"and_lower": True})
# a group whose columns exceed keys
wide = Pattern([0, 11, 5, 11, 5], [0, 0, 50, 50, 100], [Hit] * 5).group(0)
all_options("B.wide", wide, 4, n_rand=1)
run_cs("B.wide.k12", wide, (2, 2, 12), {"and_lower": True})

# ---------------------------------------------------------------------------
# C. Note lists: holds with tails, zero-length holds, empty lists, filtered
#    lists (non-default row labels)
# ---------------------------------------------------------------------------
for case in range(8):
    keys = rng.choice([1, 4, 5, 7, 9])
    n_hit = rng.choice([0, 1, 5, 10, 16])
    n_hold = rng.choice([0, 1, 4, 8])
    hits = HitList(
        [Hit(rng.choice([-50, 0, 12.5, 50, 100, 133.3, 200, 250]), rng.randrange(keys))
         for _ in range(n_hit)]
    )
    holds = HoldList(
        [Hold(rng.choice([-100, 0, 50, 100.5, 150]), rng.randrange(keys),
              rng.choice([0, 0, 25, 50, 100, 400.25]))
         for _ in range(n_hold)]
    )
    hb, ob = canon_df(hits.df), canon_df(holds.df)
    for tails in (True, False):
        try:
            p = Pattern.from_note_lists([hits, holds], include_tails=tails)
            groups = p.group(rng.choice([0, 10, 50]), rng.choice([None, 1]),
                             rng.choice([True, False]))
        except Exception as e:  # noqa
            emit(f"C{case}", tails, "EXC", type(e).__name__)
            continue
        emit(f"C{case}.t{int(tails)}", canon_groups(groups))
        all_options(f"C{case}.t{int(tails)}.k{keys}", groups, keys, n_rand=1)
        run_cs(f"C{case}.t{int(tails)}.11l", groups, (1, 1, keys), {"and_lower": True})
    emit(f"C{case}", "notelists-unchanged", canon_df(hits.df) == hb,
         canon_df(holds.df) == ob)

hits = HitList([Hit(o, c) for o, c in
                [(0, 0), (0, 1), (10, 2), (20, 1), (20, 3), (90, 0), (100, 1),
                 (100, 3), (150, 1), (150, 2), (200, 2)]])
holds = HoldList([Hold(o, c, l) for o, c, l in
                  [(0, 2, 0), (5, 3, 100), (50, 0, 30), (60, 2, 0), (200, 0, 50)]])
for tag, f in (
    ("col", lambda nl: nl[nl.column > 0]),
    ("off", lambda nl: nl[nl.offset >= 10]),
    ("rev", lambda nl: nl[::-1]),
    ("none", lambda nl: nl[nl.column > 99]),
):
    try:
        p = Pattern.from_note_lists([f(hits), f(holds)])
        groups = p.group(10)
    except Exception as e:  # noqa
        emit("C.filter", tag, "EXC", type(e).__name__)
        continue
    emit(f"C.filter.{tag}", canon_groups(groups))
    all_options(f"C.filter.{tag}", groups, 4, n_rand=1)
    run_cs(f"C.filter.{tag}.22l", groups, (2, 2, 4), {"and_lower": True})

# ---------------------------------------------------------------------------
# D. Real charts (osu! 4K / 7K, StepMania set with several charts)
# ---------------------------------------------------------------------------
for name, keys in (("LNDan14", 4), ("Gravity", 4), ("Stella", 7)):
    m = OsuMap.read_file(os.path.join(ROOT, "rsc", "maps", "osu", name + ".osu"))
    hits, holds = m.hits[:150], m.holds[:150]
    for tails in (True, False):
        p = Pattern.from_note_lists([hits, holds], include_tails=tails)
        groups = p.group()
        emit(f"D.osu.{name}.t{int(tails)}", len(groups))
        run_cs(f"D.osu.{name}.t{int(tails)}.js", groups, (2, 1, keys))
        run_cs(f"D.osu.{name}.t{int(tails)}.hs", groups, (3, 2, keys),
               {"and_lower": True, "include_jack": True})
        run_cs(f"D.osu.{name}.t{int(tails)}.rand", groups, rand_cs_args(keys),
               {"and_lower": rng.choice([True, False]),
                "include_jack": rng.choice([True, False])})

ms = SMMapSet.read_file(os.path.join(ROOT, "rsc", "maps", "sm", "Escapes.sm"))
for i, m in enumerate(ms.maps):
    p = Pattern.from_note_lists([m.hits[:200], m.holds[:40]])
    groups = p.group(30, None, True)
    run_cs(f"D.sm.{i}.js", groups, (2, 1, 4))
    run_cs(f"D.sm.{i}.hs", groups, (3, 2, 4), {"and_lower": True})
    run_cs(f"D.sm.{i}.jack", groups, (1, 1, 4), {"include_jack": True})
    sub = m.hits[m.hits.column != 1][:120]
    p = Pattern.from_note_lists([sub, m.holds[m.holds.length > 100][:20]])
    groups = p.group(60.5, 1, False)
    run_cs(f"D.sm.{i}.filtered", groups, (2, 2, 4),
           {"and_lower": True, "include_jack": False})

text = "\n".join(OUT)
print(f"{N_CASES[0]} cases, {len(OUT)} lines", file=sys.stderr)
if os.environ.get("DEMO_DUMP"):  # optional: keep the canonical text for diffing
    with open(os.environ["DEMO_DUMP"], "w", encoding="utf-8") as fh:
        fh.write(text)
print(hashlib.sha256(text.encode("utf-8")).hexdigest())
