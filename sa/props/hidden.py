"""Hidden state: results kept across calls on objects whose data can change under them.

Three idioms are recognised (expected count on the pinned tree: zero; `control()` keeps a positive example alive):

  memo decorator   functools.cached_property / lru_cache / cache on a method (first parameter self / cls): the key is the
                   object identity, the lists and charts of this library are edited in place, so the kept result goes stale
  getter memo      a @property getter that stores into `self.<attr>` and returns it on later calls
  class memo       a store into `cls.<attr>` / `type(self).<attr>` / `self.__class__.<attr>` whose value is computed from the
                   class, and that is read back by plain attribute lookup: subclasses inherit the value computed for the first
                   class that ran (call-order dependent)
"""
from __future__ import annotations

import ast
from typing import Iterable, List

from .. import report as R
from .common import unparse, CTL

MEMO_DECOS = ("cached_property", "lru_cache", "cache")


def _first_param(fn: ast.FunctionDef):
    a = fn.args.posonlyargs + fn.args.args
    return a[0].arg if a else None


def _is_cls_expr(e: ast.AST, first: str) -> bool:
    t = unparse(e)
    return (first == "cls" and t == "cls") or t in ("type(self)", "self.__class__")


def scan_function(q: str, fn: ast.FunctionDef, file: str, rid: str, module_containers=frozenset()) -> List[R.Inst]:
    out: List[R.Inst] = []
    first = _first_param(fn)
    short = ".".join(q.split(".")[-2:])
    decos = [unparse(d.func if isinstance(d, ast.Call) else d).split(".")[-1] for d in fn.decorator_list]
    memo = [d for d in decos if d in MEMO_DECOS]
    frame_ret = "DataFrame" in (unparse(fn.returns) if fn.returns is not None else "") or any(
        isinstance(r, ast.Return) and r.value is not None and any(t in unparse(r.value) for t in ("DataFrame", "reset_index", ".loc[", ".iloc[", "pd.concat"))
        for r in ast.walk(fn))
    if memo and first != "self" and "cached_property" not in memo:
        if frame_ret:
            out.append(R.viol(rid, f"{short}:memo-decorator", file, fn.lineno,
                              f"{short} is memoised ({memo[0]}) and returns a DataFrame: every caller with the same arguments gets the "
                              f"SAME frame object, and frames are filled and edited in place throughout this library (generated column "
                              f"setters, ConvertBase.cast), so two results silently share their data",
                              construct=f"@{memo[0]} {short} returns a shared frame"))
    elif memo and (first in ("self",) or "cached_property" in memo):
        out.append(R.viol(rid, f"{short}:memo-decorator", file, fn.lineno,
                          f"{short} is memoised per object ({memo[0]}): lists and charts are edited in place (generated column "
                          f"setters, slot assignment swaps the frame of the same list object), so a later call returns the value "
                          f"computed before the edit", construct=f"@{memo[0]} {short}"))
    # instance-dict memo: a container kept under a fixed name in `self.__dict__` / `vars(self)` that the method both fills and answers
    # from — the same hidden state as `self._cache`, spelled so that no attribute of that name is ever declared
    if first == "self":
        for n in ast.walk(fn):
            if isinstance(n, ast.Call) and isinstance(n.func, ast.Attribute) and n.func.attr in ("setdefault", "get") and \
                    unparse(n.func.value) in ("self.__dict__", "vars(self)") and n.args and isinstance(n.args[0], ast.Constant):
                returned = any(isinstance(r, ast.Return) and r.value is not None for r in ast.walk(fn))
                if returned and fn.name not in ("__init__", "__post_init__", "__getattr__", "__setstate__", "__getstate__"):
                    out.append(R.viol(rid, f"{short}:instance-dict-memo", file, n.lineno,
                                      f"{short} keeps results in the object's dict under {n.args[0].value!r} and answers later calls from it: "
                                      f"lists are edited in place (and through other stackers) between two calls, so the object handed out "
                                      f"again still holds the values of the first call — its next write puts them back",
                                      construct=f"{short}: self.__dict__[{n.args[0].value!r}] used as a cache"))
                    break
    is_getter = "property" in decos
    # method memo: the method stores self.A and, on another path, returns what it finds in self.A
    if first == "self" and not is_getter and fn.name not in ("__init__", "__post_init__", "__setattr__") and not any(d.endswith(".setter") for d in decos):
        stored = {}
        for n in ast.walk(fn):
            if isinstance(n, ast.Assign) and len(n.targets) == 1 and isinstance(n.targets[0], ast.Attribute) and \
                    isinstance(n.targets[0].value, ast.Name) and n.targets[0].value.id == "self":
                stored[n.targets[0].attr] = n
        for attr, node in stored.items():
            holders = set()
            for n in ast.walk(fn):
                if isinstance(n, ast.Assign) and len(n.targets) == 1 and isinstance(n.targets[0], ast.Name):
                    v = n.value
                    reads = any(isinstance(x, ast.Attribute) and x.attr == attr and isinstance(x.value, ast.Name) and x.value.id == "self" and
                                isinstance(x.ctx, ast.Load) for x in ast.walk(v)) or any(
                        isinstance(x, ast.Call) and isinstance(x.func, ast.Name) and x.func.id == "getattr" and len(x.args) >= 2 and
                        isinstance(x.args[1], ast.Constant) and x.args[1].value == attr for x in ast.walk(v))
                    if reads:
                        holders.add(n.targets[0].id)
            rets = [r for r in ast.walk(fn) if isinstance(r, ast.Return) and r.value is not None and r.lineno < node.lineno and (
                any(isinstance(x, ast.Name) and x.id in holders for x in ast.walk(r.value)) or
                any(isinstance(x, ast.Attribute) and x.attr == attr and isinstance(x.value, ast.Name) and x.value.id == "self"
                    for x in ast.walk(r.value)))]
            if rets:
                out.append(R.viol(rid, f"{short}:method-memo", file, node.lineno,
                                  f"{short} keeps its result in self.{attr} and returns the kept value on later calls (line {rets[0].lineno}): "
                                  f"lists and charts are edited in place (generated column setters assign into the same frame), so the kept "
                                  f"result is not invalidated by the edits it depends on", construct=f"{short}: self.{attr} memo"))
    for n in ast.walk(fn):
        if isinstance(n, (ast.Assign, ast.AugAssign, ast.AnnAssign)):
            tgts = n.targets if isinstance(n, ast.Assign) else [n.target]
            val = n.value
            for t in tgts:
                if not isinstance(t, ast.Attribute):
                    continue
                if is_getter and isinstance(t.value, ast.Name) and t.value.id == "self" and val is not None:
                    out.append(R.viol(rid, f"{short}:getter-memo", file, n.lineno,
                                      f"the getter {short} stores '{unparse(t)}' and serves it on later reads: the value is not "
                                      f"recomputed after the object's data changes in place", construct=f"{short}: {unparse(t)} = …"))
                elif first and _is_cls_expr(t.value, first) and val is not None:
                    dep = any(isinstance(x, ast.Name) and x.id in ("cls", "self") for x in ast.walk(val))
                    plain_read = any(isinstance(x, ast.Attribute) and x.attr == t.attr and isinstance(x.ctx, ast.Load) and
                                     _is_cls_expr(x.value, first) for x in ast.walk(fn))
                    if dep and plain_read:
                        out.append(R.viol(rid, f"{short}:class-memo", file, n.lineno,
                                          f"{short} keeps a value computed from the class in '{unparse(t)}' and reads it back by plain "
                                          f"attribute lookup: a subclass inherits the value computed for whichever class ran first, so "
                                          f"the result depends on the order of earlier calls", construct=f"{short}: {unparse(t)} = {unparse(val)[:60]}"))
        if isinstance(n, ast.Assign) and len(n.targets) == 1 and isinstance(n.targets[0], ast.Subscript) and \
                isinstance(n.targets[0].value, ast.Attribute) and isinstance(n.targets[0].value.value, ast.Name) and \
                n.targets[0].value.value.id == "self" and first == "self":
            attr = n.targets[0].value.attr
            looked_up = any((isinstance(x, ast.Compare) and any(isinstance(o, (ast.In, ast.NotIn)) for o in x.ops) and
                             any(unparse(c) == f"self.{attr}" for c in x.comparators)) or
                            (isinstance(x, ast.Call) and isinstance(x.func, ast.Attribute) and x.func.attr == "get" and
                             unparse(x.func.value) == f"self.{attr}") for x in ast.walk(fn))
            if looked_up:
                key = n.targets[0].slice
                if isinstance(key, ast.Name):
                    ds = [a.value for a in ast.walk(fn) if isinstance(a, ast.Assign) and len(a.targets) == 1 and
                          isinstance(a.targets[0], ast.Name) and a.targets[0].id == key.id]
                    key = ds[0] if len(ds) == 1 else key
                in_key = {x.id for x in ast.walk(key) if isinstance(x, ast.Name)}
                params = [a.arg for a in fn.args.args + fn.args.kwonlyargs if a.arg != "self"]
                used = {x.id for x in ast.walk(fn) if isinstance(x, ast.Name) and isinstance(x.ctx, ast.Load)}
                missing = [p_ for p_ in params if p_ in used and p_ not in in_key]
                if missing:
                    out.append(R.viol(rid, f"{short}:memo-key", file, n.lineno,
                                      f"{short} keeps its results in self.{attr} under the key '{unparse(key)[:60]}', which leaves out the "
                                      f"parameter(s) {missing}: a call that differs only in {missing[0]} gets the result computed for the earlier "
                                      f"call", construct=f"{short}: self.{attr}[{unparse(key)[:50]}] omits {missing}"))
        if isinstance(n, ast.Assign) and len(n.targets) == 1 and isinstance(n.targets[0], ast.Subscript) and \
                isinstance(n.targets[0].value, ast.Name) and n.targets[0].value.id in module_containers:
            g = n.targets[0].value.id
            looked = any(isinstance(x, ast.Compare) and any(isinstance(o, (ast.In, ast.NotIn)) for o in x.ops) and
                         any(isinstance(c, ast.Name) and c.id == g for c in x.comparators) for x in ast.walk(fn)) or any(
                isinstance(x, ast.Subscript) and isinstance(x.value, ast.Name) and x.value.id == g and isinstance(x.ctx, ast.Load) for x in ast.walk(fn))
            key = n.targets[0].slice
            by_identity = any(isinstance(x, ast.Call) and isinstance(x.func, ast.Name) and x.func.id == "id" for x in ast.walk(key))
            params = {a.arg for a in fn.args.args}
            obj_key = isinstance(key, ast.Name) and key.id in params
            if looked and not (by_identity or obj_key):
                k2 = key
                if isinstance(k2, ast.Name):
                    ds = [a.value for a in ast.walk(fn) if isinstance(a, ast.Assign) and len(a.targets) == 1 and
                          isinstance(a.targets[0], ast.Name) and a.targets[0].id == k2.id]
                    k2 = ds[0] if len(ds) == 1 else k2
                in_key = {x.id for x in ast.walk(k2) if isinstance(x, ast.Name)}
                used = {x.id for x in ast.walk(fn) if isinstance(x, ast.Name) and isinstance(x.ctx, ast.Load)}
                missing = [a.arg for a in fn.args.args + fn.args.kwonlyargs if a.arg not in ("self", "cls") and a.arg in used and a.arg not in in_key]
                if missing:
                    out.append(R.viol(rid, f"{short}:module-memo", file, n.lineno,
                                      f"{short} keeps results in the module-level '{g}' under a key that leaves out the parameter(s) {missing}: "
                                      f"a later call that differs only in {missing[0]} — in the same process — gets the earlier result",
                                      construct=f"{short}: {g}[...] omits {missing}"))
            if looked and (by_identity or obj_key):
                out.append(R.viol(rid, f"{short}:module-memo", file, n.lineno,
                                  f"{short} keeps results in the module-level '{g}' keyed on an object's identity ('{unparse(key)}'): charts are "
                                  f"edited in place, so a second call with the same (edited) object gets the result computed before the "
                                  f"edit — and a new object can reuse a freed id", construct=f"{short}: {g}[{unparse(key)}] memo"))
        elif isinstance(n, ast.Global):
            stores = {x.id for x in ast.walk(fn) if isinstance(x, ast.Name) and isinstance(x.ctx, ast.Store)}
            hit = sorted(set(n.names) & stores)
            if hit:
                out.append(R.viol(rid, f"{short}:global", file, n.lineno,
                                  f"{short} rebinds module state {hit}: results depend on earlier calls", construct=f"{short}: global {hit}"))
    return out


IMMUTABLE_ANN = {"float", "int", "str", "bool", "bytes", "Fraction", "complex", "None"}


def _field_annotations(M, cls: str):
    out = {}
    for k in reversed(M.mro(cls)) if cls else []:
        if k in M.classes:
            for st in M.classes[k].node.body:
                if isinstance(st, ast.AnnAssign) and isinstance(st.target, ast.Name):
                    out[st.target.id] = unparse(st.annotation)
    return out


def copy_hook_insts(M, q: str, fn, rid: str) -> List[R.Inst]:
    """`__deepcopy__` / `__copy__` replace what copy.deepcopy does for the class: the result must not share a mutable
    field with the original.  Every `self` / `self.<field>` that flows into the result must pass through a deep copy,
    unless the field is annotated with an immutable scalar type."""
    node = fn.node
    if node.name not in ("__deepcopy__", "__copy__", "__reduce__", "__reduce_ex__", "__getstate__"):
        return []
    file = M.mods[fn.mod].rel
    short = ".".join(q.split(".")[-2:])
    ann = _field_annotations(M, fn.cls)
    protected, tests = set(), set()
    for n in ast.walk(node):
        if isinstance(n, ast.Call):
            f = n.func
            nm = f.id if isinstance(f, ast.Name) else f.attr if isinstance(f, ast.Attribute) else ""
            if nm in ("deepcopy",) or (nm == "copy" and isinstance(f, ast.Attribute) and any(
                    k.arg == "deep" and isinstance(k.value, ast.Constant) and k.value.value for k in n.keywords)):
                for a in list(n.args) + [k.value for k in n.keywords]:
                    protected |= {id(x) for x in ast.walk(a)}
                if isinstance(f, ast.Attribute):
                    protected |= {id(x) for x in ast.walk(f.value)}
        if isinstance(n, (ast.If, ast.IfExp, ast.While)):
            tests |= {id(x) for x in ast.walk(n.test)}
        if isinstance(n, ast.Compare):
            tests |= {id(x) for x in ast.walk(n)}
    bad = []
    for n in ast.walk(node):
        if id(n) in protected or id(n) in tests:
            continue
        if isinstance(n, ast.Attribute) and isinstance(n.value, ast.Name) and n.value.id == "self" and isinstance(n.ctx, ast.Load):
            if n.attr in ("__class__", "__dict__"):
                continue
            a = ann.get(n.attr, "")
            if a.replace("Optional[", "").rstrip("]").split("|")[0].strip() in IMMUTABLE_ANN:
                continue
            bad.append((n.lineno, f"self.{n.attr}"))
    for n in ast.walk(node):
        if isinstance(n, ast.Call):
            for a in list(n.args) + [k.value for k in n.keywords]:
                if isinstance(a, ast.Name) and a.id == "self" and id(a) not in protected:
                    f = n.func
                    nm = f.id if isinstance(f, ast.Name) else f.attr if isinstance(f, ast.Attribute) else ""
                    if nm not in ("id", "type", "isinstance", "len"):
                        bad.append((a.lineno, f"self (passed to {unparse(n.func)})"))
    if bad:
        ln, what = sorted(bad)[0]
        return [R.viol(rid, f"{short}:copy-hook", file, ln,
                       f"{short} replaces the generic deep copy of its class and lets {what} reach the copy without copying it: the "
                       f"copy and the original then share that object, so editing one edits the other",
                       construct=f"{short}: shares {sorted({w for _, w in bad})}")]
    return [R.ok(rid, f"{short}:copy-hook", file, node.lineno, idiom="every field that reaches the copy is deep-copied or immutable")]


def _module_containers(M, mod: str):
    """module-level names bound to a mutable container literal / constructor"""
    out = set()
    for st in M.mods[mod].tree.body:
        tgt = st.targets[0] if isinstance(st, ast.Assign) and len(st.targets) == 1 else (st.target if isinstance(st, ast.AnnAssign) else None)
        val = getattr(st, "value", None)
        if isinstance(tgt, ast.Name) and val is not None and (isinstance(val, (ast.Dict, ast.List, ast.Set)) or (
                isinstance(val, ast.Call) and isinstance(val.func, ast.Name) and val.func.id in ("dict", "list", "set", "defaultdict", "OrderedDict"))):
            out.add(tgt.id)
    return frozenset(out)


def hidden_insts(ctx, rid: str, quals: Iterable[str]) -> List[R.Inst]:
    M = ctx.M
    out: List[R.Inst] = []
    n = 0
    for q in sorted(set(quals)):
        f = M.funcs.get(q)
        if f is None or CTL in q:
            continue
        n += 1
        mc = _module_containers(M, f.mod)
        found = scan_function(q, f.node, M.mods[f.mod].rel, rid, mc) + copy_hook_insts(M, q, f, rid)
        for i in found:
            i.reach = (q,) if not q.endswith(("__deepcopy__", "__copy__")) else tuple(
                x for x in (q, f"{f.cls}.deepcopy", f"{f.cls}.__init__") if x) 
        out.extend(found)
    if not any(i.status != "ok" for i in out):
        out.append(R.ok(rid, "no-hidden-state", "", 0, idiom=f"{n} reached functions: no memo decorator, getter memo, class memo or global rebinding"))
    return out


CONTROL_SRC = '''
class K:
    _names = None
    @classmethod
    def f(cls, d):
        if cls._names is None:
            cls._names = frozenset(cls.g())
        return cls._names
    @property
    def t(self):
        if self._t is None:
            self._t = self.a + self.b
        return self._t
    def s(self, key=None):
        kept = self.__dict__.setdefault("_kept", {})
        if key not in kept:
            kept[key] = self.build(key)
        return kept[key]
    def u(self, key=None):
        return self.build(key)
'''


def control() -> bool:
    tree = ast.parse(CONTROL_SRC)
    k = tree.body[0]
    fs = {n.name: n for n in k.body if isinstance(n, ast.FunctionDef)}
    a = scan_function("ctl.K.f", fs["f"], "ctl", "X")
    b = scan_function("ctl.K.t", fs["t"], "ctl", "X")
    c = scan_function("ctl.K.s", fs["s"], "ctl", "X")
    d = scan_function("ctl.K.u", fs["u"], "ctl", "X")
    return any("class-memo" in i.key for i in a) and any("getter-memo" in i.key for i in b) and \
        any("instance-dict-memo" in i.key for i in c) and not d
