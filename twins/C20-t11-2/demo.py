"""Demo for C20 / change 2: PtnFilterCombo / PtnFilterChord / PtnFilterType
(create and filter).

Prints one line `DIGEST <hex>`: sha256 over a canonical text dump of every
filter built (class, ar dtype / shape / values, keys, inversion), every filter
result (class, dtype, shape, values), every raised exception type, the
combinations found through the filters, and the inputs after the calls
(to show that create / filter do not modify them).
"""
import hashlib
import os
import random
import warnings

import numpy as np

from reamber.algorithms.pattern import Pattern
from reamber.algorithms.pattern.combos import PtnCombo
from reamber.algorithms.pattern.filters.PtnFilter import (
    PtnFilter,
    PtnFilterChord,
    PtnFilterCombo,
    PtnFilterType,
)
from reamber.base.Hit import Hit
from reamber.base.Hold import Hold, HoldTail
from reamber.base.Note import Note
from reamber.osu.OsuHit import OsuHit
from reamber.osu.OsuHold import OsuHold

warnings.simplefilter("ignore")
random.seed(20_002)
OUT = []


def emit(*parts):
    OUT.append(" | ".join(str(p) for p in parts))


def cell(x):
    if isinstance(x, type):
        return f"<{x.__module__}.{x.__qualname__}>"
    if isinstance(x, (tuple, list, np.void, np.record)):
        return "(" + ",".join(cell(i) for i in x) + ")"
    return f"{type(x).__name__}:{x!r}"


def dump(ar):
    if isinstance(ar, PtnFilter):
        return (f"{type(ar).__name__}(keys={cell(ar.keys)} inv={cell(ar.invert_filter)} "
                f"ar={dump(ar.ar)})")
    if isinstance(ar, np.ndarray):
        return (f"{type(ar).__name__} dtype={ar.dtype!s} shape={ar.shape} "
                f"vals={cell(ar.tolist())}")
    if isinstance(ar, list):
        return "list[" + ";".join(dump(i) for i in ar) + "]"
    return cell(ar)


def run(label, fn):
    try:
        res = fn()
    except Exception as e:  # noqa
        emit(label, "EXC", type(e).__name__)
        return None
    emit(label, dump(res))
    return res


def guarded(label, fn, *inputs):
    """Runs fn, and records that the inputs are the same afterwards"""
    before = [dump(i) for i in inputs]
    res = run(label, fn)
    after = [dump(i) for i in inputs]
    emit(label, "INPUTS-UNCHANGED", before == after, hashlib.sha256("".join(after).encode()).hexdigest())
    return res


TYPES = [Hit, Hold, HoldTail, Note, object, OsuHit, OsuHold]

# ---------------------------------------------------------------- Combo
combo_filters = []
COMBO_BASES = [
    [[0, 0]], [[0, 1]], [[1, 0]], [[0, 1], [3, 2]], [[0, 2]], [[0, 3]], [[2, 2]],
    [[0, 0, 0]], [[0, 1, 2]], [[2, 1, 0], [0, 2, 0]], [[0, 1, 0, 1]], [[3, 2, 1, 0]],
    [0, 1], [2], [[0]], [[1], [2]], [], [[]],
    np.array([[0, 1], [1, 2]]), np.array([[0, 1]], dtype="<i4"), np.array([1, 3]),
    [[0, 5]], [[6, 6]], [[-1, 0]],
]
for base in COMBO_BASES:
    for keys in (1, 2, 4, 7, 10):
        for options in range(8):
            if random.random() < 0.45:
                continue
            exclude = random.choice([True, False])
            label = f"combo.create base={dump(base)} keys={keys} opt={options} ex={exclude}"
            f = guarded(label,
                        lambda: PtnFilterCombo.create(base, keys, options, exclude), base)
            if f is not None:
                combo_filters.append((label, f))

for label, f in random.sample(combo_filters, 150):
    for seq in (1, 2, 3, 4):
        for n, dtype in ((0, "i8"), (1, "i8"), (9, "i8"), (6, "<i4"), (5, "f8")):
            data = np.array(
                [[random.randrange(max(f.keys, 1)) for _ in range(seq)] for _ in range(n)],
                dtype=dtype,
            ).reshape(n, seq)
            guarded(f"{label} FILTER seq={seq} n={n} dt={dtype}",
                    lambda: f.filter(data), data, f)

# explicit constructions, default keys = 0, truthy / falsy inversion
for ar, keys, inv in [
    (np.array([[0, 1], [2, 3]]), 0, False), (np.array([[0, 1], [2, 3]]), 0, True),
    (np.array([[0, 1], [2, 3]]), 4, 1), (np.array([[1]]), 4, 0),
    (np.empty((0, 2), dtype=int), 4, False), (np.empty((0, 2), dtype=int), 4, True),
    (np.array([[2 ** 40, 3]]), 2 ** 30, False),
]:
    f = PtnFilterCombo(ar, keys, inv)
    for seq in (1, 2, 3):
        data = np.array([[random.randrange(4) for _ in range(seq)] for _ in range(8)])
        guarded(f"combo explicit {dump(f)} seq={seq}", lambda: f.filter(data), data, f)

# ---------------------------------------------------------------- Chord
chord_filters = []
CHORD_BASES = [
    [[1, 1]], [[2, 1]], [[1, 2]], [[2, 2]], [[3, 2]], [[3, 1], [1, 1]], [[4, 4]],
    [[1, 1, 1]], [[2, 1, 2]], [[3, 2, 1]], [[1, 2, 3], [3, 3, 1]], [[2, 1, 1, 2]],
    [[1, 2, 3, 4]], [1, 2], [3], [[2]], [[1], [3]], [], [[]],
    np.array([[2, 1]]), np.array([[2, 1]], dtype="<i4"), [[2.0, 1.0]], [[9, 1]], [[0, 1]],
]
for base in CHORD_BASES:
    for keys in (1, 2, 4, 7):
        for options in range(8):
            # ANY_ORDER (odd options) is always run
            if options % 2 == 0 and random.random() < 0.5:
                continue
            exclude = random.choice([True, False])
            label = f"chord.create base={dump(base)} keys={keys} opt={options} ex={exclude}"
            f = guarded(label, lambda: PtnFilterChord.create(base, keys, options, exclude), base)
            if f is not None:
                chord_filters.append((label, f))

for label, f in random.sample(chord_filters, 150):
    for seq in (1, 2, 3, 4):
        for _ in range(3):
            data = np.array([random.randint(1, 4) for _ in range(seq)])
            guarded(f"{label} FILTER data={dump(data)}", lambda: f.filter(data), data, f)
        lst = [random.randint(1, 3) for _ in range(seq)]
        guarded(f"{label} FILTER list={lst}", lambda: f.filter(lst), lst, f)

# ---------------------------------------------------------------- Type
type_filters = []
TYPE_BASES = [
    [[Hit, Hit]], [[Hit, Hold]], [[Hold, HoldTail]], [[HoldTail, object]],
    [[object, object]], [[Hit, Hold], [Hold, Hit]], [[Note, HoldTail]],
    [[OsuHit, Hit]], [[OsuHold, Hold], [Hit, OsuHit]],
    [[HoldTail, object, object]], [[Hit, Hold, HoldTail]], [[Hit, Hit, Hold], [Hold, Hit, Hit]],
    [[HoldTail, object, object, object]], [[Hit, Hold, HoldTail, Note]],
    [Hit, Hold], [HoldTail], [[Hit]], [[Hit], [Hold]], [], [[]], Hit,
]
for base in TYPE_BASES:
    for options in range(4):
        for exclude in (True, False):
            label = f"type.create base={dump(base)} opt={options} ex={exclude}"
            f = guarded(label, lambda: PtnFilterType.create(base, options, exclude), base)
            if f is not None:
                type_filters.append((label, f))

for label, f in type_filters:
    for seq in (1, 2, 3, 4):
        for n in (0, 1, 7):
            data = np.empty((n, seq), dtype=object)
            for i in range(n):
                for j in range(seq):
                    data[i, j] = random.choice(TYPES)
            guarded(f"{label} FILTER seq={seq} n={n}", lambda: f.filter(data), data, f)

for ar, inv in [
    (np.empty((0, 2), dtype=object), False), (np.empty((0, 2), dtype=object), True),
    (np.empty((1, 0), dtype=object), False), (np.empty((2, 0), dtype=object), True),
    (np.array([[Hit, Hold]], dtype=object), 1), (np.array([[Hit]], dtype=object), 0),
]:
    f = PtnFilterType(ar, 0, inv)
    for n, seq in ((0, 2), (3, 0), (3, 1), (3, 2), (3, 3)):
        data = np.empty((n, seq), dtype=object)
        for i in range(n):
            for j in range(seq):
                data[i, j] = random.choice(TYPES[:3])
        guarded(f"type explicit {dump(f)} n={n} seq={seq}", lambda: f.filter(data), data, f)
    bad = np.array([[Hit, 5]], dtype=object)
    guarded(f"type explicit {dump(f)} non-class", lambda: f.filter(bad), bad, f)

# ---------------------------------------------------------------- & and |
for cls, pool in ((PtnFilterCombo, combo_filters), (PtnFilterChord, chord_filters)):
    for _ in range(40):
        (la, a), (lb, b) = random.sample(pool, 2)
        for op in "&|":
            label = f"op {cls.__name__} {op} [{la}] [{lb}]"
            c = guarded(label, lambda: (a & b) if op == "&" else (a | b), a, b)
            if c is not None and c.ar.ndim == 2 and c.ar.shape[1] in (1, 2, 3, 4):
                seq = c.ar.shape[1]
                if cls is PtnFilterCombo:
                    data = np.array([[random.randrange(4) for _ in range(seq)] for _ in range(6)])
                else:
                    data = np.array([random.randint(1, 3) for _ in range(seq)])
                guarded(label + " FILTER", lambda: c.filter(data), data, c)

# ---------------------------------------------------------------- pipeline
def rand_pattern(n, keys):
    cols, offsets, types = [], [], []
    t = 0
    for _ in range(n):
        t += random.choice([0, 25, 50, 50, 100])
        for c in random.sample(range(keys), random.randint(1, min(keys, 3))):
            if random.random() < 0.3:
                cols += [c, c]
                offsets += [t, t + random.choice([0, 50, 200])]
                types += [Hold, HoldTail]
            else:
                cols.append(c)
                offsets.append(t)
                types.append(random.choice([Hit, OsuHit]))
    order = list(range(len(cols)))
    random.shuffle(order)
    return Pattern([cols[i] for i in order], [offsets[i] for i in order],
                   [types[i] for i in order])


def combo_digest(label, fn):
    try:
        res = fn()
    except Exception as e:  # noqa
        emit(label, "EXC", type(e).__name__)
        return
    emit(label, len(res), hashlib.sha256(dump(res).encode()).hexdigest())


for case in range(30):
    keys = random.choice([4, 4, 7, 10])
    p = rand_pattern(random.choice([0, 1, 3, 6, 10, 16]), keys)
    groups = p.group(random.choice([0, 25, 50, 100]), random.choice([None, None, 1, 2]),
                     random.choice([True, False]))
    pc = PtnCombo(groups)
    for size in (2, 3, 4):
        for _ in range(4):
            chord = random.choice([None] + [f for _, f in chord_filters
                                            if f.ar.ndim == 2 and f.ar.shape[1] == size][:40])
            combo = random.choice([None] + [f for _, f in combo_filters
                                            if f.ar.ndim == 2 and f.ar.shape[1] == size][:60])
            typ = random.choice([None] + [f for _, f in type_filters
                                          if f.ar.ndim == 2 and f.ar.shape[1] == size])
            ms2 = random.choice([True, False])
            label = (f"pipe{case} k={keys} size={size} ms2={ms2} chord={dump(chord)} "
                     f"combo={dump(combo)} type={dump(typ)}")
            combo_digest(label, lambda: pc.combinations(
                size=size, make_size2=ms2,
                chord_filter=chord.filter if chord else None,
                combo_filter=combo.filter if combo else None,
                type_filter=typ.filter if typ else None))
    for prim, sec, low, jack in ((2, 1, False, False), (3, 2, True, False), (1, 1, False, True),
                                 (2, 2, True, True)):
        combo_digest(f"pipe{case} chordstream {prim} {sec} {low} {jack}",
                     lambda: pc.template_chord_stream(prim, sec, keys, low, jack))
    for ml in (1, 2, 3, 4):
        combo_digest(f"pipe{case} jacks {ml}", lambda: pc.template_jacks(ml, keys))

text = "\n".join(OUT)
if os.environ.get("C20_DUMP"):
    open(os.environ["C20_DUMP"], "w").write(text)
print("DIGEST", hashlib.sha256(text.encode()).hexdigest())
