"""Demo for C08 / change 2: TimedList.empty rewritten column-wise.

Prints one line ``DIGEST <hex>``: a sha256 over a canonical text dump of
 * every converter (16 + convert_merge) run over source charts with many histories
   (freshly read, built from objects, filtered, reverse sorted, appended to, modified
   through stacking, rate changed, deep copied, emptied), including the raised
   exception types and a dump of the source before and after the conversion,
 * direct calls of ``empty`` on every TimedList class of the package with row counts
   0, 1, 2, 5, 40, numpy ints, bools and invalid ones (negative, float, str, None):
   values, dtypes, column order, row labels, exception types, ownership of the
   mutable defaults, independence of two results, class defaults left untouched,
 * direct calls of ConvertBase.cast (the only caller of ``empty``) on a few lists.
"""
import hashlib
import importlib
import pkgutil
import random
import sys
import warnings
from dataclasses import fields, is_dataclass
from pathlib import Path

import numpy as np
import pandas as pd

warnings.filterwarnings("ignore")

import reamber
from reamber.algorithms.convert import *  # noqa
from reamber.algorithms.convert.ConvertBase import ConvertBase
from reamber.base.lists.TimedList import TimedList
from reamber.bms import BMSHit, BMSHold
from reamber.bms.BMSBpm import BMSBpm
from reamber.bms.BMSMap import BMSMap
from reamber.bms.lists import BMSBpmList
from reamber.bms.lists.notes import BMSHitList, BMSHoldList
from reamber.o2jam.O2JBpm import O2JBpm
from reamber.o2jam.O2JHit import O2JHit
from reamber.o2jam.O2JHold import O2JHold
from reamber.o2jam.O2JMap import O2JMap
from reamber.o2jam.O2JMapSet import O2JMapSet
from reamber.o2jam.lists.O2JBpmList import O2JBpmList
from reamber.o2jam.lists.notes.O2JHitList import O2JHitList
from reamber.o2jam.lists.notes.O2JHoldList import O2JHoldList
from reamber.osu.OsuBpm import OsuBpm
from reamber.osu.OsuHit import OsuHit
from reamber.osu.OsuHold import OsuHold
from reamber.osu.OsuMap import OsuMap
from reamber.osu.OsuSv import OsuSv
from reamber.osu.lists.OsuBpmList import OsuBpmList
from reamber.osu.lists.OsuSvList import OsuSvList
from reamber.osu.lists.notes.OsuHitList import OsuHitList
from reamber.osu.lists.notes.OsuHoldList import OsuHoldList
from reamber.quaver.QuaBpm import QuaBpm
from reamber.quaver.QuaHit import QuaHit
from reamber.quaver.QuaHold import QuaHold
from reamber.quaver.QuaMap import QuaMap
from reamber.quaver.QuaMapMeta import QuaMapMode
from reamber.quaver.QuaSv import QuaSv
from reamber.quaver.lists.QuaBpmList import QuaBpmList
from reamber.quaver.lists.QuaSvList import QuaSvList
from reamber.quaver.lists.notes.QuaHitList import QuaHitList
from reamber.quaver.lists.notes.QuaHoldList import QuaHoldList
from reamber.sm.SMBpm import SMBpm
from reamber.sm.SMHit import SMHit
from reamber.sm.SMHold import SMHold
from reamber.sm.SMMap import SMMap
from reamber.sm.SMMapMeta import SMMapChartTypes
from reamber.sm.SMMapSet import SMMapSet
from reamber.sm.lists.SMBpmList import SMBpmList
from reamber.sm.lists.notes.SMHitList import SMHitList
from reamber.sm.lists.notes.SMHoldList import SMHoldList

assert Path(reamber.__file__).resolve().parents[1] == Path.cwd().resolve(), reamber.__file__

random.seed(20261001)
np.random.seed(20261001)

MAPS = Path("rsc/maps")
OUT = []


def emit(*parts):
    OUT.append(" ".join(str(p) for p in parts))


# ----------------------------------------------------------------- canonical dump
def dump_value(v):
    if isinstance(v, float):
        return "f:" + repr(v)
    if isinstance(v, (np.floating,)):
        return f"np{v.dtype}:" + repr(float(v))
    if isinstance(v, (np.integer, np.bool_)):
        return f"np{v.dtype}:" + repr(v.item())
    if isinstance(v, (list, tuple)):
        return type(v).__name__ + "[" + ",".join(dump_value(i) for i in v) + "]"
    return type(v).__name__ + ":" + repr(v)


def dump_df(df, ind):
    lines = [
        f"{ind}DataFrame shape={df.shape} index={type(df.index).__name__}"
        f"/{df.index.dtype}/{df.index.tolist()!r} columns={type(df.columns).__name__}"
        f"/{df.columns.dtype}"
    ]
    for pos, col in enumerate(df.columns):
        s = df.iloc[:, pos]
        lines.append(
            f"{ind}  col {col!r} dtype={s.dtype} "
            + "|".join(dump_value(v) for v in s.tolist())
        )
    return lines


def dump(o, ind=""):
    lines = []
    if isinstance(o, pd.DataFrame):
        return dump_df(o, ind)
    if isinstance(o, pd.Series):
        return [
            f"{ind}Series name={o.name!r} dtype={o.dtype} index={o.index.tolist()!r} "
            + "|".join(dump_value(v) for v in o.tolist())
        ]
    if isinstance(o, np.ndarray):
        return [f"{ind}ndarray dtype={o.dtype} shape={o.shape} {o.tolist()!r}"]
    if isinstance(o, TimedList):
        lines.append(f"{ind}{type(o).__module__}.{type(o).__name__}")
        extra = sorted(k for k in vars(o) if k != "_df")
        if extra:
            lines.append(f"{ind}  extra-attrs {extra!r}")
        return lines + dump_df(o.df, ind + "  ")
    if isinstance(o, dict):
        lines.append(f"{ind}dict[{len(o)}]")
        for k, v in o.items():
            lines.append(f"{ind}  key {k!r}")
            lines += dump(v, ind + "    ")
        return lines
    if isinstance(o, (list, tuple)):
        lines.append(f"{ind}{type(o).__name__}[{len(o)}]")
        for v in o:
            lines += dump(v, ind + "  ")
        return lines
    if is_dataclass(o) and not isinstance(o, type):
        lines.append(f"{ind}{type(o).__module__}.{type(o).__name__}")
        names = [f.name for f in fields(o)]
        names += sorted(k for k in vars(o) if k not in names)
        for n in names:
            lines.append(f"{ind}  .{n}")
            lines += dump(getattr(o, n), ind + "    ")
        return lines
    return [ind + dump_value(o)]


def dumps(o):
    return "\n".join(dump(o))


# ----------------------------------------------------------------- source charts
GAMES = {
    "osu": dict(hit=OsuHit, hold=OsuHold, bpm=OsuBpm, sv=OsuSv, hits=OsuHitList,
                holds=OsuHoldList, bpms=OsuBpmList, svs=OsuSvList),
    "qua": dict(hit=QuaHit, hold=QuaHold, bpm=QuaBpm, sv=QuaSv, hits=QuaHitList,
                holds=QuaHoldList, bpms=QuaBpmList, svs=QuaSvList),
    "sm": dict(hit=SMHit, hold=SMHold, bpm=SMBpm, hits=SMHitList, holds=SMHoldList,
               bpms=SMBpmList),
    "bms": dict(hit=BMSHit, hold=BMSHold, bpm=BMSBpm, hits=BMSHitList,
                holds=BMSHoldList, bpms=BMSBpmList),
    "o2j": dict(hit=O2JHit, hold=O2JHold, bpm=O2JBpm, hits=O2JHitList,
                holds=O2JHoldList, bpms=O2JBpmList),
}


def rand_offsets(n, kind):
    if kind == "sorted":
        return sorted(round(random.uniform(0, 60000), 3) for _ in range(n))
    if kind == "unsorted":
        return [round(random.uniform(0, 60000), 3) for _ in range(n)]
    if kind == "ties":
        return [float(random.choice([0, 250, 500, 500, 1000])) for _ in range(n)]
    if kind == "negative":
        return [round(random.uniform(-5000, 5000), 2) for _ in range(n)]
    if kind == "int":
        return [random.randrange(0, 60000) for _ in range(n)]
    raise ValueError(kind)


def fill_map(m, game, keys, n_hits, n_holds, n_bpms, n_svs, kind):
    g = GAMES[game]

    def hit_kw(i):
        if game == "qua":
            return dict(keysounds=[f"k{i}"] if i % 3 == 0 else [])
        if game == "bms":
            # a non-ascii sample name makes BMSToOsu raise: only some charts carry one
            pool = [b"", b"kick.wav"] + ([b"\x83n.wav"] if kind == "ties" else [])
            return dict(sample=random.choice(pool))
        if game == "osu":
            return dict(hitsound_file=random.choice(["", "hit.wav"]), volume=i % 100)
        return {}

    hits = [g["hit"](offset=o, column=random.randrange(keys), **hit_kw(i))
            for i, o in enumerate(rand_offsets(n_hits, kind))]
    holds = [g["hold"](offset=o, column=random.randrange(keys),
                       length=random.choice([0, 0.5, 120, 1000.25, 4000]), **hit_kw(i))
             for i, o in enumerate(rand_offsets(n_holds, kind))]
    bpms = [g["bpm"](offset=o, bpm=random.choice([60, 120.5, 180, 222.22, 0.001, 999]))
            for o in rand_offsets(n_bpms, kind)]
    m.hits = g["hits"](hits)
    m.holds = g["holds"](holds)
    m.bpms = g["bpms"](bpms)
    if "sv" in g:
        m.svs = g["svs"]([g["sv"](offset=o, multiplier=random.choice([0.1, 1, 2.5, -1, 10]))
                          for o in rand_offsets(n_svs, kind)])
    return m


def build(game, keys, n_hits, n_holds, n_bpms, n_svs, kind, tag):
    """A source chart (or chart set) built from objects."""
    if game == "osu":
        m = fill_map(OsuMap(), game, keys, n_hits, n_holds, n_bpms, n_svs, kind)
        m.title, m.title_unicode = f"T{tag}", f"ティ{tag}"
        m.artist, m.artist_unicode = f"A{tag}", f"アー{tag}"
        m.creator, m.version = f"C{tag}", f"V{tag}"
        m.circle_size = keys
        m.audio_file_name, m.background_file_name = "a.mp3", "bg.png"
        m.preview_time = 1234
        return m
    if game == "qua":
        m = fill_map(QuaMap(), game, keys, n_hits, n_holds, n_bpms, n_svs, kind)
        m.title, m.artist, m.creator = f"T{tag}", f"A{tag}", f"C{tag}"
        m.difficulty_name = f"D{tag}"
        m.mode = QuaMapMode.get_mode(keys) if keys in (4, 7) else QuaMapMode.KEYS_4
        m.audio_file, m.background_file = "a.mp3", "bg.png"
        m.tags = ["x", "y"]
        return m
    if game == "bms":
        m = fill_map(BMSMap(), game, keys, n_hits, n_holds, n_bpms, n_svs, kind)
        m.title = f"T{tag}".encode("sjis")
        m.artist = f"アーティスト{tag}".encode("sjis")
        m.version = f"{tag}".encode("sjis")
        return m
    if game == "sm":
        maps = []
        for j in range(1 + tag % 3):
            sm = fill_map(SMMap(), game, keys, n_hits + j, n_holds, n_bpms, n_svs, kind)
            sm.chart_type = SMMapChartTypes.get_type(keys) or SMMapChartTypes.DANCE_SINGLE
            sm.description = f"D{tag}-{j}"
            sm.difficulty = ["Easy", "Hard", "Challenge"][j]
            sm.difficulty_val = j + 3
            maps.append(sm)
        ms = SMMapSet(maps)
        ms.title, ms.title_translit = f"T{tag}", f"Tt{tag}"
        ms.artist, ms.artist_translit = f"A{tag}", f"At{tag}"
        ms.credit, ms.music, ms.background = f"C{tag}", "a.ogg", "bg.png"
        ms.sample_start, ms.sample_length, ms.offset = 12.5, 10, 0.0
        return ms
    if game == "o2j":
        n = 1 + tag % 3
        maps = [fill_map(O2JMap(), game, keys, n_hits + j, n_holds, n_bpms, n_svs, kind)
                for j in range(n)]
        ms = O2JMapSet(maps)
        ms.title, ms.artist, ms.creator = f"T{tag}", f"A{tag}", f"C{tag}"
        ms.level = [5 + 3 * j for j in range(n)] + [0]
        ms.bpm = 150.0
        return ms
    raise ValueError(game)


def charts_of(src):
    return list(src.maps) if hasattr(src, "maps") else [src]


# ----------------------------------------------------------------- histories
def h_identity(src):
    return src


def h_deepcopy(src):
    return src.deepcopy()


def h_rate(src):
    return src.rate(1.5)


def h_filtered(src):
    src = src.deepcopy()
    for m in charts_of(src):
        m.hits = m.hits[m.hits.column != 0]
        if len(m.holds):
            m.holds = m.holds.after(float(m.holds.offset.median()), include_end=False)
        if len(m.bpms) > 1:
            m.bpms = m.bpms[1:]
    return src


def h_reverse_sorted(src):
    src = src.deepcopy()
    for m in charts_of(src):
        m.hits = m.hits.sorted(reverse=True)
        m.holds = m.holds.sorted(reverse=True)
        m.bpms = m.bpms.sorted(reverse=True)
    return src


def h_appended(src):
    src = src.deepcopy()
    for m in charts_of(src):
        if len(m.hits):
            m.hits = m.hits.append(m.hits[0]).append(m.hits[:3])
        if len(m.holds):
            m.holds = m.holds.append(m.holds[len(m.holds) - 1], sort=True)
        if len(m.bpms):
            m.bpms = m.bpms.append(m.bpms[:1])
    return src


def h_stacked(src):
    src = src.deepcopy()
    for m in charts_of(src):
        s = m.stack()
        s.offset += 37.5
        s.offset *= 2
        if len(m.holds):
            s.length += 1
        if len(m.bpms):
            s.bpm *= 1.25
    return src


def h_emptied(src):
    src = src.deepcopy()
    for m in charts_of(src):
        m.holds = m.holds[:0]
        m.bpms = m.bpms[m.bpms.offset > 1e12]
    return src


def h_relabelled(src):
    """Filter + append leaves duplicated / shuffled row labels behind."""
    src = src.deepcopy()
    for m in charts_of(src):
        for name in ("hits", "holds", "bpms"):
            tl = getattr(m, name)
            if len(tl) > 2:
                df = tl.df.iloc[::-1].iloc[1:]
                df = pd.concat([df, df.iloc[:2]])
                setattr(m, name, type(tl)(df))
    return src


HISTORIES = [h_identity, h_deepcopy, h_rate, h_filtered, h_reverse_sorted, h_appended,
             h_stacked, h_emptied, h_relabelled]

CONVERTERS = {
    "osu": [("OsuToBMS", OsuToBMS.convert, [{}, dict(move_right_by=2)]),
            ("OsuToQua", OsuToQua.convert, [{}, dict(raise_bad_mode=False)]),
            ("OsuToSM", OsuToSM.convert, [{}, dict(raise_bad_mode=False)])],
    "qua": [("QuaToBMS", QuaToBMS.convert, [{}, dict(move_right_by=1)]),
            ("QuaToOsu", QuaToOsu.convert, [{}]),
            ("QuaToSM", QuaToSM.convert, [{}])],
    "sm": [("SMToBMS", SMToBMS.convert, [{}]),
           ("SMToOsu", SMToOsu.convert, [{}]),
           ("SMToQua", SMToQua.convert, [{}, dict(raise_bad_mode=False)])],
    "bms": [("BMSToOsu", BMSToOsu.convert, [{}]),
            ("BMSToQua", BMSToQua.convert, [{}, dict(raise_bad_mode=False)]),
            ("BMSToSM", BMSToSM.convert, [{}])],
    "o2j": [("O2JToBMS", O2JToBMS.convert, [{}, dict(move_right_by=0)]),
            ("O2JToOsu", O2JToOsu.convert, [{}]),
            ("O2JToQua", O2JToQua.convert, [{}]),
            ("O2JToSM", O2JToSM.convert, [{}]),
            ("O2JToSM.merge", O2JToSM.convert_merge, [{}])],
}


def run_converters(label, game, src):
    before = dumps(src)
    emit("SOURCE", label, hashlib.sha256(before.encode()).hexdigest())
    for name, fn, kwargs_list in CONVERTERS[game]:
        for kw in kwargs_list:
            try:
                res = dumps(fn(src, **kw))
            except Exception as e:  # noqa
                res = "RAISED " + type(e).__name__
            after = dumps(src)
            emit("CONVERT", label, name, sorted(kw.items()))
            emit(res)
            emit("SOURCE-UNCHANGED", after == before)
            emit("SOURCE-AFTER", hashlib.sha256(after.encode()).hexdigest())


def head(src, n=60):
    """Shorten the read charts so that the run stays fast (still a real history)."""
    src = src.deepcopy()
    for m in charts_of(src):
        m.hits = m.hits[:n]
        m.holds = m.holds[:n]
        m.bpms = m.bpms[:n]
        if hasattr(m, "svs"):
            m.svs = m.svs[:n]
    return src


def section_converters():
    read = [
        ("osu", lambda: OsuMap.read_file(MAPS / "osu/Gravity.osu")),
        ("osu", lambda: OsuMap.read_file(MAPS / "osu/AvengerHitsoundFile.osu")),
        ("osu", lambda: OsuMap.read_file(MAPS / "osu/LNDan14.osu")),
        ("qua", lambda: QuaMap.read_file(MAPS / "qua/CarryMeAway.qua")),
        ("qua", lambda: QuaMap.read_file(MAPS / "qua/NeuroCloud.qua")),
        ("sm", lambda: SMMapSet.read_file(MAPS / "sm/Escapes.sm")),
        ("sm", lambda: SMMapSet.read_file(MAPS / "sm/Gravity.sm")),
        ("bms", lambda: BMSMap.read_file(MAPS / "bms/coldBreath.bme")),
        ("bms", lambda: BMSMap.read_file(MAPS / "bms/searoad.bml")),
        ("o2j", lambda: O2JMapSet.read_file(MAPS / "o2jam/o2ma178.ojn")),
        ("o2j", lambda: O2JMapSet.read_file(MAPS / "o2jam/o2ma120.ojn")),
    ]
    for i, (game, reader) in enumerate(read):
        full = reader()
        # the freshly read chart goes through the converters as it is ...
        run_converters(f"read{i}/{game}/fresh", game, full)
        # ... and a shortened one through every history
        short = head(full)
        for h in HISTORIES[1:]:
            run_converters(f"read{i}/{game}/{h.__name__}", game, h(short))

    built = []
    tag = 0
    for game in GAMES:
        for keys, nh, nl, nb, ns, kind in [
            (4, 12, 5, 3, 4, "sorted"),
            (7, 9, 6, 2, 0, "unsorted"),
            (4, 8, 4, 4, 3, "ties"),
            (7, 7, 3, 2, 2, "negative"),
            (4, 6, 3, 1, 1, "int"),
            (4, 0, 4, 1, 2, "sorted"),      # no hits
            (4, 5, 0, 1, 0, "sorted"),      # no holds
            (7, 1, 1, 1, 1, "sorted"),      # single rows
            (3, 6, 2, 1, 1, "sorted"),      # key counts some targets reject
            (5, 6, 2, 2, 1, "unsorted"),
            (9, 6, 2, 2, 1, "unsorted"),
            (18, 4, 2, 1, 1, "sorted"),
        ]:
            built.append((game, build(game, keys, nh, nl, nb, ns, kind, tag)))
            tag += 1
    for i, (game, src) in enumerate(built):
        for h in HISTORIES:
            try:
                hs = h(src)
            except Exception as e:  # noqa
                emit("HISTORY-RAISED", i, game, h.__name__, type(e).__name__)
                continue
            run_converters(f"built{i}/{game}/{h.__name__}", game, hs)

    # charts with nothing at all, and with no tempo points
    for game in GAMES:
        run_converters(f"blank/{game}", game, build(game, 4, 0, 0, 0, 0, "sorted", 900))
        run_converters(f"nobpm/{game}", game, build(game, 4, 3, 2, 0, 1, "sorted", 901))



# ----------------------------------------------------------------- direct empty calls
def all_list_classes():
    for mod in pkgutil.walk_packages(reamber.__path__, "reamber."):
        try:
            importlib.import_module(mod.name)
        except Exception:  # noqa  optional dependencies of unrelated algorithms
            pass

    def subs(c):
        for sub in c.__subclasses__():
            yield sub
            yield from subs(sub)

    return [TimedList] + sorted(set(subs(TimedList)),
                                key=lambda c: (c.__module__, c.__name__))


def section_empty():
    classes = all_list_classes()
    emit("CLASSES", len(classes), [c.__name__ for c in classes])
    row_counts = [0, 1, 2, 5, 40, np.int64(3), np.int32(0), np.uint8(2), True, False,
                  -1, -5, 2.0, 1.5, "3", None, [2], np.array([1, 2])]
    for cls in classes:
        defaults_before = dumps(cls._default())
        for rows in row_counts:
            emit("EMPTY", cls.__module__, cls.__name__, dump_value(rows)
                 if not isinstance(rows, np.ndarray) else "ndarray")
            try:
                a = cls.empty(rows)
            except Exception as e:  # noqa
                emit("RAISED", type(e).__name__, str(e))
                continue
            emit(dumps(a))
            emit("TYPE", type(a) is cls, type(a.df.index).__name__, repr(a.df.index),
                 repr(a.df.columns))
            # every row owns its mutable default, immutable ones may be shared
            for col in a.df.columns:
                if a.df[col].dtype == object:
                    vals = a.df[col].tolist()
                    emit("OBJ", col, len(vals), len({id(v) for v in vals}),
                         [type(v).__name__ for v in vals[:3]])
            # two results never share anything, and writes stay local
            b = cls.empty(rows)
            emit("FRESH", a is not b, a.df is not b.df)
            if len(a):
                a.offset += 5
                for col in a.df.columns:
                    if a.df[col].dtype == object and isinstance(a.df[col].iloc[0], list):
                        a.df[col].iloc[0].append("written")
                emit("AFTER-WRITE", dumps(a), dumps(b), dumps(cls.empty(rows)))
            # the usual list operations go on from an empty()-made list
            emit("OPS", dumps(a.sorted(reverse=True)), dumps(a.append(b)),
                 dumps(a[: len(a) // 2]), dumps(a.deepcopy()))
        emit("DEFAULTS-UNCHANGED", dumps(cls._default()) == defaults_before)
        # neighbours that must not move: [] and from_dict
        for what, fn in [("BLANK", lambda: cls([])),
                         ("FROM-DICT", lambda: cls.from_dict(dict(offset=[1.0, 2.0]))),
                         ("FROM-DICT-EMPTY", lambda: [cls.from_dict([]), cls.from_dict({})])]:
            try:
                emit(what, dumps(fn()))
            except Exception as e:  # noqa
                emit(what, "RAISED", type(e).__name__)


# ----------------------------------------------------------------- direct cast calls
def section_cast():
    targets = [OsuHitList, OsuHoldList, OsuBpmList, OsuSvList, QuaHitList, QuaHoldList,
               QuaBpmList, QuaSvList, SMHitList, SMHoldList, SMBpmList, BMSHitList,
               BMSHoldList, BMSBpmList, O2JHitList, O2JHoldList, O2JBpmList]

    def sources():
        for n in (0, 3):
            hits = BMSHitList([BMSHit(offset=float(100 * i - 150), column=i % 5,
                                      sample=[b"", b"a.wav"][i % 2]) for i in range(n)])
            holds = OsuHoldList([OsuHold(offset=10.5 * i, column=(3 * i) % 4,
                                         length=i * 33.0, hitsound_file="h.wav")
                                 for i in range(n)])
            bpms = SMBpmList([SMBpm(offset=-i * 10.0, bpm=100.0 + i) for i in range(n)])
            svs = QuaSvList([QuaSv(offset=float(i), multiplier=i / 4) for i in range(n)])
            for tl in (hits, holds, bpms, svs):
                yield f"n{n}", tl
                if n > 1:
                    # row labels that are neither sorted nor unique nor 0..n-1
                    df = tl.df.iloc[::-1]
                    df.index = [5] * len(df)
                    yield f"n{n}-relabelled", type(tl)(df)
                    yield f"n{n}-filtered", tl[tl.offset != tl.offset.iloc[0]]
                    yield f"n{n}-intoffset", type(tl)(tl.df.astype({"offset": int}))

    case = 0
    for label, src in sources():
        n = len(src)
        cols = list(src.df.columns)
        mappings = [
            dict(offset="offset"),
            {},
            dict(offset=cols[-1]),
            {**{c: c for c in cols[:2]}, "offset": "offset"},
            dict(offset=123.5),
            dict(offset=np.arange(n, dtype=float) * 2),
            dict(offset=list(range(n))),
            dict(offset=pd.Series(np.arange(n) + 0.25, index=[9] * n)),
            dict(offset=src.offset * 2),
            dict(offset="offset", column="column", length="length", bpm="bpm",
                 multiplier="multiplier"),
            dict(offset="nope"),                       # AttributeError while reading
            dict(offset="offset", zzz="offset"),       # not a column of the target
            dict(offset=np.arange(n + 1, dtype=float)),  # wrong length
            dict(offset="df"),                         # attribute that is a DataFrame
        ]
        for target in targets:
            for mi, mapping in enumerate(mappings):
                mapping = {k: v for k, v in mapping.items()
                           if not isinstance(v, str) or k == "offset" or k == "zzz"
                           or (hasattr(src, v) and k in target([]).df.columns)}
                case += 1
                before = dumps(src)
                map_before = dumps(mapping)
                try:
                    out = ConvertBase.cast(src, target, mapping)
                    res = dumps(out)
                    res += f"\nshares-frame {out.df is src.df}"
                except Exception as e:  # noqa
                    res = "RAISED " + type(e).__name__
                emit("CAST", label, type(src).__name__, target.__name__, mi)
                emit(res)
                emit("SRC-UNCHANGED", dumps(src) == before,
                     "MAPPING-UNCHANGED", dumps(mapping) == map_before)
    emit("CAST-CASES", case)

    # the result owns its data: writing to it never reaches the source
    src = OsuHitList([OsuHit(offset=float(i), column=i % 4) for i in range(5)])
    out = ConvertBase.cast(src, QuaHitList, dict(offset="offset", column="column"))
    out.offset += 1000
    out.df.loc[0, "column"] = 99
    out.keysounds.iloc[0].append("x")
    emit("ALIAS", dumps(src), dumps(out))
    # subclasses reach cast through cls
    emit("CLS", dumps(OsuToQua.cast(src, QuaHitList, dict(offset="column"))))


section_converters()
section_empty()
section_cast()
text = "\n".join(OUT)
if "--dump" in sys.argv:
    sys.stdout.write(text + "\n")
print("DIGEST", hashlib.sha256(text.encode("utf-8")).hexdigest())
