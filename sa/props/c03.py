"""C03 — StepMania writing produces a file that denotes the in-memory mapset (DESIGN §5 C03)."""
from __future__ import annotations

import ast
from typing import Dict, List, Optional, Tuple

from ..model import AnalysisError, walk_no_nested, params_of
from .. import report as R
from ..report import RuleSpec
from .. import codec as C
from .common import fn_loc, unparse, returns_of, call_name
from . import sm_common as S


def _hdr_compat(tag, rops: List[str], wops: List[str]) -> Tuple[str, str]:
    if any(o.startswith("?") for o in rops):
        return R.UNDEC, "unmodelled reader transform " + ",".join(rops)
    rc = [o for o in rops if o != "strip"]
    wc = list(wops)
    if wc == ["<unmodelled>"]:
        return R.UNDEC, "the writer passes the field through an expression that is not modelled"
    rnd = [o for o in wc if o.startswith("round:")]
    if rnd:
        d = rnd[0].split(":")[1]
        unit = "s" if any(o == "call:RAConst.msec_to_sec" for o in wc) else ""
        if d.isdigit() and int(d) >= 6:
            return R.UNDEC, f"written rounded to {d} decimals: whether that is below the resolution of the value is a numeric question"
        return R.VIOL, (f"written through round(.., {d}): only {d} decimals{' of a second' if unit else ''} survive, so a value that is not a multiple of "
                        f"{'1 ms' if unit and d == '3' else '10^-' + d + (' s' if unit else '')} is read back changed (after a rate change, or "
                        f"a first tempo point at 12.5 ms) and every time derived from it moves with it")
    if rc == [] and wc == []:
        return R.OK, "str <-> str (strip is an idempotent normalisation)"
    r_conv = [o for o in rc if o.startswith("call:RAConst.")]
    w_conv = [o for o in wc if o.startswith("call:RAConst.")]
    if r_conv or w_conv:
        if r_conv == ["call:RAConst.sec_to_msec"] and w_conv == ["call:RAConst.msec_to_sec"]:
            if ("neg" in rc) != ("neg" in wc):
                return R.VIOL, "the sign is flipped on one side only (reader %s, writer %s)" % (rc, wc)
            if [o for o in rc if o not in ("float", "neg") and o not in r_conv] or \
                    [o for o in wc if o not in ("float", "neg", "str") and o not in w_conv]:
                return R.UNDEC, f"extra transforms reader {rc} writer {wc}"
            return R.OK, ("-sec_to_msec <-> -msec_to_sec" if "neg" in rc else "sec_to_msec <-> msec_to_sec")
        return R.VIOL, f"unit conversions are not inverse: reader {r_conv or 'none'}, writer {w_conv or 'none'}"
    if len(rc) == 1 and rc[0].startswith("eq:"):
        _, yes, tv, fv = rc[0].split(":")
        if len(wc) == 1 and wc[0].startswith("ifexp:"):
            _, a, b = wc[0].split(":")
            a, b = a.rstrip(";"), b.rstrip(";")
            if tv == "True" and a == yes and b != yes:
                return R.OK, f"== {yes!r} <-> {a!r} if field else {b!r}"
            if tv == "False" and b == yes and a != yes:
                return R.OK, f"!= {yes!r} <-> inverted conditional"
            return R.VIOL, f"reader maps {yes!r} to {tv} but the writer emits {a!r} for True and {b!r} for False"
        return R.UNDEC, "boolean tag written through an unrecognised expression"
    if rc == ["float"] and wc in ([], ["float"]):
        return R.OK, "float <-> text"
    if rc == ["int"] and wc in ([], ["int"]):
        return R.OK, "int <-> text"
    return R.UNDEC, f"reader {rops} vs writer {wops}"



def _blind_reader(fn_node) -> Optional[ast.AST]:
    """a store whose field name is computed (`setattr(self, <name>, ..)` with a non-constant name, `self.__dict__[..] = ..`): which
    fields the reader fills is then not read off its statements"""
    for n in ast.walk(fn_node):
        if isinstance(n, ast.Call) and isinstance(n.func, ast.Name) and n.func.id == "setattr" and len(n.args) == 3 and \
                isinstance(n.args[0], ast.Name) and n.args[0].id == "self" and not isinstance(n.args[1], ast.Constant):
            return n
        if isinstance(n, ast.Call) and isinstance(n.func, ast.Attribute) and n.func.attr == "__setattr__" and n.args and not isinstance(n.args[0], ast.Constant):
            return n
    return None


def rule_r1(ctx) -> List[R.Inst]:
    """header tag table with inverse chains (shared with C02.R3)"""
    M = ctx.M
    rid = "C03.R1"
    rt, rfn = S.header_reader_table(ctx)
    wt, odd, wfn = S.header_writer_table(ctx)
    file = M.mods[wfn.mod].rel
    insts = []
    # tags carried by odd elements (conditional expressions): find the tag text inside
    odd_tags = {}
    for el in odd:
        for n in ast.walk(el):
            if isinstance(n, ast.Constant) and isinstance(n.value, str) and n.value.startswith("#") and ":" in n.value:
                odd_tags[n.value.split(":", 1)[0]] = el
            if isinstance(n, ast.JoinedStr):
                for v in n.values:
                    if isinstance(v, ast.Constant) and str(v.value).startswith("#") and ":" in str(v.value):
                        odd_tags[str(v.value).split(":", 1)[0]] = el
    # elements whose tag is itself computed (f"{tag}:{pairs};" over a table): what they write is not read off the element
    def _has_tag_text(el):
        return any((isinstance(n, ast.Constant) and isinstance(n.value, str) and n.value.startswith("#") and ":" in n.value) or
                   (isinstance(n, ast.JoinedStr) and any(isinstance(v, ast.Constant) and str(v.value).startswith("#") and ":" in str(v.value) for v in n.values))
                   for n in ast.walk(el))
    blind = [el for el in odd if not _has_tag_text(el)]
    for tag in sorted(set(rt) | set(wt) | set(odd_tags)):
        key = f"tag:{tag}"
        if tag not in wt and tag not in odd_tags and blind:
            insts.append(R.undec(rid, key, file, getattr(blind[0], "lineno", rt[tag][3].lineno),
                                 f"{tag} is not written by an element with a literal tag, but '{unparse(blind[0])[:60]}' writes tags that are computed: not decided"))
            continue
        if tag not in wt and tag not in odd_tags:
            insts.append(R.viol(rid, key, file, rt[tag][3].lineno, f"{tag} is read but never written",
                                construct=f"read-only tag {tag}"))
            continue
        if tag not in rt and _blind_reader(rfn.node) is not None:
            node = wt[tag][2] if tag in wt else odd_tags[tag]
            insts.append(R.undec(rid, key, file, _blind_reader(rfn.node).lineno,
                                 f"{tag} has no reading statement of its own, but the reader stores fields under computed names "
                                 f"('{unparse(_blind_reader(rfn.node))[:60]}'): not decided"))
            continue
        if tag not in rt:
            node = wt[tag][2] if tag in wt else odd_tags[tag]
            insts.append(R.viol(rid, key, file, node.lineno, f"{tag} is written but never read back",
                                construct=f"write-only tag {tag}"))
            continue
        r = rt[tag]
        if tag in odd_tags and tag not in wt:
            # boolean tag written through a conditional: field agreement only; shape is R2's business
            el = odd_tags[tag]
            fields = {C.self_attr(n) for n in ast.walk(el) if C.self_attr(n)}
            if r[0] == "field" and r[1] in fields:
                yes = [o for o in r[2] if o.startswith("eq:")]
                lits = {n.value for n in ast.walk(el) if isinstance(n, ast.Constant) and isinstance(n.value, str)}
                want = yes[0].split(":")[1] if yes else None
                if want and any(want in l for l in lits):
                    insts.append(R.ok(rid, key, file, el.lineno, idiom=f"== {want!r} <-> {want!r} if field else ..."))
                else:
                    insts.append(R.viol(rid, key, file, el.lineno,
                                        f"reader tests for {want!r} but the writer emits {sorted(lits)}",
                                        construct=unparse(el)[:120]))
            else:
                insts.append(R.viol(rid, key, file, el.lineno,
                                    f"{tag}: read into '{r[1]}' but written from {sorted(fields)}",
                                    construct=unparse(el)[:120]))
            continue
        wf, wops, wnode = wt[tag]
        if r[0] == "local":
            # #BPMS / #STOPS: list-valued tags, pair order checked by R4 / C02
            if wops == ["<complex>"]:
                insts.append(R.ok(rid, key, file, wnode.lineno, idiom="list-valued tag (pairing: C03.R4)"))
            else:
                insts.append(R.viol(rid, key, file, wnode.lineno,
                                    f"{tag} is parsed as a list of beat=value pairs but written from '{wf}'",
                                    construct=unparse(wnode)[:120]))
            continue
        if wf is None:
            insts.append(R.undec(rid, key, file, wnode.lineno, f"{tag}: which field the writer takes the value from was not read off '{unparse(wnode)[:60]}'"))
            continue
        if wf != r[1]:
            insts.append(R.viol(rid, key, file, wnode.lineno,
                                f"{tag}: read into '{r[1]}' but written from '{wf}'", construct=f"{tag}: {r[1]} != {wf}"))
            continue
        st, why = _hdr_compat(tag, r[2], wops)
        insts.append(R.Inst(rid, key, st, file, wnode.lineno, f"{tag} ({wf}): {why}",
                            construct=f"{tag}: reader {r[2]} writer {wops}", idiom=why if st == R.OK else ""))
    good, txt = S.reciprocal_constants(ctx)
    f2 = M.mods[M.cls(S.RACONST).mod].rel
    insts.append(R.ok(rid, "RAConst.sec<->msec", f2, M.cls(S.RACONST).node.lineno, idiom=txt) if good else
                 R.viol(rid, "RAConst.sec<->msec", f2, M.cls(S.RACONST).node.lineno,
                        f"sec_to_msec and msec_to_sec are not reciprocal ({txt})", construct=txt))
    return insts


# --------------------------------------------------------------------------- R2
def _alternatives(e: ast.AST) -> List[List[tuple]]:
    """Token lists of every alternative string an expression may evaluate to
    (IfExp = union, + / f-string = concatenation, precedence as parsed)."""
    if isinstance(e, ast.IfExp):
        return _alternatives(e.body) + _alternatives(e.orelse)
    if isinstance(e, ast.BinOp) and isinstance(e.op, ast.Add):
        out = []
        for a in _alternatives(e.left):
            for b in _alternatives(e.right):
                out.append(a + b)
        return out
    return [C.fstring_tokens(e)]


def rule_r2(ctx) -> List[R.Inst]:
    M = ctx.M
    els, fn = S.header_writer_elements(ctx)
    file = M.mods[fn.mod].rel
    insts = []
    for el, _ in els:
        alts = _alternatives(el)
        tags = set()
        bad = []
        for toks in alts:
            first = toks[0] if toks else None
            last = toks[-1] if toks else None
            head = first[1] if first and first[0] == "lit" else ""
            tail = last[1] if last and last[0] == "lit" else ""
            if head.startswith("#") and ":" in head:
                tags.add(head.split(":", 1)[0])
            if not (head.startswith("#") and ":" in head and tail.rstrip().endswith(";")):
                bad.append("".join(t[1] if t[0] == "lit" else "{…}" for t in toks))
        tag = sorted(tags)[0] if tags else unparse(el)[:30]
        key = f"line:{tag}"
        if bad and isinstance(el, ast.Starred):
            # several lines produced by one starred element (a comprehension over a table of tags): their text is not read here
            insts.append(R.undec("C03.R2", key, file, el.lineno, f"the lines produced by '{unparse(el)[:60]}' are not read"))
            continue
        if bad:
            insts.append(R.viol("C03.R2", key, file, el.lineno,
                                f"for some value this element is emitted as {bad[0]!r}, which is not a '#TAG:value;' line "
                                f"(operator precedence: the conditional swallows the tag prefix)",
                                construct=unparse(el)[:160]))
        else:
            insts.append(R.ok("C03.R2", key, file, el.lineno, idiom=f"{len(alts)} alternative(s), all '#TAG:…;'"))
    return insts


# --------------------------------------------------------------------------- R3
def rule_r3(ctx) -> List[R.Inst]:
    M = ctx.M
    seqs, target, fn = S.writer_parallel_lists(ctx)
    file = M.mods[fn.mod].rel
    insts = []
    times, cols, syms = seqs
    holds = S.hold_slots(ctx)
    slot_seq = [s for s, _, _ in times]
    symbols = S.sm_symbols(ctx)
    n = max(len(times), len(cols), len(syms))
    for i in range(n):
        t = times[i] if i < len(times) else None
        c = cols[i] if i < len(cols) else None
        y = syms[i] if i < len(syms) else None
        key = f"position:{i}:{t[0] if t else (c[0] if c else y[0])}"
        node = (t or c or y)[2]
        if t is None or c is None or y is None:
            insts.append(R.viol("C03.R3", key, file, node.lineno,
                                "the three parallel sequences (times, columns, symbols) have different lengths",
                                construct=f"lens {len(times)},{len(cols)},{len(syms)}"))
            continue
        probs = []
        if not (t[0] == c[0] == y[0]):
            probs.append(f"position {i} takes time from '{t[0]}', column from '{c[0]}', symbol count from '{y[0]}'")
        if c[1] != "column":
            probs.append(f"column sequence uses '{c[1]}'")
        if t[0] in holds:
            first = i == 0 or times[i - 1][0] != t[0]
            second = i > 0 and times[i - 1][0] == t[0]
            want_t = "tail_offset" if second else "head_offset"
            if t[1] not in (want_t, "offset" if want_t == "head_offset" else want_t):
                probs.append(f"{'second' if second else 'first'} occurrence of '{t[0]}' uses '{t[1]}', expected {want_t}")
            want_sym = ("TAIL" if second else "HEAD")
            if want_sym not in y[1]:
                probs.append(f"{'tail' if second else 'head'} rows of '{t[0]}' are written with {y[1]}")
        else:
            if t[1] != "offset":
                probs.append(f"time sequence uses '{t[1]}' for '{t[0]}'")
        if y[1] not in symbols:
            probs.append(f"{y[1]} is not a symbol constant")
        if probs:
            insts.append(R.viol("C03.R3", key, file, node.lineno, "; ".join(probs),
                                construct=f"{unparse(t[2])} | {unparse(c[2])} | {unparse(y[2])}"))
        else:
            insts.append(R.ok("C03.R3", key, file, node.lineno, idiom=f"{t[0]}.{t[1]} / column / {y[1]}"))
    # multiplicity: hold-typed slots twice, others once; every note-typed slot present
    for s in S.note_slots(ctx):
        cnt = slot_seq.count(s)
        want = 2 if s in holds else 1
        key = f"slot:{s}"
        if cnt == want:
            insts.append(R.ok("C03.R3", key, file, target.lineno, idiom=f"emitted {cnt}x"))
        else:
            insts.append(R.viol("C03.R3", key, file, target.lineno,
                                f"note list '{s}' is emitted {cnt} time(s), expected {want}"
                                f"{' (head and tail)' if want == 2 else ''}", construct=f"{s} x{cnt}"))
    # symbol uniqueness on the writer side: two different slots must not share a head symbol
    heads = {}
    for s, name, node in syms:
        if "TAIL" in name:
            continue
        heads.setdefault(symbols.get(name), []).append(s)
    for sym, sl in heads.items():
        if len(set(sl)) > 1:
            insts.append(R.viol("C03.R3", f"symbol:{sym}", file, target.lineno,
                                f"lists {sorted(set(sl))} are written with the same symbol {sym!r}", construct=f"{sym}: {sl}"))
    return insts


# --------------------------------------------------------------------------- R4
def rule_r4(ctx) -> List[R.Inst]:
    M = ctx.M
    fn = M.nfn(S.SET_META + "._write_metadata", subst="alias")
    file = M.mods[fn.mod].rel
    from .. import seqexpr as SE
    defs = {}
    for n in walk_no_nested(fn.node):
        if isinstance(n, ast.Assign) and isinstance(n.targets[0], ast.Name):
            defs[n.targets[0].id] = n.value
    insts = []
    zips = [n for n in ast.walk(fn.node) if isinstance(n, ast.Call) and unparse(n.func) == "zip" and len(n.args) == 2]
    for z in zips:
        a, b = z.args
        key = f"zip({unparse(a)},{unparse(b)})"
        d = defs.get(a.id) if isinstance(a, ast.Name) else None
        if d is None or not (isinstance(d, ast.Call) and isinstance(d.func, ast.Attribute) and d.func.attr == "beats" and d.args):
            # decide with the row-order typestate (A5): both operands must carry the same order tag
            from .. import order as O
            sites = O.analyse_function(ctx, S.SET_META + "._write_metadata")
            mine = [x for x in (sites if not isinstance(sites, Exception) else []) if x.kind == "pairing" and (x.node is z or (
                getattr(x.node, "lineno", -1), getattr(x.node, "col_offset", -1)) == (z.lineno, z.col_offset))]
            if mine:
                tags = [t for t in mine[0].tags if t.kind != "scalar"]
                if len(tags) == 2 and all(t.kind != "top" for t in tags):
                    if tags[0].same_order(tags[1]):
                        insts.append(R.ok("C03.R4", key, file, z.lineno, idiom=f"both operands {tags[0]}"))
                    else:
                        insts.append(R.viol("C03.R4", key, file, z.lineno,
                                            f"'{unparse(a)}' is {tags[0]} but '{unparse(b)}' is {tags[1]}: beats and values are paired by "
                                            f"position, so an unsorted tempo / stop list is written with its values at other rows' beats",
                                            construct=f"zip: {tags[0]} vs {tags[1]}"))
                    continue
            insts.append(R.undec("C03.R4", key, file, z.lineno, "first operand is not a tm.beats(...) result"))
            continue
        q = d.args[0]
        # tm.beats returns query order (C10.R1), so the beats carry the row order of q's list
        base = unparse(q.value) if isinstance(q, ast.Attribute) else None
        # the values: the list itself, or an element-wise unfiltered view of it (`(x.bpm for x in LIST)`)
        alts = SE.describe(b, {})
        b_base = unparse(b)
        if alts and len(alts) == 1 and not next(iter(alts)).filters:
            b_base = next(iter(alts)).base
        if base == b_base and q.attr == "offset":
            insts.append(R.ok("C03.R4", key, file, z.lineno, idiom=f"beats of {base}.offset paired with {base} (same row order)"))
        else:
            insts.append(R.viol("C03.R4", key, file, z.lineno,
                                f"beats computed from '{unparse(q)}' are paired positionally with '{unparse(b)}': "
                                f"different sequences / orders", construct=unparse(z)))
    # beat positions in #BPMS / #STOPS: the text must resolve the snap grid.  round(x, 2) keeps 0.01 beat — a change on a 1/8 or 1/48
    # beat moves by up to 0.005 beat, and every later object by that times the jump in beat length, which exceeds 1/96 beat at the
    # local tempo for large tempo ratios
    # ... the round(...) applied to the first component of each zipped (beat, value) pair
    rounds = []
    for comp in ast.walk(fn.node):
        if isinstance(comp, (ast.ListComp, ast.GeneratorExp)) and len(comp.generators) == 1 and comp.generators[0].iter in zips and \
                isinstance(comp.generators[0].target, ast.Tuple) and comp.generators[0].target.elts and \
                isinstance(comp.generators[0].target.elts[0], ast.Name):
            bv = comp.generators[0].target.elts[0].id
            for n in ast.walk(comp.elt):
                if isinstance(n, ast.Call) and unparse(n.func) == "round" and len(n.args) == 2 and isinstance(n.args[1], ast.Constant) and \
                        any(isinstance(x, ast.Name) and x.id == bv for x in ast.walk(n.args[0])):
                    rounds.append(n)
    rounds.sort(key=lambda n: (n.lineno, n.col_offset))
    for ix_, n in enumerate(rounds):
        if True:
            d_ = n.args[1].value
            key = f"beat-precision#{ix_}"
            if isinstance(d_, int) and d_ >= 3:
                insts.append(R.ok("C03.R4", key, file, n.lineno, idiom=f"beat written with {d_} decimals"))
            else:
                insts.append(R.viol("C03.R4", key, file, n.lineno,
                                    f"beat positions are written with round(..., {d_}): a tempo change on a 1/8 beat (x.125) is written 0.005 beat "
                                    f"off, and the objects after it move by 0.005 beat times the jump in beat length — 3.5 ms for 60 -> 200 bpm, "
                                    f"more than the 1/96 beat (3.125 ms) the written grid allows", construct=f"round(beat, {d_}) in #BPMS/#STOPS"))
    return insts


# --------------------------------------------------------------------------- R5
def chart_header_tables(ctx):
    """reader: index -> (field, ops); writer: index -> (field, node)"""
    M = ctx.M
    rfn = M.fn(S.MAP_META + "._read_note_metadata")
    arg = [p for p in params_of(rfn.node) if p != "self"][0]
    res = S.resolver(M, rfn.mod, rfn.cls)
    rt = {}
    for n in walk_no_nested(rfn.node):
        if isinstance(n, ast.Assign) and C.self_attr(n.targets[0]):
            idxs = [C.subscript_const_index(x) for x in ast.walk(n.value)]
            idxs = [i for i in idxs if i and i[0] == arg]
            if len(idxs) == 1:
                rt[idxs[0][1]] = (C.self_attr(n.targets[0]), n)
    wfn = M.nfn(S.SMMAP + ".write", subst="alias")
    hdr = None
    for n in walk_no_nested(wfn.node):
        if isinstance(n, ast.Assign) and isinstance(n.value, ast.List) and any(
                isinstance(e, ast.Constant) and isinstance(e.value, str) and "#NOTES" in e.value for e in n.value.elts):
            hdr = n
    if hdr is None:
        raise AnalysisError("SMMap.write: chart header list not found")
    wt = {}
    idx = None
    for e in hdr.value.elts:
        if isinstance(e, ast.Constant) and isinstance(e.value, str) and "#NOTES" in e.value:
            idx = 0
            continue
        if idx is None:
            continue
        fields = [C.self_attr(x) for x in ast.walk(e) if C.self_attr(x)]
        toks = C.fstring_tokens(e)
        ends_colon = bool(toks) and toks[-1][0] == "lit" and toks[-1][1].rstrip().endswith(":")
        wt[idx] = (fields[0] if len(fields) == 1 else None, e, ends_colon)
        idx += 1
    return rt, wt, rfn, wfn


def rule_r5(ctx, rid="C03.R5") -> List[R.Inst]:
    M = ctx.M
    rt, wt, rfn, wfn = chart_header_tables(ctx)
    file = M.mods[wfn.mod].rel
    insts = []
    for i in sorted(set(rt) | set(wt)):
        key = f"chart-header:{i}"
        if i not in rt or i not in wt:
            node = (rt.get(i) or wt.get(i))[1]
            insts.append(R.viol(rid, key, file, node.lineno,
                                f"chart header position {i} is {'written but not read' if i not in rt else 'read but not written'}",
                                construct=f"header[{i}] one-sided"))
            continue
        rf, wf = rt[i][0], wt[i][0]
        if rf == wf and wt[i][2]:
            insts.append(R.ok(rid, key, file, wt[i][1].lineno, idiom=f"position {i} <-> {rf}"))
        elif rf != wf:
            insts.append(R.viol(rid, key, file, wt[i][1].lineno,
                                f"chart header position {i} is written from '{wf}' but read into '{rf}'",
                                construct=f"header[{i}]: {wf} vs {rf}"))
        else:
            insts.append(R.viol(rid, key, file, wt[i][1].lineno,
                                f"chart header line {i} does not end with ':'", construct=unparse(wt[i][1])))
    return insts


def _has_call(e, *names):
    return e is not None and any(isinstance(x, ast.Call) and (
        (isinstance(x.func, ast.Attribute) and x.func.attr in names) or (isinstance(x.func, ast.Name) and x.func.id in names)) for x in ast.walk(e))


# roles of the locals of SMMap.write (sa/normal.py: with_roles) — the rules below name them by role
SM_WRITE_ROLES = (
    ("notes", lambda n, v, st: isinstance(v, ast.Call) and _has_call(v, "DataFrame") and any(
        k.arg == "columns" and "beat" in ast.unparse(k.value) for x in ast.walk(v) if isinstance(x, ast.Call) for k in x.keywords)),
    ("notes_gb", lambda n, v, st: isinstance(v, ast.Call) and isinstance(v.func, ast.Attribute) and v.func.attr == "groupby" and
     v.args and "measure" in ast.unparse(v.args[0])),
    ("keys", lambda n, v, st: isinstance(v, ast.Call) and isinstance(v.func, ast.Attribute) and v.func.attr == "get_keys"),
    ("den_max", lambda n, v, st: isinstance(v, ast.Call) and isinstance(v.func, ast.Name) and v.func.id == "min" and _has_call(v, "reduce")),
    ("lines", lambda n, v, st: isinstance(v, ast.ListComp) and isinstance(v.elt, ast.ListComp) and isinstance(v.elt.elt, ast.Constant) and
     v.elt.elt.value == "0"),
)


def _sm_write(ctx):
    from ..normal import with_roles
    return with_roles(ctx.M.nfn(S.SMMAP + ".write", subst="alias"), SM_WRITE_ROLES)



def _column_values(fn_node, loop):
    """the value every column of the note frame ends up with, as an expression over NUM / DEN (numerator and denominator of the
    row's beat), METRONOME and COL_<c> (a column as built): `F["c"] = [E(i) for i in F.beat]`, `F["c"] = E`, `F.c op= E`,
    `F.c = F.c.astype(int)` are evaluated in statement order; inside the per-measure loop the group's columns start as the
    frame's, and a local Series (`rows = (g.num * (den_max / g.den)).astype(int)`) is a value of its own.  'cell' maps the store
    `lines[a][b] = v` to (row value, column value, stored value) through the row loop's variables."""
    import copy
    cols: Dict[str, ast.AST] = {}
    gvar = None
    if loop is not None and isinstance(loop.target, ast.Tuple) and len(loop.target.elts) == 2 and isinstance(loop.target.elts[1], ast.Name):
        gvar = loop.target.elts[1].id

    def colref(e, frames):
        if isinstance(e, ast.Attribute) and isinstance(e.value, ast.Name) and e.value.id in frames:
            return e.attr
        if isinstance(e, ast.Subscript) and isinstance(e.value, ast.Name) and e.value.id in frames and isinstance(e.slice, ast.Constant) and \
                isinstance(e.slice.value, str):
            return e.slice.value
        return None

    def ev(e, env, frames, locs):
        class T(ast.NodeTransformer):
            def visit_Attribute(self, n):
                c = colref(n, frames)
                if c is not None and isinstance(n.ctx, ast.Load):
                    return copy.deepcopy(env.get(c, ast.Name(id=f"COL_{c}", ctx=ast.Load())))
                return self.generic_visit(n)

            def visit_Subscript(self, n):
                c = colref(n, frames)
                if c is not None and isinstance(n.ctx, ast.Load):
                    return copy.deepcopy(env.get(c, ast.Name(id=f"COL_{c}", ctx=ast.Load())))
                return self.generic_visit(n)

            def visit_Name(self, n):
                if isinstance(n.ctx, ast.Load) and n.id in locs:
                    return copy.deepcopy(locs[n.id])
                return n

            def visit_Call(self, n):
                n = self.generic_visit(n)
                if isinstance(n.func, ast.Attribute) and n.func.attr == "astype" and len(n.args) == 1 and unparse(n.args[0]) in ("int", "'int'", "np.int64", "'int64'"):
                    return ast.Call(func=ast.Name(id="int", ctx=ast.Load()), args=[n.func.value], keywords=[])
                if isinstance(n.func, ast.Attribute) and n.func.attr in ("to_numpy", "tolist", "copy") and not n.args:
                    return n.func.value
                return n
        return T().visit(copy.deepcopy(e))

    def per_elem(lc, frames):
        """[E(i) for i in F.beat] -> E with i.numerator -> NUM, i.denominator -> DEN"""
        if not (isinstance(lc, ast.ListComp) and len(lc.generators) == 1 and not lc.generators[0].ifs and isinstance(lc.generators[0].target, ast.Name)):
            return None
        if colref(lc.generators[0].iter, frames) != "beat":
            return None
        v = lc.generators[0].target.id

        class T(ast.NodeTransformer):
            def visit_Attribute(self, n):
                if isinstance(n.value, ast.Name) and n.value.id == v and n.attr in ("numerator", "denominator"):
                    return ast.Name(id="NUM" if n.attr == "numerator" else "DEN", ctx=ast.Load())
                return self.generic_visit(n)
        return T().visit(copy.deepcopy(lc.elt))

    def run(stmts, env, frames, locs, stop=None):
        for s in stmts:
            if s is stop:
                break
            if isinstance(s, ast.Assign) and len(s.targets) == 1:
                c = colref(s.targets[0], frames)
                if c is not None:
                    pe = per_elem(s.value, frames)
                    env[c] = pe if pe is not None else ev(s.value, env, frames, locs)
                elif isinstance(s.targets[0], ast.Name) and any(colref(x, frames) is not None for x in ast.walk(s.value)) and \
                        not (isinstance(s.value, ast.Call) and isinstance(s.value.func, ast.Name)):
                    # (a scalar reduced out of a column — den_max = min(reduce(..)) — keeps its name; a Series computed from columns is a value)
                    locs[s.targets[0].id] = ev(s.value, env, frames, locs)
            elif isinstance(s, ast.AugAssign):
                c = colref(s.target, frames)
                if c is not None:
                    env[c] = ast.BinOp(left=copy.deepcopy(env.get(c, ast.Name(id=f"COL_{c}", ctx=ast.Load()))), op=s.op, right=ev(s.value, env, frames, locs))
    run(fn_node.body, cols, {"notes"}, {}, stop=loop)
    gcols = dict(cols)
    glocs: Dict[str, ast.AST] = {}
    frames_g = {"notes", gvar} if gvar else {"notes"}
    inner = None
    if loop is not None:
        inner = next((n for n in loop.body if isinstance(n, ast.For) and any(
            isinstance(x, ast.Assign) and isinstance(x.targets[0], ast.Subscript) and isinstance(x.targets[0].value, ast.Subscript) and
            unparse(x.targets[0].value.value) == "lines" for x in ast.walk(n))), None)
        run(loop.body, gcols, frames_g, glocs, stop=inner)

    def cell(st):
        if inner is None or not any(x is st for x in ast.walk(inner)):
            return None
        rowvars: Dict[str, ast.AST] = {}
        it = inner.iter
        rec = None
        if isinstance(it, ast.Call) and call_name(it) in ("itertuples",) and isinstance(inner.target, ast.Name) and \
                isinstance(it.func.value, ast.Name) and it.func.value.id in frames_g:
            rec = inner.target.id
        elif isinstance(it, ast.Call) and call_name(it) == "zip" and isinstance(inner.target, ast.Tuple) and len(inner.target.elts) == len(it.args) and \
                all(isinstance(t, ast.Name) for t in inner.target.elts):
            for t, a in zip(inner.target.elts, it.args):
                rowvars[t.id] = ev(a, gcols, frames_g, glocs)
        else:
            return None

        def val(e):
            if rec is not None and isinstance(e, ast.Attribute) and isinstance(e.value, ast.Name) and e.value.id == rec:
                return copy.deepcopy(gcols.get(e.attr, ast.Name(id=f"COL_{e.attr}", ctx=ast.Load())))
            if isinstance(e, ast.Name) and e.id in rowvars:
                return rowvars[e.id]
            if isinstance(e, ast.Call) and isinstance(e.func, ast.Name) and e.func.id in ("int", "ord") and len(e.args) == 1 and not e.keywords:
                return ast.Call(func=ast.Name(id=e.func.id, ctx=ast.Load()), args=[val(e.args[0])], keywords=[])
            return e
        return val(st.targets[0].value.slice), val(st.targets[0].slice), val(st.value)
    return {"cols": cols, "gcols": gcols, "cell": cell}


def rule_r7(ctx) -> List[R.Inst]:
    """an object at absolute beat B is written to measure B // 4, row (B mod 4)/4 * rows: shapes of the row-index computation"""
    from .. import sym
    M = ctx.M
    rid = "C03.R7"
    wr = _sm_write(ctx)
    file = M.mods[wr.mod].rel
    insts = []
    stores = {}
    for n in walk_no_nested(wr.node):
        if isinstance(n, ast.Assign) and isinstance(n.targets[0], ast.Subscript) and isinstance(n.targets[0].value, ast.Name) and \
                n.targets[0].value.id == "notes" and isinstance(n.targets[0].slice, ast.Constant):
            stores[n.targets[0].slice.value] = n
    augs = {unparse(n.target): n for n in walk_no_nested(wr.node) if isinstance(n, ast.AugAssign)}

    def col(n):
        t = unparse(n).replace('"', "'")
        if t.startswith("notes.") and t.count(".") == 1:
            return t[6:]
        if t.startswith("notes['") and t.endswith("']"):
            return t[7:-2]
        return "M4" if t == "METRONOME" else None
    # measure = beat // METRONOME
    m = stores.get("measure")
    if m is not None and isinstance(m.value, ast.BinOp) and isinstance(m.value.op, ast.FloorDiv) and col(m.value.left) == "beat" and \
            col(m.value.right) == "M4":
        insts.append(R.ok(rid, "measure", file, m.lineno, idiom="measure = beat // METRONOME"))
    else:
        insts.append((R.viol if m is not None else R.undec)(rid, "measure", file, (m or wr.node).lineno,
                                                             "the measure of an object is its absolute beat // 4",
                                                             construct=unparse(m) if m is not None else ""))
    # den = denominator * METRONOME ; num = numerator mod den   => position in the measure = (beat mod 4) / 4
    # (read off the VALUE each column ends up with — stores, in-place updates and new Series alike: _column_values)
    loop = next((n for n in walk_no_nested(wr.node) if isinstance(n, ast.For) and unparse(n.iter) == "notes_gb"), None)
    if loop is None:
        # the groups iterated directly: for m, g in notes.groupby("measure")
        loop = next((n for n in walk_no_nested(wr.node) if isinstance(n, ast.For) and isinstance(n.iter, ast.Call) and call_name(n.iter) == "groupby"
                     and isinstance(n.iter.func, ast.Attribute) and unparse(n.iter.func.value) == "notes"), None)
    cv = _column_values(wr.node, loop)
    d, nn = cv["cols"].get("den"), cv["cols"].get("num")
    lfp = lambda n: {"NUM": "NUM", "DEN": "DEN", "METRONOME": "M4"}.get(unparse(n))   # noqa: E731
    d_ok = d is not None and sym.canon(d, lfp).same(sym.parse("DEN * M4"))
    n_ok = nn is not None and isinstance(nn, ast.BinOp) and isinstance(nn.op, ast.Mod) and sym.canon(nn.left, lfp).same(sym.parse("NUM")) and \
        sym.canon(nn.right, lfp).same(sym.parse("DEN * M4"))
    at = stores.get("den") or stores.get("num") or wr.node
    if d_ok and n_ok:
        insts.append(R.ok(rid, "position-in-measure", file, at.lineno, idiom="den = denominator*4; num = numerator mod den  (= (beat mod 4)/4)"))
    elif d is None or nn is None:
        insts.append(R.undec(rid, "position-in-measure", file, at.lineno, "the den / num columns of the note frame were not found"))
    else:
        insts.append(R.viol(rid, "position-in-measure", file, at.lineno,
                            "position inside the measure must be (numerator mod (denominator*4)) / (denominator*4), the modulus taken "
                            "after the denominator is scaled", construct=f"den = {unparse(d)}; num = {unparse(nn)}"[:200]))
    # row = num * (rows / den), exact ratio first; rows = min(lcm of the dens, MAX_SNAP)
    if loop is None:
        insts.append(R.undec(rid, "row-index", file, wr.node.lineno, "per-measure loop not found"))
        return insts
    st = [n for n in ast.walk(loop) if isinstance(n, ast.Assign) and isinstance(n.targets[0], ast.Subscript) and
          isinstance(n.targets[0].value, ast.Subscript) and unparse(n.targets[0].value.value) == "lines"]
    cell = cv["cell"](st[0]) if len(st) == 1 else None
    if cell is None and not st:
        # no `lines[row][column] = symbol` store in the per-measure loop at all: the grid is built somewhere else (a helper, another
        # data structure) — not read here
        insts.append(R.undec(rid, "row-index", file, loop.lineno, "row scaling not recognised"))
        insts.append(R.undec(rid, "cell-store", file, loop.lineno, "no store into a grid named 'lines' in the per-measure loop: how objects reach their cell is not decided"))
        return insts
    if cell is None:
        insts.append(R.undec(rid, "row-index", file, loop.lineno, "row scaling not recognised"))
        insts.append(R.viol(rid, "cell-store", file, (st[0] if st else loop).lineno, "each object is stored at lines[its row][its column]",
                            construct=unparse(st[0]) if st else "no store"))
    else:
        row, colv, val = cell
        r0 = row
        while isinstance(r0, ast.Call) and call_name(r0) == "int" and len(r0.args) == 1:
            r0 = r0.args[0]
        num_t, den_t = unparse(nn) if nn is not None else "?", unparse(d) if d is not None else "?"
        # num * (rows / den): the ratio rows/den is exact for every den dividing rows; (num * rows) / den is the same number, but
        # num / den * rows is not (17/28*84 = 50.999…): the division must have `rows` on top
        shape_ok = isinstance(r0, ast.BinOp) and isinstance(r0.op, (ast.Mult, ast.Div))
        lfr = lambda n: ("num" if unparse(n) == num_t else ("den" if unparse(n) == den_t else ("rows" if unparse(n) == "den_max" else None)))   # noqa: E731
        formula_ok = shape_ok and sym.canon(r0, lfr).same(sym.parse("num * rows / den"))
        inexact = None
        if formula_ok:
            for x in ast.walk(r0):
                if isinstance(x, ast.BinOp) and isinstance(x.op, ast.Div) and unparse(x.right) == den_t and "den_max" not in unparse(x.left):
                    inexact = x
        truncated = isinstance(row, ast.Call) and call_name(row) == "int"
        if formula_ok and inexact is None and truncated:
            insts.append(R.ok(rid, "row-index", file, st[0].lineno, idiom="row = int(num * (rows / den)) (exact ratio first)"))
        elif formula_ok and inexact is not None:
            insts.append(R.viol(rid, "row-index", file, st[0].lineno,
                                f"the row is computed with the quotient '{unparse(inexact)[:60]}' first, which is not representable for "
                                f"denominators such as 7 or 28; the later int() truncates one row early: multiply by the exact ratio rows/den",
                                construct=f"row = {unparse(row)[:120]}"))
        elif shape_ok or not truncated:
            insts.append(R.viol(rid, "row-index", file, st[0].lineno, "the row of an object is num * (rows of the measure / den)",
                                construct=f"row = {unparse(row)[:160]}"))
        else:
            insts.append(R.undec(rid, "row-index", file, st[0].lineno, f"row expression not recognised: {unparse(row)[:100]}"))
        c0 = colv
        while isinstance(c0, ast.Call) and call_name(c0) == "int" and len(c0.args) == 1:
            c0 = c0.args[0]
        # (a grid of bytearray rows holds the symbol's code: lines[row][column] = ord(symbol))
        byte_grid = any(isinstance(n, ast.Assign) and unparse(n.targets[0]) == "lines" and "bytearray(" in unparse(n.value) for n in ast.walk(loop))
        if unparse(c0) == "COL_column" and (unparse(val) == "COL_char" or (byte_grid and unparse(val) == "ord(COL_char)")) and (truncated or formula_ok):
            insts.append(R.ok(rid, "cell-store", file, st[0].lineno, idiom="lines[row][column] = symbol"))
        else:
            insts.append(R.viol(rid, "cell-store", file, st[0].lineno, "each object is stored at lines[its row][its column]",
                                construct=f"lines[{unparse(row)[:60]}][{unparse(colv)[:40]}] = {unparse(val)[:40]}"))
    rows = [n for n in ast.walk(loop) if isinstance(n, ast.Assign) and unparse(n.targets[0]) == "lines"]
    # the grid built by a comprehension, or by a loop that appends one row per range(den_max) to an empty list
    build = " ; ".join([unparse(r.value) for r in rows] +
                       [unparse(l_.iter) + " : " + unparse(x.args[0]) for l_ in ast.walk(loop) if isinstance(l_, ast.For)
                        for x in ast.walk(l_) if isinstance(x, ast.Call) and call_name(x) == "append" and unparse(x.func.value) == "lines" and x.args])
    import re as _re
    # the cells of a row: one per range(keys), or a one-cell row repeated `keys` times ("0" * keys, [c] * keys, bytearray(b"0" * keys))
    width_keys = "range(keys)" in build or _re.search(r"(?:b?'0'|\[b?'0'\])\s*\*\s*keys\b|\bkeys\s*\*\s*(?:b?'0'|\[b?'0'\])", build) is not None
    if rows and width_keys and "range(den_max)" in build:
        insts.append(R.ok(rid, "grid", file, rows[0].lineno, idiom="den_max rows of `keys` cells"))
    elif rows and "range(den_max)" in build and "range(keys)" not in build and build.count("range(") == 1:
        insts.append(R.undec(rid, "grid", file, rows[0].lineno, f"den_max rows; how wide a row is was not recognised: {build[:80]}"))
    elif rows and "range(" not in unparse(rows[0].value) and "range(" not in build:
        insts.append(R.undec(rid, "grid", file, rows[0].lineno, "how the grid of a measure is built was not recognised"))
    else:
        insts.append(R.viol(rid, "grid", file, (rows[0] if rows else loop).lineno, "a measure is a grid of den_max rows by `keys` cells",
                            construct=unparse(rows[0]) if rows else ""))
    return insts


def rule_r6(ctx) -> List[R.Inst]:
    """row width: every note row of a chart has as many characters as the chart type has keys"""
    M = ctx.M
    rid = "C03.R6"
    wr = _sm_write(ctx)
    file = M.mods[wr.mod].rel
    keys_defs = [n for n in walk_no_nested(wr.node) if isinstance(n, ast.Assign) and isinstance(n.targets[0], ast.Name)
                 and n.targets[0].id == "keys"]
    insts = []
    if len(keys_defs) != 1:
        return [R.undec(rid, "row-width", file, wr.node.lineno, "definition of the row width not found")]
    v = keys_defs[0].value
    if isinstance(v, ast.Call) and isinstance(v.func, ast.Attribute) and v.func.attr == "get_keys" and \
            unparse(v.func.value).endswith("SMMapChartTypes") and v.args and unparse(v.args[0]) == "self.chart_type":
        insts.append(R.ok(rid, "row-width", file, v.lineno, idiom="keys = SMMapChartTypes.get_keys(self.chart_type)"))
    elif "column" in unparse(v):
        insts.append(R.viol(rid, "row-width", file, v.lineno,
                            f"the width of a note row is derived from the notes present ('{unparse(v)}'): a chart whose right-most "
                            f"panel is unused is written with rows narrower than its chart type requires (and than its own padding rows)",
                            construct=unparse(keys_defs[0])))
    else:
        insts.append(R.undec(rid, "row-width", file, v.lineno, f"row width '{unparse(v)}' not recognised"))
    # rows and padding use that same width
    uses = [n for n in ast.walk(wr.node) if isinstance(n, ast.Call) and isinstance(n.func, ast.Name) and n.func.id == "range" and
            n.args and unparse(n.args[0]) == "keys"]
    lits = [n for n in ast.walk(wr.node) if isinstance(n, ast.Constant) and isinstance(n.value, (str, bytes)) and set(n.value) in ({"0"}, {48}) and
            len(n.value) > 1]
    # (a one-cell row repeated: "0" * keys, b"0" * keys, ["0"] * keys)
    uses += [n for n in ast.walk(wr.node) if isinstance(n, ast.BinOp) and isinstance(n.op, ast.Mult) and
             any(isinstance(x, ast.Name) and x.id == "keys" for x in (n.left, n.right)) and
             any((isinstance(x, ast.Constant) and x.value in ("0", b"0")) or
                 (isinstance(x, ast.List) and len(x.elts) == 1 and isinstance(x.elts[0], ast.Constant) and x.elts[0].value in ("0", b"0"))
                 for x in (n.left, n.right))]
    # every repetition of a one-cell row, padding included, is `keys` wide: a row repeated by anything else has another width
    def _cell(x):
        return (isinstance(x, ast.Constant) and x.value in ("0", b"0")) or \
               (isinstance(x, ast.List) and len(x.elts) == 1 and isinstance(x.elts[0], ast.Constant) and x.elts[0].value in ("0", b"0"))
    other = [(n, (n.right if _cell(n.left) else n.left)) for n in ast.walk(wr.node) if isinstance(n, ast.BinOp) and isinstance(n.op, ast.Mult) and
             (_cell(n.left) or _cell(n.right)) and not any(isinstance(x, ast.Name) and x.id == "keys" for x in (n.left, n.right))]
    if other and not lits:
        n, w = other[0]
        if isinstance(w, ast.Constant) or (isinstance(w, ast.Name) and w.id.isupper()):
            insts.append(R.viol(rid, "row-construction", file, n.lineno,
                                f"a row of empty cells is built as '{unparse(n)}': its width is the constant '{unparse(w)}', not the key count of "
                                f"the chart type — a 6-, 7- or 8-key chart (or a 3-key one) gets rows of the wrong width wherever this row is "
                                f"written (an empty measure), which is not a valid row for its chart type",
                                construct=f"empty row {unparse(n)}"))
        else:
            insts.append(R.undec(rid, "row-construction", file, n.lineno, f"width '{unparse(w)}' of the empty row '{unparse(n)}' is not the key count by name"))
    elif uses and not lits:
        insts.append(R.ok(rid, "row-construction", file, uses[0].lineno, idiom="rows are ['0'] * keys"))
    elif lits:
        insts.append(R.viol(rid, "row-construction", file, lits[0].lineno,
                            f"empty measures are padded with the literal row {lits[0].value!r} whatever the key count: a 6-, 7- or 8-key "
                            f"chart with a silent measure is written with {len(lits[0].value)}-character rows in that measure, which is "
                            f"not a valid row for its chart type", construct=f"literal padding row {lits[0].value!r}"))
    else:
        insts.append(R.undec(rid, "row-construction", file, wr.node.lineno, "row construction not recognised"))
    return insts


def rule_r9(ctx) -> List[R.Inst]:
    """#STOPS round trip: what the writer takes from `chart.stops` the reader must put back there"""
    M = ctx.M
    rid = "C03.R9"
    wfn = M.fn(S.SET_META + "._write_metadata")
    writes = any(isinstance(n, ast.Attribute) and n.attr == "stops" for n in ast.walk(wfn.node))
    rn = M.fn(S.SMMAP + "._read_notes")
    file = M.mods[rn.mod].rel
    has_param = "stops" in [a.arg for a in rn.node.args.args]
    stored = any(isinstance(n, ast.Assign) and isinstance(n.targets[0], ast.Attribute) and n.targets[0].attr == "stops" and
                 unparse(n.targets[0].value) in ("self", "sm") for f_ in (rn, M.fn(S.SMMAP + ".read")) for n in ast.walk(f_.node))
    used = [n for n in ast.walk(rn.node) if isinstance(n, ast.For) and any(isinstance(x, ast.Name) and x.id == "stops" for x in ast.walk(n.iter))]
    if not (writes and has_param):
        return [R.ok(rid, "stops-read-back", file, rn.node.lineno, idiom="stops are not part of the file exchange")]
    if stored:
        return [R.ok(rid, "stops-read-back", file, rn.node.lineno, idiom="the stops of the file are stored in the chart")]
    return [R.viol(rid, "stops-read-back", file, (used[0] if used else rn.node).lineno,
                   "the writer emits #STOPS from the chart's stop list, the reader uses the file's stops only to shift the objects and never "
                   "stores them in the chart: a chart read from a file with stops has an empty stop list, and writing it again emits "
                   "'#STOPS:;' while the object times still contain the stop lengths — reading the written text back does not give the "
                   "same result again", construct="SMMap._read_notes: stops parameter never stored in self.stops")]


def rule_dep(ctx):
    """obligations inherited from shared code reached through the call graph (sa/props/deps.py)"""
    from .deps import dep_insts
    return dep_insts(ctx, "C03", ["reamber.sm.SMMapSet.SMMapSet.write",
                                    # "read back unchanged", "reading the written text back gives the same result": the reader's rules too
                                    "reamber.sm.SMMapSet.SMMapSet.read"], skip_groups=())


SPECS = [
    RuleSpec("C03.R1", rule_r1, 22, "A1", "header tag table with inverse transforms"),
    RuleSpec("C03.R2", rule_r2, 22, "A9", "every alternative of every header element has shape '#TAG:…;'"),
    RuleSpec("C03.R3", rule_r3, 16, "A5", "times / columns / symbols enumerate the same lists in the same order; holds = head + tail"),
    RuleSpec("C03.R4", rule_r4, 4, "A5", "tempo and stop pairing: beats of a list zipped with that same list"),
    RuleSpec("C03.R5", rule_r5, 5, "A1", "per-chart header order equals the reader's positions"),
    RuleSpec("C03.R7", rule_r7, 5, "A7", "row index shapes: measure = beat // 4, position (beat mod 4)/4, row = num * rows/den, cell store"),
    RuleSpec("C03.R6", rule_r6, 2, "A7", "note rows, padding rows included, are as wide as the chart type's key count"),
    RuleSpec("C03.R9", rule_r9, 1, "A1", "#STOPS round trip: the reader stores what the writer emits"),
    RuleSpec("C03.D", rule_dep, 1, "M0", "rules of the shared code (timing engine, list classes, stacker) that the operations of this property reach"),
]

META = dict(
    explanation=(
        "StepMania writer: the 22-tag header table against the reader (same field per tag, inverse unit/sign "
        "transforms, reciprocal constants), the string shape of every alternative of every emitted header element "
        "with operator precedence as parsed, the three parallel sequences of SMMap.write (same slots, same order, "
        "hold-typed lists twice with head then tail), the positional pairing of computed beats with the list they "
        "were computed from, and the per-chart header order. Every repetition of an empty cell, padding rows included, is `keys` wide (R6); a header value passed through round() is lossy (R1)."),
    not_decided="per-measure LCM and cap as numbers, the 1/96-beat bound as a number (the written precision of tempo beats is decided: >= 3 decimals)",
)
